#!/venv/bin/python
"""Benign-edit fuzz for the checkers: make a copy of the package in which every
function's purely local variables are renamed (token-level, comments and layout
preserved), then run every claimed check on the copy.  A finding on the copy
that is not a finding on the original is a rename-brittle rule.

usage: rename_fuzz.py [--suffix _rn] [--only C20 C21 ...]
The copy lives under a temporary directory outside /repo and /verif and is
removed afterwards.  Not part of any registered check.
"""
import ast
import io
import json
import os
import shutil
import subprocess
import sys
import tempfile
import tokenize

VERIF = os.path.dirname(os.path.dirname(os.path.abspath(__file__)))
REPO = os.environ.get("FUZZ_REPO", "/repo")
PY = "/venv/bin/python"


def local_names(fn):
    """names bound only as plain locals of fn (not parameters, globals, nonlocals), including in nested scopes"""
    params = set()
    for f in ast.walk(fn):
        if isinstance(f, (ast.FunctionDef, ast.AsyncFunctionDef, ast.Lambda)):
            a = f.args
            for x in a.posonlyargs + a.args + a.kwonlyargs:
                params.add(x.arg)
            if a.vararg:
                params.add(a.vararg.arg)
            if a.kwarg:
                params.add(a.kwarg.arg)
    stores, banned = set(), set()
    for n in ast.walk(fn):
        if isinstance(n, ast.Name) and isinstance(n.ctx, (ast.Store, ast.Del)):
            stores.add(n.id)
        if isinstance(n, (ast.Global, ast.Nonlocal)):
            banned.update(n.names)
        if isinstance(n, (ast.FunctionDef, ast.AsyncFunctionDef, ast.ClassDef)) and n is not fn:
            banned.add(n.name)
        if isinstance(n, ast.ExceptHandler) and n.name:
            banned.add(n.name)
        if isinstance(n, (ast.Import, ast.ImportFrom)):
            for al in n.names:
                banned.add((al.asname or al.name).split(".")[0])
        if isinstance(n, ast.keyword) and n.arg:
            banned.add(n.arg)  # a local sharing a keyword's name: leave alone (token-level ambiguity)
    return {x for x in stores - params - banned if not x.startswith("__") and x != "_"}


def pinned(f):
    for d in f.decorator_list:
        name = d.func if isinstance(d, ast.Call) else d
        if isinstance(name, ast.Name) and name.id == "ref_pseudocode":
            dev = None
            if isinstance(d, ast.Call):
                for k in d.keywords:
                    if k.arg == "deviation":
                        dev = k.value.value if isinstance(k.value, ast.Constant) else "?"
            if dev in (None, "serdes"):
                return True
    return False


def rename_source(src, suffix):
    tree = ast.parse(src)
    spans = []  # (first line, last line, names)
    for n in tree.body:
        fns = []
        if isinstance(n, (ast.FunctionDef, ast.AsyncFunctionDef)):
            fns = [n]
        elif isinstance(n, ast.ClassDef):
            fns = [f for f in n.body if isinstance(f, (ast.FunctionDef, ast.AsyncFunctionDef))]
        for f in fns:
            if pinned(f):
                continue  # renaming a local of a function pinned to the standard's pseudocode fails the repository's own tests
            names = local_names(f)
            if names:
                spans.append((f.lineno, f.end_lineno, names))
    if not spans:
        return src, 0
    toks = list(tokenize.generate_tokens(io.StringIO(src).readline))
    out = []
    count = 0
    depth = 0
    for i, t in enumerate(toks):
        if t.type == tokenize.OP and t.string in "([{":
            depth += 1
        if t.type == tokenize.OP and t.string in ")]}":
            depth -= 1
        s = t.string
        if t.type == tokenize.NAME:
            line = t.start[0]
            for a, b, names in spans:
                if a <= line <= b and s in names:
                    prev = toks[i - 1] if i else None
                    nxt = toks[i + 1] if i + 1 < len(toks) else None
                    if prev is not None and prev.type == tokenize.OP and prev.string == ".":
                        break
                    if prev is not None and prev.type == tokenize.NAME and prev.string in ("def", "class"):
                        break  # the function's own name
                    if nxt is not None and nxt.type == tokenize.OP and nxt.string == "=" and depth > 0:
                        break  # keyword argument
                    s = s + suffix
                    count += 1
                    break
        out.append((t.type, s, t.start, t.end, t.line))
    # rebuild preserving layout: replace by position, right to left per line
    lines = src.splitlines(True)
    edits = {}
    for (ty, s, start, end, _), t in zip(out, toks):
        if s != t.string:
            edits.setdefault(start[0], []).append((start[1], end[1], s))
    for ln, es in edits.items():
        l = lines[ln - 1]
        for c0, c1, s in sorted(es, reverse=True):
            l = l[:c0] + s + l[c1:]
        lines[ln - 1] = l
    new = "".join(lines)
    ast.parse(new)
    return new, count


def main():
    args = sys.argv[1:]
    suffix = "_rn"
    only = None
    if "--suffix" in args:
        suffix = args[args.index("--suffix") + 1]
    if "--only" in args:
        only = args[args.index("--only") + 1:]
    keep = None
    if "--out" in args:
        keep = args[args.index("--out") + 1]
        shutil.rmtree(keep, ignore_errors=True)
        os.makedirs(keep)
    tmp = keep or tempfile.mkdtemp(prefix="vcheck-rename-")
    try:
        shutil.copytree(os.path.join(REPO, "vc2_conformance"), os.path.join(tmp, "vc2_conformance"), ignore=shutil.ignore_patterns("__pycache__"))
        total = 0
        for root, _, files in os.walk(os.path.join(tmp, "vc2_conformance")):
            for f in files:
                if f.endswith(".py"):
                    p = os.path.join(root, f)
                    src = open(p, encoding="utf-8").read()
                    try:
                        new, c = rename_source(src, suffix)
                    except SyntaxError as e:
                        print("skip %s: %s" % (p, e))
                        continue
                    total += c
                    open(p, "w", encoding="utf-8").write(new)
        print("renamed %d local-variable occurrences" % total)
        subprocess.run([PY, "-m", "compileall", "-q", os.path.join(tmp, "vc2_conformance")], check=True, stdout=subprocess.DEVNULL)
        if keep:
            print("copy kept at %s" % keep)
            return 0
        man = json.load(open(os.path.join(VERIF, "MANIFEST.json")))
        bad = 0
        for c in man["checks"]:
            pid = c["property_id"]
            if only and pid not in only:
                continue
            p = subprocess.run([PY, "-m", "vcheck", pid, "--tier", "quick", "--no-write", "--repo", tmp], cwd=VERIF, capture_output=True, text=True)
            finds = [l.strip() for l in p.stdout.splitlines() if l.strip().startswith("finding ") or l.startswith("ANALYSIS-ERROR")]
            print("%s exit=%d %s" % (pid, p.returncode, "" if p.returncode == 0 else "<-- rename-brittle"))
            for f in finds[:8]:
                print("    " + f[:260])
            bad += p.returncode != 0
        print("%d check(s) fired on the renamed copy" % bad)
        return 1 if bad else 0
    finally:
        if not keep:
            shutil.rmtree(tmp, ignore_errors=True)


if __name__ == "__main__":
    sys.exit(main())
