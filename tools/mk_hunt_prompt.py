#!/venv/bin/python
"""Write /tmp/wt/<ID>.hunt.txt for a defect-hunting sub-agent (property text only).  usage: mk_hunt_prompt.py ID ..."""
import json, os, sys
HERE = os.path.dirname(os.path.dirname(os.path.abspath(__file__)))
props = {}
for line in open(os.path.join(HERE, "properties.jsonl")):
    if line.strip():
        p = json.loads(line); props[p["id"]] = p
tpl = open("/tmp/wt/HUNT.txt").read()
for pid in sys.argv[1:]:
    p = props[pid]; a = p["anchors"]
    json.dump(p, open("/tmp/wt/%s.property.json" % pid, "w"), indent=1)
    text = "%s -- %s\nStatement: %s\nQuantifier: %s\nWhy the tests cannot settle it: %s\nAnchored in: %s\nMechanisms: %s" % (pid, p["title"], p["statement"], p["quantifier"]["text"], p["why_tests_cant"], ", ".join(a["files"]), "; ".join("%s @ %s" % (m["name"], m["where"]) for m in a["mechanism"]))
    open("/tmp/wt/%s.hunt.txt" % pid, "w").write(tpl.replace("__DIR__", "/tmp/wt/H%s" % pid).replace("__ID__", pid).replace("__PROPTEXT__", text))
    print("wrote /tmp/wt/%s.hunt.txt" % pid)
