#!/venv/bin/python
"""Write /tmp/wt/<ID>.prompt.txt and <ID>.property.json for a seeding sub-agent
(only the property text goes in; nothing from /verif's machinery).
usage: mk_seed_prompt.py ID [ID ...]     (template: /tmp/wt/PROMPT.txt)"""
import json
import os
import sys

HERE = os.path.dirname(os.path.dirname(os.path.abspath(__file__)))
props = {}
for line in open(os.path.join(HERE, "properties.jsonl")):
    line = line.strip()
    if line:
        p = json.loads(line)
        props[p["id"]] = p
tpl = open("/tmp/wt/PROMPT.txt").read()
for pid in sys.argv[1:]:
    p = props[pid]
    d = "/tmp/wt/%s" % pid
    json.dump(p, open("/tmp/wt/%s.property.json" % pid, "w"), indent=1)
    a = p["anchors"]
    text = "%s -- %s\nStatement: %s\nQuantifier: %s\nWhy the tests cannot settle it: %s\nAnchored in: %s\nMechanisms: %s" % (
        pid, p["title"], p["statement"], p["quantifier"]["text"], p["why_tests_cant"], ", ".join(a["files"]),
        "; ".join("%s @ %s" % (m["name"], m["where"]) for m in a["mechanism"]))
    prev = []
    sd = os.path.join(HERE, "seeded")
    for n in sorted(os.listdir(sd)):
        if n.startswith(pid + "-"):
            try:
                prev.append(json.load(open(os.path.join(sd, n, "meta.json"))).get("summary", "")[:400])
            except Exception:
                pass
    if prev:
        text += "\n\nALREADY COLLECTED for this property (do NOT repeat these; find changes at other code sites and with other mechanisms):\n" + "\n".join("  - " + x for x in prev)
    open("/tmp/wt/%s.prompt.txt" % pid, "w").write(tpl.replace("__DIR__", d).replace("__ID__", pid).replace("__PROPTEXT__", text))
    print("wrote /tmp/wt/%s.prompt.txt" % pid)
