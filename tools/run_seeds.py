#!/venv/bin/python
"""Apply every confirmed seeded change under /verif/seeded/<name>/patch.diff to
/repo, run the checks, revert, and record in seeded/<name>/meta.json which
check reported what.  /repo is always restored (git checkout -- .).

usage: run_seeds.py [name ...]     (default: all)
"""
import json, os, subprocess, sys, glob

VERIF = os.path.dirname(os.path.dirname(os.path.abspath(__file__)))
REPO = "/repo"
PY = "/venv/bin/python"


def claimed():
    m = json.load(open(os.path.join(VERIF, "MANIFEST.json")))
    return [c["property_id"] for c in m["checks"]]


def run_check(pid):
    p = subprocess.run([PY, "-m", "vcheck", pid, "--tier", "quick", "--no-write"], cwd=VERIF, capture_output=True, text=True)
    findings = [l.strip()[len("finding "):].split(" at ")[0] for l in p.stdout.splitlines() if l.strip().startswith("finding ")]
    err = [l for l in p.stdout.splitlines() if l.startswith("ANALYSIS-ERROR")]
    return p.returncode, findings, err


def main():
    names = sys.argv[1:] or sorted(os.path.basename(d) for d in glob.glob(os.path.join(VERIF, "seeded", "*")) if os.path.isdir(d))
    assert subprocess.run(["git", "-C", REPO, "status", "--porcelain"], capture_output=True, text=True).stdout.strip() == "", "/repo is not clean"
    all_props = claimed()
    summary = []
    for name in names:
        d = os.path.join(VERIF, "seeded", name)
        prop = name.split("-")[0]
        patch = os.path.join(d, "patch.diff")
        try:
            subprocess.run(["git", "-C", REPO, "apply", patch], check=True)
            results = {}
            from concurrent.futures import ThreadPoolExecutor
            with ThreadPoolExecutor(int(os.environ.get("SEED_JOBS", "5"))) as ex:
                for pid, (rc, findings, err) in zip(all_props, ex.map(run_check, all_props)):
                    if rc != 0:
                        results[pid] = dict(exit=rc, findings=findings, analysis_error=err)
        finally:
            subprocess.run(["git", "-C", REPO, "checkout", "--", "."], check=True)
        agent = {}
        ap = os.path.join(d, "agent_meta.json")
        if os.path.exists(ap):
            try:
                agent = json.load(open(ap))
            except Exception:
                agent = {}
        own = results.get(prop, {})
        detected = bool(own.get("findings")) and own.get("exit") == 1
        meta = dict(
            seed=name,
            property=prop,
            summary=agent.get("summary", ""),
            mechanism=agent.get("mechanism", ""),
            needs_to_manifest=agent.get("needs_to_manifest", ""),
            files_changed=agent.get("files_changed", []),
            confirmed_by=["tools/verify_seed.sh: fresh scratch worktree; patch applies; demo.py exits 0 without and non-zero with the patch; full test suite shows only the 14 baseline failures"],
            what_was_run=["git -C /repo apply seeded/%s/patch.diff" % name] + ["%s -m vcheck %s --tier quick --no-write" % (PY, p) for p in all_props] + ["git -C /repo checkout -- ."],
            detected_by_own_property_check=detected,
            own_check_findings=own.get("findings", []),
            other_checks_reporting={k: v["findings"] or v["analysis_error"] for k, v in results.items() if k != prop},
        )
        json.dump(meta, open(os.path.join(d, "meta.json"), "w"), indent=1)
        summary.append((name, detected, own.get("findings", [])[:2], sorted(k for k in results if k != prop)))
        print("%-8s detected=%s own=%s others=%s" % summary[-1])
    bad = [s for s in summary if not s[1]]
    print("%d seeds, %d detected by their own property's check" % (len(summary), len(summary) - len(bad)))
    return 1 if bad else 0


if __name__ == "__main__":
    sys.exit(main())
