#!/venv/bin/python
"""Two more behaviour-preserving edit fuzzers (companions of rename_fuzz.py):

  pass   insert a `pass` statement at the head of every unpinned function body
  kwarg  positional arguments bound to defaulted parameters of a resolved
         repository function are passed by keyword instead
  cmp    operands of == / != comparisons exchanged (x == K -> K == x)
  swap   swap adjacent independent plain assignments (no calls, subscripts or
         attributes on either side, neither reads the other's target)

Each makes a copy of the package under a temporary directory outside /repo and
/verif, runs every claimed check on it and reports the checks that fire.  Not
part of any registered check.   usage: benign_fuzz.py pass|swap|cmp|kwarg|kwargall [--only C01 ...]
"""
import ast
import json
import os
import shutil
import subprocess
import sys
import tempfile

sys.path.insert(0, os.path.dirname(os.path.abspath(__file__)))
from rename_fuzz import pinned, VERIF, REPO, PY


def edit_pass(src):
    tree = ast.parse(src)
    lines = src.splitlines(True)
    ins = []
    for node in ast.walk(tree):
        if isinstance(node, (ast.FunctionDef, ast.AsyncFunctionDef)) and not pinned(node):
            body = node.body
            first = body[0]
            if isinstance(first, ast.Expr) and isinstance(first.value, ast.Constant) and isinstance(first.value.value, str):
                if len(body) == 1:
                    continue
                first = body[1]
            ln = min([first.lineno] + [d.lineno for d in getattr(first, 'decorator_list', [])])
            ins.append((ln, first.col_offset))
    for ln, col in sorted(set(ins), reverse=True):
        lines.insert(ln - 1, " " * col + "pass\n")
    return "".join(lines), len(set(ins))


def _names(e, ctx):
    return {n.id for n in ast.walk(e) if isinstance(n, ast.Name) and isinstance(n.ctx, ctx)}


def _pure_assign(s):
    return isinstance(s, ast.Assign) and len(s.targets) == 1 and isinstance(s.targets[0], ast.Name) and not any(isinstance(x, (ast.Call, ast.Subscript, ast.Attribute, ast.Yield, ast.Await)) for x in ast.walk(s.value))


def edit_swap(src):
    tree = ast.parse(src)
    lines = src.splitlines(True)
    swaps = []
    for fn in ast.walk(tree):
        if isinstance(fn, ast.FunctionDef) and not pinned(fn):
            for owner in ast.walk(fn):
                for field in ("body", "orelse"):
                    blk = getattr(owner, field, None)
                    if not isinstance(blk, list):
                        continue
                    i = 0
                    while i + 1 < len(blk):
                        a, b = blk[i], blk[i + 1]
                        if _pure_assign(a) and _pure_assign(b) and a.targets[0].id != b.targets[0].id and a.targets[0].id not in _names(b.value, ast.Load) and b.targets[0].id not in _names(a.value, ast.Load) and a.end_lineno + 1 == b.lineno:
                            swaps.append((a.lineno, a.end_lineno, b.lineno, b.end_lineno))
                            i += 2
                        else:
                            i += 1
    for a0, a1, b0, b1 in sorted(set(swaps), reverse=True):
        A = lines[a0 - 1:a1]
        B = lines[b0 - 1:b1]
        lines[a0 - 1:b1] = B + A
    return "".join(lines), len(set(swaps))


def edit_cmp(src):
    """a == b / a != b with a plain name or constant on one side and anything on the other: operands exchanged
    (only single-operator comparisons in unpinned functions, both operands on one line)"""
    tree = ast.parse(src)
    lines = src.splitlines(True)
    edits = []
    for fn in ast.walk(tree):
        if not isinstance(fn, ast.FunctionDef) or pinned(fn):
            continue
        for c in ast.walk(fn):
            if isinstance(c, ast.Compare) and len(c.ops) == 1 and isinstance(c.ops[0], (ast.Eq, ast.NotEq)) and c.lineno == c.end_lineno:
                l, r = c.left, c.comparators[0]
                if isinstance(r, (ast.Constant, ast.Name, ast.Attribute)) and isinstance(l, (ast.Name, ast.Attribute, ast.Subscript, ast.Constant)):
                    edits.append((c.lineno, l.col_offset, l.end_col_offset, r.col_offset, r.end_col_offset))
    n = 0
    done = set()
    for ln, l0, l1, r0, r1 in sorted(set(edits), reverse=True):
        if ln in done:
            continue  # one edit per line keeps offsets valid
        done.add(ln)
        b = lines[ln - 1].encode("utf-8")
        lines[ln - 1] = (b[:l0] + b[r0:r1] + b[l1:r0] + b[l0:l1] + b[r1:]).decode("utf-8")
        n += 1
    return "".join(lines), n


def make_edit_kwarg(all_args=False):
    """positional arguments bound to *defaulted* parameters of a resolved repository function become keyword arguments"""
    sys.path.insert(0, VERIF)
    from vcheck.core import Repo

    repo = Repo(REPO)
    by_rel = dict((m.rel, m) for m in repo.modules.values())

    def edit(src, rel):
        m = by_rel.get(rel)
        if m is None:
            return src, 0
        tree = ast.parse(src)
        lines = src.splitlines(True)
        ins = []
        for fn in ast.walk(tree):
            if not isinstance(fn, ast.FunctionDef) or pinned(fn):
                continue
            for c in ast.walk(fn):
                if not (isinstance(c, ast.Call) and isinstance(c.func, ast.Name)) or any(isinstance(a, ast.Starred) for a in c.args):
                    continue
                tgt = repo.resolve(m.name, c.func.id)
                if tgt is None or getattr(tgt, "kind", None) != "func" or tgt.node is None or tgt.node.args.vararg or tgt.node.args.posonlyargs:
                    continue
                pos = [a.arg for a in tgt.node.args.args]
                first_default = 1 if all_args else len(pos) - len(tgt.node.args.defaults)
                for i, a in enumerate(c.args):
                    if i >= first_default and i < len(pos):
                        ins.append((a.lineno, a.col_offset, pos[i] + "="))
        for ln, col, text in sorted(set(ins), reverse=True):
            l = lines[ln - 1]
            # col_offset is in utf-8 bytes
            b = l.encode("utf-8")
            lines[ln - 1] = (b[:col] + text.encode() + b[col:]).decode("utf-8")
        return "".join(lines), len(set(ins))

    return edit


def main():
    mode = sys.argv[1]
    only = sys.argv[sys.argv.index("--only") + 1:] if "--only" in sys.argv else None
    edit = make_edit_kwarg(mode == "kwargall") if mode.startswith("kwarg") else dict(**{"pass": edit_pass, "swap": edit_swap, "cmp": edit_cmp})[mode]
    tmp = tempfile.mkdtemp(prefix="vcheck-%s-" % mode)
    try:
        shutil.copytree(os.path.join(REPO, "vc2_conformance"), os.path.join(tmp, "vc2_conformance"), ignore=shutil.ignore_patterns("__pycache__"))
        total = 0
        for root, _, files in os.walk(os.path.join(tmp, "vc2_conformance")):
            for f in files:
                if f.endswith(".py"):
                    p = os.path.join(root, f)
                    src = open(p, encoding="utf-8").read()
                    new, c = edit(src, os.path.relpath(p, tmp)) if mode.startswith("kwarg") else edit(src)
                    try:
                        ast.parse(new)
                    except SyntaxError as e:
                        print("skip %s: %s" % (p, e))
                        continue
                    total += c
                    open(p, "w", encoding="utf-8").write(new)
        print("%s: %d edits" % (mode, total))
        man = json.load(open(os.path.join(VERIF, "MANIFEST.json")))
        bad = 0
        for c in man["checks"]:
            pid = c["property_id"]
            if only and pid not in only:
                continue
            p = subprocess.run([PY, "-m", "vcheck", pid, "--tier", "quick", "--no-write", "--repo", tmp], cwd=VERIF, capture_output=True, text=True)
            finds = [l.strip() for l in p.stdout.splitlines() if l.strip().startswith("finding ") or l.startswith("ANALYSIS-ERROR")]
            if p.returncode != 0:
                print("%s exit=%d <-- fired on a behaviour-preserving edit" % (pid, p.returncode))
                for f in finds[:8]:
                    print("    " + f[:260])
            bad += p.returncode != 0
        print("%d check(s) fired on the %s copy" % (bad, mode))
        return 1 if bad else 0
    finally:
        shutil.rmtree(tmp, ignore_errors=True)


if __name__ == "__main__":
    sys.exit(main())
