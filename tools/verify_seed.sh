#!/bin/bash
# usage: verify_seed.sh <source dir with patchN.diff demoN.py metaN.json> <N> <seed name>
# Confirms in a fresh scratch worktree: patch applies, test suite has no new failures,
# demo exits 0 without the patch and non-zero with it. On success stores the seed
# under /verif/seeded/<seed name>/ .
set -u
src=$1; n=$2; name=$3
wt=/tmp/seedcheck-$name
cd /repo && git worktree remove --force $wt 2>/dev/null
git worktree add -q --detach $wt HEAD || exit 2
cd $wt
cp $src/demo$n.py $wt/demo.py
PYTHONPATH=$wt /venv/bin/python demo.py > /tmp/seed-$name-clean.log 2>&1; clean=$?
git apply $src/patch$n.diff || { echo "PATCH DOES NOT APPLY"; cd /repo; git worktree remove --force $wt; exit 1; }
PYTHONPATH=$wt /venv/bin/python demo.py > /tmp/seed-$name-patched.log 2>&1; patched=$?
PYTHONPATH=$wt /venv/bin/python -m pytest -q -p no:cacheprovider --timeout=900 -n 8 --junitxml=/tmp/seed-$name.xml tests > /tmp/seed-$name-tests.log 2>&1
summary=$(tail -1 /tmp/seed-$name-tests.log)
/venv/bin/python - "$name" <<'PY' > /tmp/seed-$name-fails.txt
import sys, xml.etree.ElementTree as ET
t=ET.parse('/tmp/seed-%s.xml'%sys.argv[1])
fails=sorted(tc.get('classname')+'::'+tc.get('name') for tc in t.iter('testcase') if tc.find('failure') is not None or tc.find('error') is not None)
print('\n'.join(fails))
PY
newfails=$(diff <(sort /tmp/baseline_orig.txt) <(sort /tmp/seed-$name-fails.txt) | grep '^>' | wc -l)
echo "seed $name: demo clean=$clean patched=$patched; tests: $summary; new failures: $newfails"
cd /repo; git worktree remove --force $wt
if [ "$clean" = "0" ] && [ "$patched" != "0" ] && [ "$newfails" = "0" ]; then
  mkdir -p /verif/seeded/$name
  cp $src/patch$n.diff /verif/seeded/$name/patch.diff
  cp $src/demo$n.py /verif/seeded/$name/demo.py
  cp $src/meta$n.json /verif/seeded/$name/agent_meta.json
  echo "CONFIRMED"
else
  echo "NOT CONFIRMED"; tail -3 /tmp/seed-$name-patched.log
fi
