#!/venv/bin/python
"""Regenerate vcheck/reference_locals.json: for every top-level function and
method of the package, the names of its purely local variables in order of first
binding, as on the reviewed tree.  The loader uses it to rename locals that a
later edit has renamed back to the names the rules were written against
(alpha-conversion; see core.normalise_locals)."""
import json, os, sys
sys.path.insert(0, os.path.dirname(os.path.dirname(os.path.abspath(__file__))))
from vcheck import core

core.REFERENCE_LOCALS = {}  # load without normalisation
repo = core.Repo("/repo")
out = {}
for name, m in sorted(repo.modules.items()):
    d = {}
    for qual, fn in core.iter_toplevel_functions(m.tree):
        names = core.binding_order(fn)
        if names:
            d[qual] = names
    if d:
        out[m.rel] = d
p = os.path.join(os.path.dirname(os.path.dirname(os.path.abspath(__file__))), "vcheck", "reference_locals.json")
json.dump(out, open(p, "w"), indent=0, sort_keys=True)
print("wrote", p, sum(len(v) for v in out.values()), "functions")
