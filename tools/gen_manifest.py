#!/usr/bin/env python3
"""Regenerate /verif/MANIFEST.json from the table below.

A property appears under `checks` only if vcheck/props/<id>.py exists and
has an entry in CLAIMED; everything else is listed under not_applicable."""
import json
import os

HERE = os.path.dirname(os.path.dirname(os.path.abspath(__file__)))

PY = "/venv/bin/python"

CLAIMED = {
    "C02": dict(
        technique="interprocedural definite-assignment dataflow over the State dictionary (abstract interpretation with inlining), definite assignment of locals, must-pass-through, raise/format/arity table agreement",
        text="Static proof obligations over every path of the validator's non-spec code: no KeyError on state, no unbound local, no zero state divisor, no unvalidated table lookup, only ConformanceErrors raised, every ConformanceError can report. Decides those exception classes on all paths; does not decide termination, IndexError in spec-pinned array code, or resource use.",
        note="Trusted: CPython ast/tokenize; the repository's own spec-equivalence test for pinned lines; axiom A1 (six side conditions re-checked each run); a four-entry exceptions table for profile-correlated reads whose side conditions are checked; the builtin may-raise table.",
        ref="DESIGN.md 4/C02, 3/E5",
    ),
}

CLAIMED["C10"] = dict(
    technique="static non-interference: dominance of reset_state (must-flow), complement-deletion idiom recognition, retained-key classification against the I/O module's store set, effect analysis (writes to module/class/default-argument/function-attribute state) over the call-graph closure of parse_stream, byte-alignment events from StateFlow",
    text="Shows that nothing but the I/O position and the output callback can flow from one sequence to the next: all paths, all histories, for the validator's own code. Does not decide the behaviour of the callback, the file object, or value-level equality of outputs.",
    note="Trusted: name-based call graph (over-approximate); mutation is recognised through the enumerated syntactic forms (subscript/attribute stores, del, 17 mutator method names, global/nonlocal); a positive fixture guards the zero-expected rule.",
    ref="DESIGN.md 4/C10",
)

CLAIMED["C18"] = dict(
    technique="abstract interpretation of NFA.from_ast into a gadget table; per-constructor proof obligations (black-box language equivalence on product automata, interface and terminal invariants); effect extraction of add_transition; must-flow on match_symbol; exact DFA comparison of the extracted construction against an independent reference engine on a pattern corpus",
    text="Decides, for every pattern by induction over its AST, that the Thompson construction the code performs accepts the constructor languages (5 constructors x 3 obligations), provided transitions are directed; decides that property of add_transition; checks the simulation's shape. Reports the implemented-vs-reference language difference with a shortest witness word for corpus and in-repo patterns. Does not decide the recursive-descent parser's precedence or valid_next_symbols.",
    note="Trusted: vcheck.regex (own parser, subset construction, product comparison); CPython set/dict semantics. Known finding K1 (bidirectional epsilon edges) and five listed consequences are reported as KNOWN-FINDING.",
    ref="DESIGN.md 4/C18",
)

CLAIMED["C01"] = dict(
    technique="StateFlow definite-assignment of the structure checks' preconditions; must/may event flow (recording bracket, bookkeeping must-pass-through, dominance of checks); call-graph reachability of a conditional raise site per rule; exact DFA comparison of each level ordering pattern under the extracted automaton construction",
    text="Decides necessary structural conditions of the accept-iff-conformant property on all paths: every structure check has its preconditions, each of the 23 structure rules keeps a reachable conditional raise site, sequence-header recording brackets all reads and is compared, A1 side conditions, bookkeeping updates on every path, and the language each level ordering pattern has under the construction the code performs. Does not decide the arithmetic of the comparisons nor acceptance of particular streams.",
    note="Trusted: vcheck.regex; axiom A1 with machine-checked side conditions; ParseCodes from vc2_data_tables. Known finding K1b (levels 1-7 pattern accepts pictures mixed with fragments).",
    ref="DESIGN.md 4/C01",
)

CLAIMED["C27"] = dict(
    technique="exhaustiveness of the generated class's overrides against the key-inserting methods of the interpreter's dict (introspecting the builtin, not the repo); dominance / must-follow of key validation around every base-class mutation; pickling-protocol shape; name agreement of all 36 declarations",
    text="For any operation sequence: a key can enter the underlying dict only through dict's key-inserting methods; the check shows each is overridden and each override validates, so the only-declared-keys invariant holds for all sequences. Pickling: structural protocol shape and class findability. Does not decide equality of unpickled values.",
    note="Trusted: dir(dict) of /venv/bin/python; CPython routes dict.fromkeys on subclasses through __setitem__ and returns plain dicts from | .",
    ref="DESIGN.md 4/C27",
)

CLAIMED["C28"] = dict(
    technique="exception-escape (may-raise) analysis through the call graph with callable-parameter and functools.partial binding and try/except subtraction; must-flow over the per-column loop body; table agreement between parser tables, fixeddict declarations, set_source_defaults, the validator's zero-rejections and the decoder's quantisation-matrix layout (linear-form normalised)",
    text="For any CSV text: the modelled exception sources (explicit raises, int()/next()/enum construction/dict.pop/csv.reader iteration, resolved callees) can only escape as InvalidCodecFeaturesError; every CodecFeatures entry is stored on all normal paths through declared keys with the parser its declaration demands; fields the validator rejects at zero cannot be parsed as zero. Does not model subscript errors on plain locals or ill-typed values.",
    note="Trusted: the builtin may-raise summary table (vcheck/mayraise.py); vc2_data_tables enum list.",
    ref="DESIGN.md 4/C28",
)

CLAIMED["C06"] = dict(
    technique="sign (non-negativity) dataflow over length arguments against the extracted reader/writer asymmetry; direction-dependence lint of control flow; schema agreement between the description program's folded targets, fixeddict entries, default-value table and nesting table (33 context types)",
    text="Round-trip equality of bytes is behaviour and not decided. Decided for all inputs: no length argument on which reader and writer disagree (negative) can arise; control flow of the one bidirectional description program does not depend on direction; everything the program reads/writes is declared, defaulted with the primitive's type, and nothing declared is left unused.",
    note="Trusted: unsigned serdes reads are non-negative; constant folder for targets. Bit-level inverse-ness of primitives is C20/C21.",
    ref="DESIGN.md 4/C06",
)

CLAIMED["C21"] = dict(
    technique="class-table agreement of the seven primitives across four classes and the two io classes; effect (who-may-write) analysis of the context dictionary; must-flow pairing inside the framework; typestate over the VC-2 description program (sub-context depth, bounded-block alternation, per-instance target reuse vs declare_list with predicate-conditional declarations)",
    text="Round-trip equality for arbitrary programs is behaviour and not decided. Decided on all paths: primitives are exhaustive and paired read_X/write_X with sizes passed through; only four methods write the context, deserialisation cannot overwrite, serialisation reads only via the checked accessor; enter/leave and begin/end are paired in the framework and balanced in the VC-2 program; repeated targets are declared lists; context-type replacement keeps the tree linked.",
    note="Trusted: CPython ast; MRO puts MonitoredMixin first. Value-level inverse-ness of io primitives is C20.",
    ref="DESIGN.md 4/C21",
)

CLAIMED["C11"] = dict(
    technique="structural inversion (mirror) check: operation lists extracted from the spec-pinned synthesis functions and the free analysis functions, lifting-type table inversion by written/read parity and sign, stage-order reversal, level-order reversal with linear-form normalised ranges, positional band wiring",
    text="For every filter pair, depth and picture: exact reconstruction follows if each analysis step is the syntactic inverse of the pinned synthesis step in reverse order; the check decides exactly that structure, including which state key selects the filter for each direction (never separated by the tests). One arithmetic lemma (rounded shift) is trusted. Unrecognised statements in the seven functions are an analysis error, never a silent pass.",
    note="Trusted: synthesis functions equal the standard (pinned by the repository's own test); lemma ((x<<s)+(1<<(s-1)))>>s == x; LiftingFilterTypes values from vc2_data_tables.",
    ref="DESIGN.md 4/C11",
)

CLAIMED["C04"] = dict(
    technique="structural inversion of the encoder pipeline against the spec-pinned decoder pipeline (stage lists, offset removal, DC prediction predictors/sign/scan direction), induced-order comparison of sort keys with the decoder's read order, loop-nest recognition for coefficient order, literal-argument check of the lossless path",
    text="Pixel equality is behaviour and not decided. Decided: every encoder stage is the syntactic inverse of a pinned decoder stage composed in reverse order; DC prediction is undone with the same predictors in the reverse scan exactly for the parse codes the decoder de-predicts; coefficient, orientation, level, component and slice orders equal the decoder's read order; the lossless path is unquantised. With C11 these are the necessary structural conditions of exact reconstruction.",
    note="Trusted: decoder stages equal the standard; quantisation at index 0 being the identity and clip being the identity in range are arithmetic facts not decided here.",
    ref="DESIGN.md 4/C04",
)

CLAIMED["C19"] = dict(
    technique="must/may event flow over the search loop body (which successor families are enqueued before an iteration ends), FIFO-discipline effect check of the work list, guard extraction of the only return, copy-before-advance check, depth bookkeeping; dataflow of the encoder's pattern arguments to the validator's literal and table cell",
    text="A breadth-first search is shortest and complete iff the queue is FIFO and every dequeued node enqueues all its successors; it is sound iff it returns only on a complete match with copied matchers. The check decides those structural conditions on all paths of the loop body. Known finding K2: the consume branch ends the iteration, so the search is greedy.",
    note="Trusted: deque FIFO semantics; the matcher is C18's subject; candidate-set computation is not decided.",
    ref="DESIGN.md 4/C19",
)

CLAIMED["C15"] = dict(
    technique="table agreement across four sibling places: encoder option tables (partial keyword arguments), vc2_data_tables namedtuple field order (from its source), the decoder's preset_* assignments, bitstream fixeddict entries and the serdes description program; level keys compared with the validator's assert_level_constraint calls per syntax function; structure of the yielded dictionaries",
    text="Decoded-equals-requested is behaviour. Decided for all ten option tables and the colour-spec generator: preset tuples are matched against the values the decoder would load from them (a numerator/denominator swap in any of the three places is a violation), every key names a declared entry of the right dictionary, each dictionary is the one whose flag the description program reads, level keys equal the validator's for that field, and emitted dictionaries copy the requested values.",
    note="Trusted: vc2_data_tables source; serdes model. Value-level equality is not decided.",
    ref="DESIGN.md 4/C15",
)
CLAIMED["C16"] = dict(
    technique="key-coverage set comparison between all 57 validator level-constraint sites (= CSV rows) and the keys the encoder consults; dominance of membership tests over each yielded option dictionary; order of table filtering",
    text="Acceptance under arbitrary level tables is behaviour. Decided: which validator-enforced keys the encoder never consults (each is a table under which the encoder succeeds and the validator rejects), that every emitted header option is dominated by membership tests of the values it carries, and that the table is filtered by the known values before columns are tried. Known finding K3: eight keys are never consulted (four demonstrated).",
    note="Trusted: CSV row names. Arithmetic value selection (slice sizes, qindex) is not tracked beyond key coverage.",
    ref="DESIGN.md 4/C16",
)

CLAIMED["C07"] = dict(
    technique="dominance of an is-AUTO/absent test over every store and deletion in the autofill routines (guard extraction with flag provenance); coverage of AUTO defaults by filling routines; must-flow call order in autofill_and_serialise_stream; set/condition agreement of version-implication rules with the validator; structural recognition of the picture-number and parse-offset rules (linear-form normalised)",
    text="Decided on all paths: no explicitly supplied value can be overwritten or deleted; every AUTO default has a filler and the pipeline runs them in the required order; the version rules consulted equal the validator's under the same field conditions; the picture-number rule (mask, restart, first-fragment increment, counter follows explicit numbers) and the offset rule (0 at sequence boundaries, distances between recorded offsets, patched field positions) have the required shape. Does not decide offset arithmetic or default contents.",
    note="Trusted: the serialiser records _offset per parse_info (C06.c).",
    ref="DESIGN.md 4/C07",
)

CLAIMED["C20"] = dict(
    technique="dominance (must-flow) of OutOfRangeError guards over the first emitted bit; clone comparison (string-insensitive AST equality) of the bounded-block bookkeeping duplicated in reader and writer; loop-shape recognition of bit order; syntax-directed count of emitted bits against the closed-form length functions",
    text="Value-level inverse-ness of exp-Golomb coding is arithmetic and not decided. Decided: no bit can be emitted before a value is range-checked; the bounded-block bookkeeping is the same program on both sides with the required past-the-end arms (read 1 / accept only 1); fixed-width integers are MSB-first on both sides; signed codes emit/read the sign under the same condition; the length functions equal the number of write_bit calls of the writer's loops.",
    note="Trusted: int.bit_length. Several shape rules are bound to the current idioms of bitstream/io.py; the validator's reader is spec-pinned and not compared value-for-value.",
    ref="DESIGN.md 4/C20",
)

CLAIMED["C26"] = dict(
    technique="table agreement between the formatter declared for each of 87 bitstream value targets and the Python type of the serdes primitive that reads it (acceptance table derived from the formatters' __call__ bodies); declared-entry check; handler-order and status-source checks on BitstreamViewer.run",
    text="Never-255 for arbitrary byte strings is behaviour. Decided: the two ways the viewer's own monitor code can throw on any input -- a formatter given a value type it cannot format, or a target missing from entry_objs -- cannot occur for any target of the description program; the termination/EOF handlers precede the generic one; 255 has a single source guarded by is_internal_error. Non-default display options are not analysed.",
    note="Trusted: formatter acceptance table; serdes model of bitstream/vc2.py.",
    ref="DESIGN.md 4/C26",
)

CLAIMED["C25"] = dict(
    technique="must/may event flow over BitstreamValidator.run (status returned at each exit and what dominates it), handler-order check, exception-translation check around the creation of picture files beneath the generic handler (model of what open() may raise for a user-chosen name), def-use wiring of the output callback, its file counter and file_format.write's parameters",
    text="Printed text and written bytes are behaviour. Decided on all paths: 0 is returned only after parse_stream returned normally, 2 only by the ConformanceError handler after the located report (explain + offending offset or current position) was printed, 3 only by the generic handler, which is last; errors creating picture files are translated to a handled error with its own status; the callback is the one wired into State, numbers files from 0 in call order and passes its arguments to file_format.write by role; write produces one .json + one .raw. Status 3 from the decoder's own code is C02's claim.",
    note="One recorded finding (K4: NUL in the formatted --output name); one repaired defect (D6, OSError from picture files reported as internal error). Trusted: model of open()'s exceptions.",
    ref="DESIGN.md 4/C25",
)

CLAIMED["C17"] = dict(
    technique="override/guard discipline check between ValueSet and AnyValue (field reads on self need an override, on another operand a dominating not-AnyValue test); definitional-agreement check of filter_constraint_table / is_allowed_combination / allowed_values_for; must-store analysis of assert_level_constraint; cell-dispatch and indexing shape of read_constraints_from_csv",
    text="Set algebra over runtime values and random tables is behaviour and is not decided. Decided: the wildcard never exposes fields it lacks; membership/union/range-merge have the inclusive, both-operand, overlap-merging shape; the three table queries are defined through one another so that incremental and whole-dictionary checks agree; the validator records every accepted value in the dictionary the next query is filtered by; ditto/any/value/range cells are dispatched and indexed per row and column as documented.",
    note="Thin. Not decided: arithmetic of merging on concrete values; negative integers (not expressible in the CSV format).",
    ref="DESIGN.md 4/C17",
)

CLAIMED["C24"] = dict(
    technique="who-may-call rule over the generator's module closure for run-varying sources (clocks, ids, unseeded random generators, directory listings, hash/id); light set-type inference flagging order-sensitive iteration over hash-ordered sets (closed triage table); hidden-state analysis (module-level containers mutated by functions, memoising decorators, mutated defaults, function attributes, shared class containers); dataflow of output paths to the unit's directory and test-case name; registration/name-distinctness and picklability checks of the units of work",
    text="Byte equality of output trees across runs, orders and concurrent interleavings is behaviour and is not decided. Decided necessary conditions: nothing on the closure reads a source that differs between runs/processes/hash seeds; no function keeps state between calls (so a fresh worker computes what the serial run computes); every created file is named from the unit's own directory and the test case's name, names are distinct per registry, shared directories are created with exist_ok; serial and parallel iterate the same list of picklable module-level units.",
    note="Trusted: table of run-varying library calls; local set-type inference. Four set iterations triaged as error-message-only or int-element sets.",
    ref="DESIGN.md 4/C24",
)

CLAIMED["C03"] = dict(
    technique="shape checks on encoder/sequence.py and the data-unit builders of encoder/pictures.py: per-picture units in input order and FIFO hand-out (def-use), profile -> parse-code table agreement with vc2_data_tables.PROFILES, picture-number provenance and who-may-write, counting argument over the fragment loop (every slice once, raster order, new fragment exactly when full, offsets of first slice); re-evaluation of the shared clauses C19.e, C07.c, C15.e",
    text="Acceptance by the validator and equality of decoded pictures for all configurations are behaviour and are not decided. Decided: one picture's data units per input picture, in order, handed out where the ordering search placed picture symbols; parse codes follow the profile and fragment setting as the data tables allow; picture/fragment headers carry the input's pic_num and nothing else writes it; fragments carry every slice exactly once with the offsets of their first slice; patterns, version rules and level-filtered headers as in C19.e/C07.c/C15.e. Header contents are C15's claim, level values C16's, pixel exactness C04/C11's.",
    note="Thin. Trusted: vc2_data_tables PROFILES parsed from the installed package source.",
    ref="DESIGN.md 4/C03, 10",
)

CLAIMED["C05"] = dict(
    technique="field-effect (who-may-write) analysis: transitive store sets, through helpers, of the nine decoder test case generators that vary only the encoding, compared with the closed set of content-determining bitstream fields; provenance checks of the three sanctioned content stores; source-sequence construction check; name distinctness (generators, literal sub-case names)",
    text="Validator acceptance and equality of decoded pictures per test case are behaviour and are not decided. Decided necessary condition for 'decodes to the pictures of the plain encoding': an encoding-only generator stores into no content field except (i) whole sequence headers obtained from iter_sequence_headers(codec_features) and (ii) wavelet_index_ho/dwt_depth_ho set to the configured values together with their flags; each builds its source with make_sequence(codec_features, <picture generator>); generator and literal sub-case names are distinct.",
    note="Trusted: list of content fields. Not decided: slice length / padding arithmetic inside the slice-level generators; mid-grey and picture-number clauses.",
    ref="DESIGN.md 4/C05, 10",
)

CLAIMED["C08"] = dict(
    technique="closed classification of every not-in-spec statement of the description program bitstream/vc2.py (bookkeeping without reads; loop headers with hoisted pseudocode bounds; enum-robustness substitutions matched to the validator's assert_in_enum; byte-count substitution compared as a linear form with the commented-out pseudocode; slice-length clamp matched to the validator's raise) and comparison of BitstreamReader's bounded-block discipline with pinned read_bitb / flush_inputb",
    text="Equality of everything the two parsers read, for all accepted streams, is behaviour. Both are pinned line by line to the standard's pseudocode by the repository's own test; what is decided here is that each of the deserialiser's 38 non-spec statements is either free of stream reads or the identity on streams the validator accepts, that padding/auxiliary byte counts equal the pseudocode's trip count, and that the bounded-block reader consumes exactly n bits and then yields 1s, handing back max(0, remaining). Dequantisation/DC prediction of deserialised coefficients is test tooling and not decided.",
    note="Thin. Trusted: pinned lines equal the standard (tests/verification); linear-form normaliser.",
    ref="DESIGN.md 4/C08, 10",
)

CLAIMED["C13"] = dict(
    technique="linear-form check of the shift exponents of the unpinned subband_width/subband_height formulas (dyadic pyramid, shared with C09.e); operand-pairing check of the slices_have_same_dimensions predicate (axis, level, component kinds); pinned-ness check of the slice bound functions and slice_bytes; hidden-state and bug-pattern rules",
    text="The partition and floor-sum identities are integer arithmetic over all sizes and are not decided; slice_left/right/top/bottom and slice_bytes are pinned to the standard's pseudocode by the repository's own test (re-confirmed each run). Decided for the unpinned code: the subband dimension formulas have the dyadic shape of the padded picture, and 'all slices have the same dimensions' is the conjunction of the four divisibility tests of the DC band of luma and colour difference, width by slices_x and height by slices_y, and is the one predicate shared by the validator's level check and the encoder.",
    note="Thin. Trusted: the repository's equivalence test for pinned functions.",
    ref="DESIGN.md 10.9",
)

CLAIMED["C14"] = dict(
    technique="shape check of the first-fit search quantize_to_fit (ascending enumeration from the minimum, single exit at the first fit, measured sets = returned sets), def-use of its result into the slice constructors, pattern-matched agreement of the per-slice budget expressions with the pinned decoder's slice size expressions, rounding direction of length fields and the remainder rule of the last high-quality length",
    text="That a given index is the smallest that fits, and byte totals, are arithmetic on runtime coefficients and are not decided. Decided necessary conditions: the search visits qindex = minimum, minimum+1, ... and returns at the first whose aligned total is <= the target, measuring the sets it returns (so the returned index is the smallest not below the minimum that fits); that index and those coefficients are what the slice stores; coefficients are quantised with max(0, qindex - matrix) as the decoder dequantises; HQ targets are 8*scaler*slice_bytes with ceil-rounded lengths and the last length taking the remainder (fields sum to the budget), the scaler is at least ceil((largest slice - 4)/255); LD targets are the decoder's bits left after the 7-bit qindex and the intlog2 length field; trailing zeros cost no bits.",
    note="Thin. Trusted: pinned decoder expressions. Termination of the search is not decided.",
    ref="DESIGN.md 10.9",
)

CLAIMED["C23"] = dict(
    technique="mirror check between write_picture and read_picture (component iteration and geometry source, per-byte weights, loop coverage, exact-integer arrays); written-keys = read-keys agreement for the JSON metadata; enum re-typing table against the VideoParameters schema; must-dominance of the metadata comparisons and identity report over status 0 in compare_pictures; hidden-state and bug-pattern rules",
    text="Equality of values after a write/read cycle and the reported pixel counts are arithmetic on runtime arrays and are not decided. Decided: reader and writer take component order and (height, width, bytes per sample) from the same function; byte k of a sample has weight 256^k on both sides and every byte is visited; exact Python integers are used; the JSON keys written are the keys read, the picture number travels as a string, every enumeration-typed video parameter is re-typed with the schema's enumeration; the comparison tool returns 0 only after video parameters, coding mode and picture number compared equal and every component's difference is zero, each mismatch kind has its own status, and main() propagates it.",
    note="Thin. Trusted: VideoParameters schema; numpy object-dtype arithmetic.",
    ref="DESIGN.md 10.9",
)

CLAIMED["C12"] = dict(
    technique="path-wise closed-form extraction of the repository's own forward_quant (straight-line locals inlined, path conditions classified as sign tests of the coefficient, each returned value compared with (4*|coeff|)//quant_factor(index) or its outer negation); pinned-ness check of inverse_quant / quant_factor / quant_offset; def-use check of the lossless_quantization test case's index (unfiltered maximum of the matrix plus a reviewed minimum, stored unconditionally in every slice); hidden-state and bug-pattern rules",
    text="Every numeric clause - the one-step reconstruction bound, losslessness of index 0, strict monotonicity of quant_factor and of inverse_quant(1, q) - is integer arithmetic of pinned pseudocode over unbounded values and is NOT decided; static analysis in reach cannot decide it and no claim is made for it. Decided are the necessary conditions visible in code the repository's pseudocode-equivalence test does not cover: forward_quant rounds towards zero (floor division applied to the magnitude, negation applied outside) with the factor of the same index the dequantiser multiplies by, and is odd-symmetric, which both the sign clause and the strict bound need; the three spec functions are still pinned; the lossless test case's index lies at least MINIMUM_DISTINCT_QINDEX (>= 6, the reviewed start of the strictly increasing run) above every matrix entry in every slice.",
    note="Very thin: the numeric content of the property is not decided. Trusted: the repository's equivalence test for pinned functions; the hand-reviewed table inverse_quant(1, q) = 1, 2, 2, 3, 3, 4, 4, 5, 6, ...",
    ref="DESIGN.md 10.9",
)

CLAIMED["C22"] = dict(
    technique="counting argument over the frame-to-picture dispatch table of progressive_to_pictures and the yield structure of every generator (pattern-matched field transforms, second yield under the interlaced-source test, doubled counts under the fields test, enumerate-from-0 numbering, decorator order); provenance of every emitted component to the clip whose bound is 2**intlog2(excursion+1)-1 of that component's own excursion, and of mid_gray / white_noise shapes and ranges to the component's own entry of compute_dimensions_and_depths",
    text="Component sizes of the float pipelines (sprite placement, subsampling) and the numeric effect of numpy operations are runtime quantities and are not decided. Decided: pictures are numbered 0, 1, ... in generation order; in each of the four sampling/coding combinations the number of pictures per source frame is what the dispatch table says and every generator doubles its frames exactly when that would otherwise leave an odd field (so field counts are even and pairing drops nothing); every generator yields at least once; the last operation on each component from_xyz returns is the clip to [0, 2**depth-1] with depth = intlog2(excursion+1) of that component kind, applied to a rounded integer array; mid_gray and white_noise take each component's shape and range from that component's own dimensions/depth.",
    note="Thin. Trusted: numpy semantics of round/astype/clip/randint/full; callers pass positive frame counts.",
    ref="DESIGN.md 10.9",
)

CLAIMED["C09"] = dict(
    technique="must/may event flow over picture_decode (ordering of inverse transform, clip, offset before the output callback; single invocation; argument wiring) and call-site placement of picture_decode in parse_sequence; completion-flag provenance",
    text="Sample ranges and dimensions come from spec-pinned arithmetic and are not decided. Decided on all paths: what reaches the output callback has been transformed, clipped and offset in that order; the callback runs at most once per decoded picture with the right arguments; the picture number is the coded one; a picture is decoded exactly once per picture data unit and once per completed fragmented picture.",
    note="Thin: everything else in the property is pinned pseudocode. Trusted: pinned lines equal the standard.",
    ref="DESIGN.md 4/C09",
)

NOT_APPLICABLE = {
    "C12": "arithmetic over unbounded integers (quantisation error bounds, monotonicity of a rational formula): the quantisation functions are pinned line by line to the standard and every clause of the property is a numeric inequality over all coefficient values and quantisation indices; no clause is visible in the shape of the code, so no necessary structural condition can be named; needs algebra/solver or execution; pinned-pseudocode-only rule for the quantisation functions",
}

PENDING = "designed (DESIGN.md section 4); checker not built yet in this tree"


# additions made after the seeded rounds (appended to the technique text)
EXTRA = {
    "C23": "; closed forms of the bytes-per-sample rounding",
    "C12": "; sign-set lattice over path conditions",
    "C22": "; every yielding loop yields on every iteration (no early exit); blit-axes provenance (rows by heights, columns by widths); range provenance of generated samples; one arm per sampling format in from_444 with the halved shapes; hidden-state analysis of the generators' modules; sizes handed to resize() never floor quotients without a clamp (reaching-definition kill analysis)",
    "C14": "; argument-binding chain of minimum_qindex / minimum_slice_size_scaler from make_sequence to the search; hidden-state and bug-pattern rules; field-width guard (width read from the description program) between the search and the slice constructors; every definition of the slice size scaler is max(safe, override); exactness of the bounded-block bit count (trailing 1 bits of the last code)",
    "C01": "; control-dependence signature of every structure check against an applicability table, and the set of state keys/calls each check's own condition reads against a reviewed table; bug-pattern rules; coordinate-wise shape of the fragment contiguity predicate; partial-byte mask of the header recording; must-follow of log_version_lower_bound after every version test; cross-table satisfiability of every level (level_constraints.csv against the literal results of version_constraints.py)",
    "C02": "; set-valued interprocedural provenance analysis of every table/enum lookup key (locals, parameters, map(), state keys by store-pairing, exception attributes through direct and dynamic raises) against the data tables' key sets; freshness of per-picture allocators; cross-table check that every option a viewer hint spells is registered by the viewer's argument parser; interpreter digit-limit rule",
    "C03": "; scratch State(...) key/source agreement; bug-pattern rules (swapped same-named arguments, stale lower-bound guard, presence by truthiness); every rule of C07 and C15 re-evaluated; shared quantisation-matrix key rule; validator-rejection/encoder-rejection counterpart rule for frame sizes; guard between the unbounded index search and the slice constructors; C14.h and C20.g re-evaluated through C07/C15",
    "C04": "; C11 re-evaluated; ceil-division bound of the lossless slice-size scaler against the length field width; row-distinct copy handed to the in-place encoder; bug-pattern rules; hidden-state analysis of the encoder and transform modules; identity-copy shape of the samples handed to the in-place encoder; one coefficient array per component; every subband gathered into its slice unconditionally",
    "C05": "; bug-pattern rules over the generators' slice-level arithmetic; shared quantisation-matrix key rule; aliasing lint (one fresh mutable object stored by a loop into many containers); dominating-guard rule for differences stored into length fields; last-iteration-leak lint; minimum-over-all-slices shape of the prefix size; closed-form bound of every value stored into a fixed-width slice field (qindex, length bytes); C15.a-d/g and C24.d (decoder model answers) re-evaluated",
    "C06": "; hidden-state analysis and bug-pattern rules over the description program, serdes framework and bit I/O; C20.b/c/d/g and C21.a re-evaluated (bit-level and primitive-level agreement); C20.e re-evaluated (file and position fields touched by the bit-level primitives only)",
    "C07": "; per-sequence definite assignment of every local rebound in the loop over sequences; hidden-state and bug-pattern rules; closed set of defaults for every field read (documented-defaults rule); currency of the flag that licenses deletions; guard-term classification of every version-implication call; validator-side must-follow of the version log; negative-polarity guards counted as extra terms; C20.g re-evaluated",
    "C08": "; hidden-state analysis and bug-pattern rules; shared quantisation-matrix key rule over all uses of the table; per-picture state snapshot rule; closed classification of the validator's own not-in-spec statements; C09.f re-evaluated",
    "C09": "; dyadic-pyramid shape of the unpinned subband_width/height formulas as linear forms of the shift exponents; exact-integer-arithmetic scan of the decoder's reach; read-set and exit count of the unpinned dimension functions; shape of the padding-removal helpers; closed set of not-in-spec statements in pinned pseudocode functions; optional-entry truthiness lint over the bit reader; deletion shape of per-picture state",
    "C10": "; who-may-ask-the-stream-position rule; aliasing (FRESH facts) of per-sequence state; bug-pattern rules; hidden-state analysis of the decoder incl. side storage in caller-owned objects (__dict__, setattr); positions obtained from tell() never compared with a constant",
    "C11": "; unconditional padding; helper-inlined filter index comparison; hidden-state and bug-pattern rules; C09.g re-evaluated (padding removal cuts in the matching dimension)",
    "C15": "; per-candidate level filtering (shared with C16.c); bug-pattern rules; pattern-matched guards of the hand-written colour-specification generator against the ColorSpecificiation field list; agreement of each validator assert_in_enum enumeration with the enumeration the bitstream description declares for the field read; aliasing lint for objects shared between yielded headers; every rule of C07 re-evaluated; C10.b/c (state reset) re-evaluated",
    "C16": "; hidden-state analysis of the encoder's level decisions; bug-pattern rules; guard classification of every known-value store (profile tests only); literal level-keyed values in every yielded option dominated by membership tests; C03.a re-evaluated; known value equals emitted value for every level-constrained key; guard classification of the empty-entry widening in decide_extended_transform_flag",
    "C17": "; freshness of the union result; bug-pattern rules; hidden-state analysis of the table module; closed forms of the AnyValue arm of is_disjoint; no early exit in the CSV column loop; unrecognised disjuncts of the catch-all arm counted",
    "C18": "; ownership of Matcher state and freshness of query results; unconditional symbol and wildcard steps; (thorough) exhaustive comparison of the composed gadgets with the reference on all 45 000 pattern trees up to 8 nodes; closed forms of is_complete; hidden-state analysis of the pattern module; construction shape of every operator in the pattern parser",
    "C19": "; closed list of pruning conditions; fresh matcher per pattern in the root node; hidden-state and bug-pattern rules; truth-table evaluation of the candidate-combination if-chain over the two wildcard tests; C18.c re-evaluated; additions to the candidate set dominated by the wildcard test; no return before the search; documented default insertion limit equals the coded one",
    "C20": "; ownership of the file and position fields by the bit-level primitives; bug-pattern rules; statement order of flush/seek/reset in the writer; unbounded exp-Golomb read loop; writer start offset from the file position; non-positive block-length exhaustion test of the readers; validator reader's tell() takes the file's own position",
    "C21": "; used-mark precedes the fallible lookup; bug-pattern rules; unconditional context and stream access in every primitive of both sides; default-value fallback returns a subscript by the target or re-raises",
    "C24": "; parameter-mutation analysis of every generator through all callees; C27.c re-evaluated; output directory and makedirs atomicity rules; every write under the output directory dominated by its makedirs",
    "C25": "; hidden-state analysis of picture output; divisor classification; file naming via os.path.splitext; C23.a-c re-evaluated; interpreter digit-limit rule; bug-pattern lints incl. split unpacking; C02.6 re-evaluated for the validator's explain path; output patterns naming pictures 0 and 1 alike refused before decoding",
    "C26": "; totality of every container access in the monitor's closure; bug-pattern rules; totality analysis of every Entry formatter in the package; C20.b/g re-evaluated; interpreter digit-limit rule",
    "C27": "; validate-before-mutate for mutators of existing objects; bug-pattern rules",
    "C28": "; grow-before-index rule of the table reader; bug-pattern rules; default-only-where-supplied guard of the cell parser helper",
}


def main():
    props = [json.loads(l) for l in open(os.path.join(HERE, "properties.jsonl"))]
    checks = []
    na = []
    for p in props:
        pid = p["id"]
        have = os.path.exists(os.path.join(HERE, "vcheck", "props", pid.lower() + ".py"))
        if pid in CLAIMED and have:
            c = CLAIMED[pid]
            checks.append(
                dict(
                    property_id=pid,
                    quick_cmd="%s -m vcheck %s --tier quick" % (PY, pid),
                    thorough_cmd="%s -m vcheck %s --tier thorough" % (PY, pid),
                    evidence_file="evidence/%s.json" % pid,
                    replay_cmd_template="%s -m vcheck --replay {path}" % PY,
                    engine="vcheck",
                    level_claimed=dict(category="other", text=c["text"], design_ref=c["ref"]),
                    level_note=c["note"],
                    technique=c["technique"] + EXTRA.get(pid, ""),
                )
            )
        else:
            na.append(dict(property_id=pid, reason=NOT_APPLICABLE.get(pid, PENDING)))
    m = dict(
        version=1,
        setup_cmd="true",
        hooks=dict(
            guard="BBC_VC2_CONFORMANCE_VERIF",
            enable="none needed: static analysis reads /repo's working tree; no hook commits exist",
            baseline_off_cmd="cd /repo && /venv/bin/python -m pytest -ra -q -p no:cacheprovider --timeout=900 --continue-on-collection-errors",
            source_commits=[],
            add_only=True,
        ),
        engines=[
            dict(
                name="vcheck",
                path="vcheck/",
                serves_properties=[c["property_id"] for c in checks],
                kind_free_text="repository-specific static analysis in pure-stdlib Python (ast/tokenize/csv): loader+symbol resolution, pinned-region map, call graph, StateFlow abstract interpretation, must/may event flow, definite assignment, reference regex engine, table extractors",
            )
        ],
        checks=checks,
        notes="All checks are static: they parse /repo's working tree on every run and never import or execute it. Before analysis the loader drops effect-free statements and alpha-renames locals that differ from the reviewed tree back to their reference names (vcheck/reference_locals.json), so that behaviour-preserving renames do not fire rules. Exit 0 pass / 1 VIOLATION / 2 ANALYSIS-ERROR. Known findings: known_findings.json. thorough = quick rules + seeded-variant self-test of the checker (+ exhaustive gadget composition for C18).",
        not_applicable=na,
    )
    with open(os.path.join(HERE, "MANIFEST.json"), "w") as f:
        json.dump(m, f, indent=1)
    print("claimed:", [c["property_id"] for c in checks])
    print("n/a:", [x["property_id"] for x in na])


if __name__ == "__main__":
    main()
