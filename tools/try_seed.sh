#!/bin/bash
# usage: try_seed.sh <seed name> <PID> [PID ...]   -- run checks against a scratch copy of /repo with the seed applied
# (scratch copy under a mktemp dir outside /repo and /verif, removed afterwards; /repo is not touched)
name=$1; shift
d=$(mktemp -d /tmp/tryseed-XXXXXX)
git -C /repo archive HEAD vc2_conformance | tar -x -C $d
(cd $d && patch -s -p1 < $( [ -f "$name" ] && echo "$name" || echo /verif/seeded/$name/patch.diff )) || { echo "patch failed"; rm -rf $d; exit 2; }
for pid in "$@"; do
  (cd /verif && /venv/bin/python -m vcheck $pid --tier quick --no-write --repo $d | grep -E "^  finding|=>|ANALYSIS" | cut -c1-${COLS:-400})
done
rm -rf $d
