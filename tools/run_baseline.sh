#!/bin/sh
# usage: run_baseline.sh <label>   -> /tmp/baseline_<label>.txt (sorted failing test ids) and summary
label=${1:-run}
cd /repo && /venv/bin/python -m pytest -q -p no:cacheprovider --timeout=900 --continue-on-collection-errors -x --co -q >/dev/null 2>&1
cd /repo && /venv/bin/python -m pytest -q -p no:cacheprovider --timeout=900 --continue-on-collection-errors -n 8 --junitxml=/tmp/baseline_$label.xml > /tmp/baseline_$label.log 2>&1
tail -3 /tmp/baseline_$label.log
/venv/bin/python - "$label" <<'PY'
import sys, xml.etree.ElementTree as ET
label=sys.argv[1]
t=ET.parse('/tmp/baseline_%s.xml'%label)
fails=[]; n=0
for tc in t.iter('testcase'):
    n+=1
    if tc.find('failure') is not None or tc.find('error') is not None:
        fails.append(tc.get('classname')+'::'+tc.get('name'))
open('/tmp/baseline_%s.txt'%label,'w').write('\n'.join(sorted(fails))+'\n')
print(n,'tests',len(fails),'failing')
PY
