"""Side conditions of axiom A1 ("the first data unit of a sequence is a sequence
header and the last is an end-of-sequence"), re-checked on every run.

 (i)   the literal pattern of the generic Matcher built in parse_sequence has
       first-set {sequence_header}, is not nullable, and every accepted word
       ends in end_of_sequence                     (E7 on the literal)
 (ii)  every normal path through parse_info passes
       assert_parse_code_in_sequence(state["parse_code"],
                                     state["_generic_sequence_matcher"], ...)
       after the store of state["parse_code"]      (must-pass-through)
 (iii) that helper raises on every path where matcher.match_symbol(...) was
       false, and matches ParseCodes(parse_code).name
 (iv)  parse_sequence calls assert_parse_code_sequence_ended on the generic
       matcher on every path to a normal exit, and that helper raises whenever
       matcher.is_complete() is false
 (v)   is_seq_header / is_end_of_sequence compare state["parse_code"] with the
       ParseCodes values named sequence_header / end_of_sequence
 (vi)  parse_sequence calls parse_info before the loop and as the last
       statement of the loop body; the generic matcher is created after
       reset_state and before the first parse_info
"""
import ast

from .core import AnalysisError, const_str, dotted, norm, subscript_key
from .mustflow import MustFlow, FS
from . import regex

SEQ_MOD = {"decoder": "decoder.stream", "serdes": "bitstream.vc2"}


def _is_state_sub(node, key):
    return subscript_key(node, "state") == key


def generic_pattern(repo, flavour="decoder"):
    m, fn = repo.func(SEQ_MOD[flavour] + ":parse_sequence")
    for n in ast.walk(fn):
        if isinstance(n, ast.Assign) and any(_is_state_sub(t, "_generic_sequence_matcher") for t in n.targets):
            v = n.value
            if isinstance(v, ast.Call) and dotted(v.func) == "Matcher" and v.args and const_str(v.args[0]) is not None:
                return m, fn, n, const_str(v.args[0])
            return m, fn, n, None
    return m, fn, None, None


def check(repo, flavour="decoder"):
    """returns list of (cond id, ok, where, detail)"""
    out = []
    modspec = SEQ_MOD[flavour]
    pc = repo.ext.enums.get("ParseCodes", {})
    m, seq, store, pattern = generic_pattern(repo, flavour)
    where = "%s:parse_sequence" % m.rel
    if flavour != "decoder":
        # the serdes flavour has no matcher of its own: A1 is not available there
        return [("A1.i", False, where, "no generic matcher in this flavour")]
    # (i)
    if pattern is None:
        out.append(("A1.i", False, where, "no store of state['_generic_sequence_matcher'] = Matcher(<literal>)"))
    else:
        try:
            d = regex.language(pattern)
            fs = regex.first_set(d)
            ls = regex.last_symbols(d)
            ok = fs == {"sequence_header"} and not regex.nullable(d) and ls == {"end_of_sequence"}
            out.append(
                (
                    "A1.i",
                    ok,
                    where,
                    "pattern %r: first-set %s, nullable %s, last symbols %s"
                    % (pattern, sorted(fs), regex.nullable(d), sorted(ls)),
                )
            )
        except ValueError as e:
            out.append(("A1.i", False, where, "pattern %r does not parse: %s" % (pattern, e)))

    # (ii)
    pm, pinfo = repo.func(modspec + ":parse_info")

    def on_pi(node, st):
        if isinstance(node, ast.Assign):
            if any(_is_state_sub(t, "parse_code") for t in node.targets):
                return st.drop("generic_match").add("pc_stored")
            return st
        if dotted(node.func) == "assert_parse_code_in_sequence" and len(node.args) >= 3:
            if (
                _is_state_sub(node.args[0], "parse_code")
                and _is_state_sub(node.args[1], "_generic_sequence_matcher")
                and "pc_stored" in st.must
            ):
                return st.add("generic_match")
        return st

    mf = MustFlow(pinfo, on_pi, node_types=(ast.Call, ast.Assign)).run()
    ex = mf.normal_exit_state()
    ok = ex is not None and "generic_match" in ex.must
    out.append(("A1.ii", ok, "%s:parse_info" % pm.rel, "generic-matcher assertion on every normal path after the parse_code store"))

    # (iii)
    am, helper = repo.func("decoder.assertions:assert_parse_code_in_sequence")
    ok3, det3 = _raises_when_false(helper, "match_symbol")
    # the symbol matched is ParseCodes(parse_code).name
    names_ok = False
    for n in ast.walk(helper):
        if isinstance(n, ast.Call) and isinstance(n.func, ast.Attribute) and n.func.attr == "match_symbol" and n.args:
            a = n.args[0]
            if isinstance(a, ast.Attribute) and a.attr == "name" and isinstance(a.value, ast.Name):
                # the name must be bound from ParseCodes(<param 0>)
                var = a.value.id
                p0 = helper.args.args[0].arg
                for s in helper.body:
                    if (
                        isinstance(s, ast.Assign)
                        and isinstance(s.targets[0], ast.Name)
                        and s.targets[0].id == var
                        and isinstance(s.value, ast.Call)
                        and dotted(s.value.func) == "ParseCodes"
                        and isinstance(s.value.args[0], ast.Name)
                        and s.value.args[0].id in (p0, var)
                    ):
                        names_ok = True
    out.append(("A1.iii", ok3 and names_ok, "%s:assert_parse_code_in_sequence" % am.rel, det3 + ("; symbol is ParseCodes(parse_code).name" if names_ok else "; symbol passed to match_symbol is not ParseCodes(parse_code).name")))

    # (iv)
    def on_seq(node, st):
        if dotted(node.func) == "assert_parse_code_sequence_ended" and node.args and _is_state_sub(node.args[0], "_generic_sequence_matcher"):
            return st.add("ended")
        return st

    mf = MustFlow(seq, on_seq).run()
    ex = mf.normal_exit_state()
    em, ended = repo.func("decoder.assertions:assert_parse_code_sequence_ended")
    ok4b, det4 = _raises_when_false(ended, "is_complete")
    out.append(("A1.iv", ex is not None and "ended" in ex.must and ok4b, where, "assert_parse_code_sequence_ended(generic matcher) on every normal exit; helper: " + det4))

    # (v)
    ok5 = True
    dets = []
    for fname, member in (("is_seq_header", "sequence_header"), ("is_end_of_sequence", "end_of_sequence")):
        fm, f = repo.func("pseudocode.parse_code_functions:" + fname)
        body = [s for s in f.body if not (isinstance(s, ast.Expr) and isinstance(s.value, ast.Constant))]
        good = False
        if len(body) == 1 and isinstance(body[0], ast.Return):
            v = body[0].value
            if (
                isinstance(v, ast.Compare)
                and len(v.ops) == 1
                and isinstance(v.ops[0], ast.Eq)
                and _is_state_sub(v.left, "parse_code")
                and isinstance(v.comparators[0], ast.Constant)
                and v.comparators[0].value == pc.get(member)
            ):
                good = True
        ok5 = ok5 and good
        dets.append("%s == ParseCodes.%s(%s): %s" % (fname, member, pc.get(member), good))
    out.append(("A1.v", ok5, "pseudocode/parse_code_functions.py", "; ".join(dets)))

    # (vi) shape of parse_sequence
    from .stateflow import find_a1_loop

    loop = find_a1_loop(seq)
    ok6 = False
    det6 = "loop shape not found"
    if loop is not None:
        idx = seq.body.index(loop)
        before = seq.body[:idx]
        last = loop.body[-1]

        def is_pi(s):
            return isinstance(s, ast.Expr) and isinstance(s.value, ast.Call) and dotted(s.value.func) == "parse_info"

        pre_pi = [i for i, s in enumerate(before) if is_pi(s)]
        reset = [i for i, s in enumerate(before) if isinstance(s, ast.Expr) and isinstance(s.value, ast.Call) and dotted(s.value.func) == "reset_state"]
        st_idx = before.index(store) if store in before else -1
        first_real = [i for i, s in enumerate(before) if not (isinstance(s, ast.Expr) and isinstance(s.value, ast.Constant))]
        ok6 = (
            len(pre_pi) == 1
            and pre_pi[0] == len(before) - 1
            and is_pi(last)
            and bool(reset)
            and bool(first_real)
            and reset[0] == first_real[0]
            and reset[0] < st_idx < pre_pi[0]
        )
        det6 = "reset_state first, matcher stored before the single pre-loop parse_info, parse_info last in loop body"
    out.append(("A1.vi", bool(ok6), where, det6))
    return out


def _raises_when_false(fn, method):
    """fn contains `if not <x>.method(...): ... raise` where every path through
    the if-body ends in raise."""
    for s in fn.body:
        if isinstance(s, ast.If) and isinstance(s.test, ast.UnaryOp) and isinstance(s.test.op, ast.Not):
            t = s.test.operand
            if isinstance(t, ast.Call) and isinstance(t.func, ast.Attribute) and t.func.attr == method:
                mf = MustFlow(ast.FunctionDef(name="_", body=s.body, args=fn.args, decorator_list=[]), lambda n, st: st).run()
                normal = [e for e in mf.exits if e[0] in ("return", "fallthrough")]
                raises = [e for e in mf.exits if e[0] == "raise"]
                if not normal and raises and not s.orelse:
                    return True, "raises on every path where %s() is false" % method
                return False, "a path through `if not ...%s()` does not raise" % method
    return False, "no `if not <matcher>.%s(...)` guard found" % method
