"""E1 (external part): facts about the installed ``vc2_data_tables`` package,
taken from its *source* and CSV files (the package is located with
importlib.util.find_spec; neither it nor the repository is imported)."""
import ast
import csv
import importlib.util
import os
import re
from collections import OrderedDict

from .core import AnalysisError, const_str, dotted

_QUOTES = ['"', "“", "”", "'", "’", "`"]


def _is_ditto(s):
    q = s
    for c in _QUOTES:
        q = q.replace(c, "")
    return q != s and len(q.strip()) == 0


def _read_csv_without_comments(path):
    with open(path, encoding="utf-8") as f:
        rows = list(csv.reader(f))
    first = 0
    for i, cells in enumerate(rows):
        if any(c.strip() != "" and not c.strip().startswith("#") for c in cells):
            first = i
            break
    with open(path, encoding="utf-8") as f:
        for _ in range(first):
            f.readline()
        return list(csv.DictReader(f))


class ExternalTables(object):
    def __init__(self):
        spec = importlib.util.find_spec("vc2_data_tables")
        if spec is None or not spec.origin:
            raise AnalysisError("vc2_data_tables source not found")
        self.path = spec.origin
        self.dir = os.path.dirname(spec.origin)
        with open(self.path, encoding="utf-8") as f:
            self.tree = ast.parse(f.read(), self.path)
        self.enums = OrderedDict()  # name -> OrderedDict(member -> int)
        self.namedtuples = OrderedDict()  # name -> [fields]
        self.constants = {}
        self.lookups = OrderedDict()  # TABLE -> dict(enum=..., tuple=..., rows=OrderedDict(index->{col:str}))
        self.literal_tables = {}  # TABLE -> ast node (e.g. LIFTING_FILTERS)
        self.quant_matrix_keys = set()
        self._parse()

    def _csv(self, call):
        # csv_path("x.csv")
        if isinstance(call, ast.Call) and dotted(call.func) == "csv_path" and call.args:
            return os.path.join(self.dir, "csv", const_str(call.args[0]))
        return None

    def _parse(self):
        for n in self.tree.body:
            if isinstance(n, ast.ClassDef) and any(dotted(b) in ("IntEnum", "enum.IntEnum") for b in n.bases):
                d = OrderedDict()
                for s in n.body:
                    if isinstance(s, ast.Assign) and isinstance(s.targets[0], ast.Name):
                        try:
                            d[s.targets[0].id] = ast.literal_eval(s.value)
                        except Exception:
                            pass
                self.enums[n.name] = d
            elif isinstance(n, ast.Assign) and isinstance(n.targets[0], ast.Name):
                name = n.targets[0].id
                v = n.value
                if isinstance(v, ast.Constant) and isinstance(v.value, int):
                    self.constants[name] = v.value
                elif isinstance(v, ast.Call):
                    fn = dotted(v.func)
                    if fn == "namedtuple":
                        fields = v.args[1]
                        if isinstance(fields, ast.Constant):
                            fl = [x for x in re.split(r"[,\s]+", fields.value) if x]
                        else:
                            fl = [const_str(e) for e in fields.elts]
                        self.namedtuples[name] = fl
                    elif fn == "read_enum_from_csv":
                        path = self._csv(v.args[0])
                        d = OrderedDict()
                        for row in _read_csv_without_comments(path):
                            if (
                                not row["index"].strip()
                                or _is_ditto(row["index"])
                                or not row["name"].strip()
                                or _is_ditto(row["name"])
                            ):
                                continue
                            d[row["name"].strip()] = int(row["index"].strip())
                        self.enums[name] = d
                    elif fn == "read_lookup_from_csv":
                        path = self._csv(v.args[0])
                        enum = dotted(v.args[1])
                        tup = dotted(v.args[2])
                        rows = OrderedDict()
                        colvals = {}
                        fields = self.namedtuples.get(tup, [])
                        for row in _read_csv_without_comments(path):
                            if all(
                                not (c or "").strip() or (c or "").strip().startswith("#")
                                for k, c in row.items()
                                if k is not None and isinstance(c, str)
                            ):
                                continue
                            for fld in list(fields) + ["index"]:
                                if row.get(fld, "").strip() and not _is_ditto(row[fld]):
                                    colvals[fld] = row[fld]
                            rows[int(colvals["index"])] = {f: colvals.get(f, "") for f in fields}
                        self.lookups[name] = dict(enum=enum, tuple=tup, rows=rows)
                    elif fn == "read_quantisation_matrices_from_csv":
                        self._quant(self._csv(v.args[0]))
                elif isinstance(v, ast.Dict):
                    self.literal_tables[name] = v

    def _quant(self, path):
        last = {}
        for row in _read_csv_without_comments(path):
            if all(
                not (c or "").strip() or (c or "").strip().startswith("#")
                for k, c in row.items()
                if k is not None and isinstance(c, str)
            ):
                continue
            for f in list(row):
                if isinstance(row[f], str) and _is_ditto(row[f]):
                    row[f] = last.get(f, "")
            last = row
            wi = int(row["wavelet_index"].strip())
            wh = int(row["wavelet_index_ho"].strip())
            dh = int(row["dwt_depth_ho"].strip())
            for col in row:
                if col and re.match(r"\s*dwt_depth\s*=\s*[0-9]+\s*", col):
                    if row[col].strip():
                        self.quant_matrix_keys.add((wi, wh, int(col.partition("=")[2]), dh))

    # convenience -----------------------------------------------------------
    def enum_values(self, name):
        if name not in self.enums:
            raise AnalysisError("vc2_data_tables enum %s not found" % name)
        return set(self.enums[name].values())

    def table_key_enum(self, table):
        """Which enum indexes TABLE (None when it is not enum-indexed)."""
        if table in self.lookups:
            return self.lookups[table]["enum"]
        if table == "LIFTING_FILTERS":
            return "WaveletFilters"
        return None

    def profile_allowed_parse_codes(self):
        out = {}
        for idx, row in self.lookups["PROFILES"]["rows"].items():
            out[idx] = [x for x in re.split(r"\s*,\s*", row["allowed_parse_codes"].strip()) if x]
        return out
