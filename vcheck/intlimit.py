"""Shared rule: decimal rendering of stream integers cannot hit the interpreter's
digit limit.

A VC-2 stream can carry an exp-Golomb field of any length, so the integers the
validator explains and the viewer prints are unbounded.  CPython >= 3.11 raises
ValueError when an integer of more than 4300 digits is converted to a decimal
string, unless the process lifted the limit (sys.set_int_max_str_digits(0)).
The repository formats such values in decimal at dozens of sites (every
explain() that shows an offending value, string_formatters.Number, str() of a
fixed dictionary), so the one structural fact that keeps all of them total is
that the limit is lifted when the package is imported (fix commit D8).

Rule: vc2_conformance/__init__.py executes sys.set_int_max_str_digits(0) at
module level, unconditionally or guarded only by the availability of the
setting (hasattr test / except AttributeError), with `sys` imported.
"""
import ast

from .core import AnalysisError, dotted, norm


def _lifts(stmt):
    """'plain' / 'guarded' when the statement lifts the limit at import time; None otherwise"""
    def is_lift(x):
        return isinstance(x, ast.Expr) and isinstance(x.value, ast.Call) and dotted(x.value.func) == "sys.set_int_max_str_digits" and len(x.value.args) == 1 and isinstance(x.value.args[0], ast.Constant) and x.value.args[0].value == 0 and type(x.value.args[0].value) is int

    if is_lift(stmt):
        return "plain"
    if isinstance(stmt, ast.If) and not stmt.orelse and norm(stmt.test) in ("hasattr(sys, 'set_int_max_str_digits')", "sys.version_info >= (3, 11)") and any(is_lift(x) for x in stmt.body):
        return "guarded"
    if isinstance(stmt, ast.Try) and any(is_lift(x) for x in stmt.body) and all(dotted(h.type) == "AttributeError" for h in stmt.handlers) and stmt.handlers:
        return "guarded"
    return None


FIXTURE = """
import sys
if hasattr(sys, "set_int_max_str_digits"):
    sys.set_int_max_str_digits(0)
def later():
    sys.set_int_max_str_digits(0)
if False:
    sys.set_int_max_str_digits(0)
sys.set_int_max_str_digits(5000)
"""


def rule(repo, res, rid):
    fx = ast.parse(FIXTURE).body
    if [_lifts(s) for s in fx] != [None, "guarded", None, None, None]:
        raise AnalysisError("digit-limit rule no longer recognises its fixture")
    m = repo.modules.get("vc2_conformance")
    if m is None:
        raise AnalysisError("anchor vanished: package module vc2_conformance/__init__.py")
    kinds = [k for k in (_lifts(s) for s in m.tree.body) if k]
    imported = any(isinstance(s, ast.Import) and any(a.name == "sys" and a.asname in (None, "sys") for a in s.names) for s in m.tree.body)
    # nothing restores a limit afterwards
    restores = [c for mod in repo.modules.values() for c in ast.walk(mod.tree) if isinstance(c, ast.Call) and dotted(c.func) == "sys.set_int_max_str_digits" and not (len(c.args) == 1 and isinstance(c.args[0], ast.Constant) and c.args[0].value == 0)]
    res.check(bool(kinds) and imported and not restores, rid, "int-to-decimal:digit-limit-lifted-at-import", m.rel, "vc2_conformance/__init__.py must lift CPython's integer string conversion limit at import (sys.set_int_max_str_digits(0), at most guarded by hasattr): explain() of a conformance error and the viewer's value formatters convert stream integers of any size to decimal, which otherwise raises ValueError above 4300 digits (a few kB of zero bytes in a header field) -- the validator then fails while reporting, the viewer returns its internal-error status", by="lifted at import (%s)" % ", ".join(kinds))
