"""Level data-unit ordering patterns (level_sequence_restrictions.csv)."""
from collections import OrderedDict

from .core import AnalysisError
from .extables import _is_ditto

CSV = "vc2_conformance/level_sequence_restrictions.csv"


def level_patterns(repo):
    """OrderedDict level index -> pattern text (ditto cells resolved)."""
    rows = repo.read_csv_rows(CSV)
    out = OrderedDict()
    header = None
    last = {}
    for r in rows:
        if not r or all(not c.strip() or c.strip().startswith("#") for c in r):
            continue
        if header is None:
            header = [c.strip() for c in r]
            if "index" not in header or "sequence_restriction_regex" not in header:
                raise AnalysisError("%s: unexpected header %s" % (CSV, header))
            continue
        row = dict(zip(header, r))
        for k, v in list(row.items()):
            if _is_ditto(v) or not v.strip():
                row[k] = last.get(k, "")
        last = row
        out[int(row["index"])] = row["sequence_restriction_regex"]
    if not out:
        raise AnalysisError("%s: no level rows" % CSV)
    return out
