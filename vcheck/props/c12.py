"""C12 Quantise/dequantise stays within one step (structural part, very thin).

Every numeric clause of the property (the reconstruction bound, the strict
monotonicity of quant_factor and of inverse_quant(1, q) from 7 upward,
losslessness of index 0) is arithmetic over unbounded integers and is NOT
decided: inverse_quant, quant_factor and quant_offset are pinned to the
standard's pseudocode and there is nothing to read from their shape.

forward_quant is the one function of the quartet that is the repository's own
(deviation="inferred_implementation": the repository's equivalence test does
not compare it with anything).  The property's sign clause and its one-step
bound both need forward_quant to round *towards zero* with the same factor the
dequantiser multiplies by; that is visible in its shape and is decided, as is
the lossless_quantization test case's use of the 'distinct from 7 upward'
clause (its qindex is at least 7 above every matrix entry).
"""
import ast
import copy

from ..core import AnalysisError, const_str, dotted, norm, short, pfind, pmatch, pall
from ..report import Result

Q = "pseudocode.quantization"
LQ = "test_cases.decoder.lossless_quantization"
# smallest q0 such that inverse_quant(1, q) is strictly increasing for q >= q0; worked out by hand from the pinned
# formulas (the property states the weaker 7, the value the repository uses); a reviewed constant, not computed here
MIN_START = 6


def check(repo, tier="quick"):
    res = Result("C12")
    res.explanation = (
        "Shape of the repository's own forward_quant (truncation towards zero of 4*|coeff| by quant_factor of the same index, odd symmetry), "
        "pinned-ness of inverse_quant / quant_factor / quant_offset, and the lossless_quantization test case's reliance on distinct "
        "dequantised values from index 7 upward."
    )
    res.rule("C12.a", "inverse_quant, quant_factor and quant_offset remain pinned to the standard's pseudocode without deviation and contain no not-in-spec statement (a table, shortcut or early return inside a `## Begin not in spec` region is invisible to the equivalence test) (their arithmetic is covered by the repository's equivalence test and is not decided here)")
    res.rule("C12.b", "forward_quant returns (4*|coeff|) // quant_factor(quant_index) for non-negative coefficients and exactly the negation of that quotient for negative ones: the floor division is applied to a non-negative magnitude (rounding towards zero) with the factor of the same index the dequantiser uses")
    res.rule("C12.c", "the lossless_quantization test case sets every slice's qindex to (largest quantisation matrix entry over all levels and orientations) + MINIMUM_DISTINCT_QINDEX, and that constant is at least 6 (reviewed: inverse_quant(1, q) = 1, 2, 2, 3, 3, 4, 4, 5, 6, 7, 9, ... repeats at 5/6 and is strictly increasing afterwards; the repository uses 7), so every effective index qindex - matrix entry is in the range where inverse_quant(1, .) is strictly increasing")
    res.rule("C12.d", "no state kept between calls in the quantisation module; bug-pattern rules")

    m = repo.mod(Q)
    for name in ("inverse_quant", "quant_factor", "quant_offset"):
        f = m.funcs.get(name)
        if f is None:
            raise AnalysisError("anchor vanished: quantization.%s" % name)
        res.check(repo.is_pinned_function(f), "C12.a", "pinned:%s" % name, "%s:%s" % (m.rel, name), "%s is no longer pinned to the standard's pseudocode" % name, by="@ref_pseudocode, no deviation")
    from . import c09 as _c09
    from ..report import Ob as _Ob

    _sub = Result("C09")
    _c09.rule_h(repo, _sub, "C09.h")
    for _o in _sub.obs:
        if ".quantization." in _o.key or "quantization" in _o.where:
            res._add(_Ob("C12.a", "%s/%s" % (_o.rule, _o.key), _o.where, _o.status, _o.detail, _o.by, _o.path))
    rule_b(res, m)
    rule_c(res, repo)
    from .. import globals_state, lints

    globals_state.rule(repo, res, "C12.d", [Q], what="the quantised or dequantised value of one coefficient")
    lints.rule(repo, res, "C12.d", [Q])
    res.floor("C12.a", 3)
    res.floor("C12.b", 4)
    res.floor("C12.c", 4)
    res.floor("C12.d", 3)
    res.assumptions = [
        "the reconstruction bound |x - inverse_quant(forward_quant(x, q), q)| < quant_factor(q)/4, losslessness at index 0, strict monotonicity of quant_factor and of inverse_quant(1, q) for q >= 7 are integer arithmetic of pinned pseudocode over unbounded values and are NOT decided",
        "Python's // floors; abs() of an int is exact",
    ]
    res.trusted = ["the repository's own equivalence test for pinned functions"]
    return res


def _sub(expr, env):
    class S(ast.NodeTransformer):
        def visit_Name(self, node):
            if isinstance(node.ctx, ast.Load) and node.id in env:
                return copy.deepcopy(env[node.id])
            return node

    return S().visit(copy.deepcopy(expr))


def _paths(body, env, conds):
    """(conditions, returned expression with straight-line locals inlined) for every return reachable in a body of
    assignments / if / return statements; None if another statement kind occurs"""
    out = []
    env = dict(env)
    for i, s in enumerate(body):
        if isinstance(s, ast.Expr) and isinstance(s.value, ast.Constant):
            continue
        if isinstance(s, ast.Assign) and len(s.targets) == 1 and isinstance(s.targets[0], ast.Name):
            env[s.targets[0].id] = _sub(s.value, env)
        elif isinstance(s, ast.Return):
            out.append((conds, _sub(s.value, env) if s.value is not None else None))
            return out, True
        elif isinstance(s, ast.If):
            t = _sub(s.test, env)
            a, a_ret = _paths(s.body + body[i + 1:], env, conds + [(t, True)])
            b, b_ret = _paths(s.orelse + body[i + 1:], env, conds + [(t, False)])
            if a is None or b is None:
                return None, False
            return out + a + b, a_ret and b_ret
        else:
            return None, False
    return out, False


def _sign_of(conds, coeff):
    """the set of signs ('neg', 'zero', 'pos') the coefficient can have on a path, from its conditions; None if a
    condition is not a comparison of the coefficient with 0"""
    table = {
        "%s >= 0": {"zero", "pos"}, "%s > 0": {"pos"}, "%s < 0": {"neg"}, "%s <= 0": {"neg", "zero"}, "%s == 0": {"zero"}, "%s != 0": {"neg", "pos"},
        "0 <= %s": {"zero", "pos"}, "0 < %s": {"pos"}, "0 > %s": {"neg"}, "0 >= %s": {"neg", "zero"}, "0 == %s": {"zero"}, "0 != %s": {"neg", "pos"},
        "not %s": {"zero"},
    }
    table = dict((k % coeff, v) for k, v in table.items())
    table[coeff] = {"neg", "pos"}
    signs = {"neg", "zero", "pos"}
    for t, taken in conds:
        s = norm(t)
        if s not in table:
            return None
        signs &= table[s] if taken else ({"neg", "zero", "pos"} - table[s])
    return signs


def rule_b(res, m):
    fn = m.funcs.get("forward_quant")
    if fn is None:
        raise AnalysisError("anchor vanished: quantization.forward_quant")
    where = "%s:forward_quant" % m.rel
    coeff, qi = [a.arg for a in fn.args.args[:2]]
    paths, total = _paths(fn.body, {}, [])
    res.check(paths is not None and total and len(paths) >= 1, "C12.b", "forward_quant:closed-form", where, "forward_quant must be straight-line assignments, sign tests on the coefficient and returns (every path returning)", by="%d returning path(s)" % len(paths or []))
    if not paths or not total:
        return
    quot = {
        "abs": norm(ast.parse("4 * abs(%s) // quant_factor(%s)" % (coeff, qi)).body[0].value),
        "id": norm(ast.parse("4 * %s // quant_factor(%s)" % (coeff, qi)).body[0].value),
        "neg": norm(ast.parse("4 * -%s // quant_factor(%s)" % (coeff, qi)).body[0].value),
    }
    covered = set()
    for conds, value in paths:
        signs = _sign_of(conds, coeff)
        label = ",".join("%s%s" % ("" if k else "not ", short(t, 30)) for t, k in conds) or "always"
        if value is None or signs is None:
            res.check(False, "C12.b", "forward_quant:path:%s" % label, where, "path condition is not a comparison of the coefficient with 0, or nothing is returned", by="")
            continue
        if not signs:
            continue  # infeasible path
        covered |= signs
        v = value
        negated = False
        if isinstance(v, ast.UnaryOp) and isinstance(v.op, ast.USub):
            negated, v = True, v.operand
        nv = norm(v)
        sym = not negated and nv in (norm(ast.parse("sign(%s) * (%s)" % (coeff, quot["abs"])).body[0].value), norm(ast.parse("(%s) * sign(%s)" % (quot["abs"], coeff)).body[0].value))
        zero_const = not negated and isinstance(v, ast.Constant) and v.value == 0 and type(v.value) is int
        if signs == {"zero"}:
            ok = zero_const or sym or nv in (quot["abs"], quot["id"], quot["neg"])
            res.check(ok, "C12.b", "forward_quant:zero:zero", where, "for a zero coefficient the value must be 0 (or the general quotient) (found %s)" % short(value, 100), by="0")
        elif "neg" in signs and "pos" in signs:
            res.check(sym, "C12.b", "forward_quant:any:sign-times-truncated-quotient", where, "with no sign test the value must be sign(coeff) * ((4*abs(coeff)) // quant_factor(index)) (found %s)" % short(value, 100), by="sign(coeff) * truncated quotient")
        elif "neg" in signs:  # {neg} or {neg, zero}
            ok = sym or (negated and nv in (quot["abs"], quot["neg"]))
            res.check(ok, "C12.b", "forward_quant:neg:negated-floor-of-magnitude", where, "for a negative coefficient the value must be -((4*|coeff|) // quant_factor(index)): the negation applied to the quotient, not inside the floor division (which would round away from zero and can reach a full quantisation step of error) (found %s)" % short(value, 100), by="-((4*|coeff|) // quant_factor(%s))" % qi)
        else:  # {pos} or {zero, pos}
            ok = sym or (not negated and nv in (quot["abs"], quot["id"]))
            res.check(ok, "C12.b", "forward_quant:nonneg:floor-of-nonnegative", where, "for a non-negative coefficient the value must be (4*coeff) // quant_factor(index) with the factor of the same index (found %s)" % short(value, 100), by="(4*|coeff|) // quant_factor(%s)" % qi)
    res.check(covered == {"neg", "zero", "pos"}, "C12.b", "forward_quant:both-signs-covered", where, "every sign of the coefficient must have a returning path (found %s)" % sorted(covered), by="paths for %s" % sorted(covered))
    # the quotient's factor is the one inverse_quant multiplies by
    inv = m.funcs["inverse_quant"]
    iq = inv.args.args[1].arg
    n, _ = pfind("X_m *= quant_factor(%s)" % iq, inv)
    res.check(n is not None, "C12.b", "inverse_quant:multiplies-by-same-factor", "%s:inverse_quant" % m.rel, "inverse_quant multiplies the magnitude by quant_factor of its index argument - the factor forward_quant divides by", by="magnitude *= quant_factor(%s)" % iq)


def rule_c(res, repo):
    m = repo.mod(LQ)
    where = m.rel
    const = None
    for s in m.tree.body:
        if isinstance(s, ast.Assign) and isinstance(s.targets[0], ast.Name) and s.targets[0].id == "MINIMUM_DISTINCT_QINDEX":
            const = s.value
    if const is None:
        raise AnalysisError("anchor vanished: lossless_quantization.MINIMUM_DISTINCT_QINDEX")
    ok = isinstance(const, ast.Constant) and isinstance(const.value, int) and const.value >= MIN_START
    res.check(ok, "C12.c", "MINIMUM_DISTINCT_QINDEX:start-of-increasing-run", where, "inverse_quant(1, 5) == inverse_quant(1, 6) == 4 (reviewed by hand from the pinned formulas): the constant must be an integer literal >= %d, the smallest start of a strictly increasing run (found %s)" % (MIN_START, short(const, 30)), by="literal %s >= %d" % (const.value if isinstance(const, ast.Constant) else "?", MIN_START))
    fn = m.funcs.get("compute_qindex_with_distinct_quant_factors")
    if fn is None:
        raise AnalysisError("anchor vanished: lossless_quantization.compute_qindex_with_distinct_quant_factors")
    qm = fn.args.args[0].arg
    rets = [r for r in ast.walk(fn) if isinstance(r, ast.Return)]
    ok = False
    if len(rets) == 1:
        from .c20 import inline_locals

        v = inline_locals(fn, rets[0].value)
        for pat in (
            "max(X_v for X_s in %s.values() for X_v in X_s.values()) + MINIMUM_DISTINCT_QINDEX" % qm,
            "MINIMUM_DISTINCT_QINDEX + max(X_v for X_s in %s.values() for X_v in X_s.values())" % qm,
            "max(max(X_s.values()) for X_s in %s.values()) + MINIMUM_DISTINCT_QINDEX" % qm,
        ):
            if pmatch(pat, v) is not None:
                ok = True
    res.check(ok, "C12.c", "compute_qindex:max-entry-plus-minimum", "%s:compute_qindex_with_distinct_quant_factors" % where, "the index must be the maximum over every level and orientation of the quantisation matrix plus MINIMUM_DISTINCT_QINDEX (unfiltered maximum, so qindex - entry >= the constant for every band)", by="max over all entries + MINIMUM_DISTINCT_QINDEX")
    fn = m.funcs.get("lossless_quantization")
    if fn is None:
        raise AnalysisError("anchor vanished: lossless_quantization.lossless_quantization")
    w2 = "%s:lossless_quantization" % where
    n, e = pfind("X_q = compute_qindex_with_distinct_quant_factors(X_m)", fn)
    ok = False
    mat_ok = False
    if n is not None:
        q, mat = e["X_q"], e["X_m"]
        rebinds = [s for s in ast.walk(fn) if isinstance(s, (ast.Assign, ast.AugAssign)) and any(isinstance(x, ast.Name) and x.id == q and isinstance(x.ctx, ast.Store) for t in (s.targets if isinstance(s, ast.Assign) else [s.target]) for x in ast.walk(t))]
        stores = pall("X_s['qindex'] = E_v", fn)
        ok = len(rebinds) == 1 and len(stores) >= 1 and all(isinstance(s.value, ast.Name) and s.value.id == q for s, _ in stores)
        # every store is in a loop over all slices of the sequence
        for s, env in stores:
            loop = None
            for l in ast.walk(fn):
                if isinstance(l, ast.For) and any(x is s for x in ast.walk(l)):
                    loop = l
                    break
            ok = ok and loop is not None and isinstance(loop.iter, ast.Call) and dotted(loop.iter.func) == "iter_slices_in_sequence" and not any(isinstance(x, (ast.Break, ast.Continue)) for x in ast.walk(loop)) and s in loop.body
        mn, me = pfind("%s = get_quantization_marix(codec_features)" % mat, fn)
        mat_ok = mn is not None
    res.check(ok, "C12.c", "lossless_quantization:every-slice-gets-that-index", w2, "every slice of the sequence must be given exactly the index compute_qindex_with_distinct_quant_factors returned (unconditional store in the loop over iter_slices_in_sequence)", by="hq_slice['qindex'] = qindex in the all-slices loop")
    res.check(mat_ok, "C12.c", "lossless_quantization:matrix-is-the-codecs", w2, "the matrix the index is derived from must be the codec's own (get_quantization_marix(codec_features))", by="quant_matrix = get_quantization_marix(codec_features)")
