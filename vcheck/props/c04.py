"""C04 Lossless and unquantised encodings reconstruct pictures exactly
(structural part): each encoder stage is the syntactic inverse of a
spec-pinned decoder stage and the stages are composed in reverse order; the
coefficient / matrix ordering of the encoder equals the decoder's read order;
the lossless path never quantises.  Transform inversion itself is C11."""
import ast

from ..core import AnalysisError, const_str, dotted, norm, short, subscript_key
from ..report import Result
from . import c11

PAIR = {"offset_picture": "remove_offset_picture", "inverse_wavelet_transform": "forward_wavelet_transform", "idwt": "dwt", "idwt_pad_removal": "dwt_pad_addition"}


def top_calls(fn):
    """call names of a function body in program order (loops flattened)."""
    out = []
    for n in sorted((x for x in ast.walk(fn) if isinstance(x, ast.Call) and hasattr(x, "lineno")), key=lambda x: (x.lineno, x.col_offset)):
        d = dotted(n.func)
        if d and "." not in d:
            out.append((d, n))
    return out


def check(repo, tier="quick"):
    res = Result("C04")
    res.explanation = (
        "Mirror of the encoder pipeline against the spec-pinned decoder pipeline (stage order, offset removal, DC prediction with "
        "reversed scan), agreement of coefficient / quantisation-matrix ordering with the decoder's read order, and the lossless "
        "path being unquantised. The wavelet transform's own inversion is decided by C11."
    )
    res.rule("C04.h", "bug patterns with zero expected instances in this property's modules: swapped same-named arguments, lower-bound guard followed by a decrement of the guarded value, presence of a dictionary entry decided by truthiness; no state kept between calls in the encoder and transform modules")
    res.rule("C04.a", "encoder stage list = reversed decoder stage list under {offset<->remove_offset, pad_removal<->pad_addition, idwt<->dwt}; component/transform pairing agrees; offset removal is the offset with the opposite sign")
    res.rule("C04.b", "apply_dc_prediction uses dc_prediction's predictors with the opposite sign and scans y and x in reverse; applied exactly for the parse codes the decoder de-predicts")
    res.rule("C04.c", "coefficient, orientation, level, component and slice ordering of the encoder = the decoder's read order; quantisation matrix serialisation order = quant_matrix read order")
    res.rule("C04.e", "the forward transform is the structural inverse of the inverse transform (every obligation of the C11 check, re-evaluated here)")
    res.rule("C04.f", "lossless slice lengths fit their field: the slice size scaler is at least ceil(longest component length / largest value of the slice length field), and every component length is divided by it rounding up")
    res.rule("C04.g", "the picture handed to the in-place picture_encode has rows that are distinct objects whatever the caller supplied: it is rebuilt row by row (a whole-object copy/deepcopy preserves rows shared inside the caller's picture, which the per-sample in-place updates would then modify once per row index)")
    res.rule("C04.d", "the lossless path builds every slice with the literal qindex 0 and never calls a quantiser")

    rule_a(repo, res)
    rule_b(repo, res)
    rule_c(repo, res)
    rule_d(repo, res)
    rule_e(repo, res)
    rule_f(repo, res)
    rule_g(repo, res)
    from .. import lints as _lints

    _lints.rule(repo, res, "C04.h", ['encoder.pictures', 'pseudocode.picture_encoding'])
    from .. import globals_state as _gs

    _gs.rule(repo, res, "C04.h", ['encoder.pictures', 'encoder.sequence', 'pseudocode.picture_encoding', 'pseudocode.arrays', 'pseudocode.quantization'], what="the coefficients coded for one picture (a later picture could be answered from an earlier one's)")
    res.floor("C04.h", 3)
    res.floor("C04.g", 2)
    res.floor("C04.e", 30)
    res.floor("C04.f", 3)
    res.floor("C04.a", 6)
    res.floor("C04.b", 6)
    res.floor("C04.c", 9)
    res.floor("C04.d", 2)
    res.assumptions = [
        "exactness of the transform is C11; quantisation at index 0 being the identity is arithmetic (forward_quant(c, 0) = 4|c| // 4)",
        "clip_picture is the identity on in-range input",
    ]
    res.trusted = ["decoder stages are as the standard (pinned by the repository's own test)"]
    return res


def rule_a(repo, res):
    dm, dec = repo.func("pseudocode.picture_decoding:picture_decode")
    em, enc = repo.func("pseudocode.picture_encoding:picture_encode")
    where = "%s:picture_encode" % em.rel
    dcalls = [c for c, _ in top_calls(dec) if c in PAIR or c == "clip_picture"]
    ecalls = [c for c, _ in top_calls(enc)]
    want = [PAIR[c] for c in reversed(dcalls) if c in PAIR]
    res.check(ecalls == want, "C04.a", "picture_encode:stage-order", where, "picture_decode runs %s; picture_encode must run %s but runs %s" % (dcalls, want, ecalls), by=" ; ".join(ecalls))
    # the stages act on the same picture argument
    im, inv = repo.func("pseudocode.picture_decoding:inverse_wavelet_transform")
    fm, fwd = repo.func("pseudocode.picture_encoding:forward_wavelet_transform")
    where_f = "%s:forward_wavelet_transform" % fm.rel
    dseq = [c for c, _ in top_calls(inv) if c in PAIR]
    eseq = [c for c, _ in top_calls(fwd) if c in PAIR.values()]
    # collapse repeats
    def runs(xs):
        out = []
        for x in xs:
            if not out or out[-1] != x:
                out.append(x)
        return out

    res.check(runs(eseq) == [PAIR[c] for c in reversed(runs(dseq))], "C04.a", "forward_wavelet_transform:stage-order", where_f, "inverse transform runs %s, forward transform runs %s" % (runs(dseq), runs(eseq)), by=" ; ".join(runs(eseq)))
    # component <-> transform-key pairing
    def pairs(fn, call, store_is_state):
        out = set()
        for n in ast.walk(fn):
            if isinstance(n, ast.Assign) and isinstance(n.value, ast.Call) and dotted(n.value.func) == call and len(n.value.args) == 2:
                tgt, arg = n.targets[0], n.value.args[1]
                if store_is_state:
                    k = subscript_key(tgt, "state")
                    c = const_str(arg.slice) if isinstance(arg, ast.Subscript) else None
                else:
                    k = subscript_key(arg, "state")
                    c = const_str(tgt.slice) if isinstance(tgt, ast.Subscript) else None
                out.add((c, k))
        return out

    dp = pairs(inv, "idwt", False)
    ep = pairs(fwd, "dwt", True)
    res.check(dp == ep and len(dp) == 3, "C04.a", "components:transform-keys", where_f, "decoder reads %s, encoder writes %s" % (sorted(dp), sorted(ep)), by="%s" % sorted(ep))
    # pad addition / removal over the same component list
    def comp_loop(fn, call):
        for n in ast.walk(fn):
            if isinstance(n, ast.For) and isinstance(n.iter, (ast.List, ast.Tuple)) and any(isinstance(c, ast.Call) and dotted(c.func) == call for c in ast.walk(n)):
                return [const_str(e) for e in n.iter.elts]
        return None

    res.check(comp_loop(inv, "idwt_pad_removal") == comp_loop(fwd, "dwt_pad_addition") == ["Y", "C1", "C2"], "C04.a", "components:padding", where_f, "padding is removed for %s but added for %s" % (comp_loop(inv, "idwt_pad_removal"), comp_loop(fwd, "dwt_pad_addition")), by="Y, C1, C2")
    # offset removal mirrors offset
    om = repo.mod("pseudocode.picture_decoding")
    off = om.funcs.get("offset_component")
    sym = repo.resolve(em.name, "remove_offset_picture")
    rm_mod = repo.modules[sym.mod] if sym is not None and sym.kind == "func" else em
    rem = rm_mod.funcs.get("remove_offset_component")
    if off is None or rem is None:
        raise AnalysisError("anchor vanished: offset_component / remove_offset_component")

    def updates(fn):
        out = []
        for n in ast.walk(fn):
            if isinstance(n, ast.AugAssign):
                guard = None
                p = getattr(n, "_parent", None)
                if isinstance(p, ast.If):
                    guard = (norm(p.test), n in p.body)
                out.append((guard, type(n.op).__name__, norm(n.target), norm(n.value)))
        return sorted(out, key=str)

    uo, ur = updates(off), updates(rem)
    ok = len(uo) == len(ur) == 2 and all(a[0] == b[0] and a[2] == b[2] and a[3] == b[3] and {a[1], b[1]} == {"Add", "Sub"} for a, b in zip(uo, ur))
    res.check(ok, "C04.a", "offset:opposite-sign", "%s:remove_offset_component" % rm_mod.rel, "offset_component applies %s, remove_offset_component applies %s" % (uo, ur), by="same amounts, opposite sign, same guards")
    # the component loop ranges cover the whole component on both sides
    def full_scan(fn):
        from ..core import pfind

        a = fn.args.args[1].arg
        outer = None
        for pat in ("for X_y in range(height(%s)):\n    STMTS_" % a, "for X_y in range(0, height(%s)):\n    STMTS_" % a):
            outer = outer or pfind(pat, fn)[0]
        if outer is None:
            return False
        return any(pfind(pat, outer)[0] is not None for pat in ("for X_x in range(width(%s)):\n    STMTS_" % a, "for X_x in range(0, width(%s)):\n    STMTS_" % a))

    res.check(full_scan(off) and full_scan(rem), "C04.a", "offset:full-scan", "%s:remove_offset_component" % rm_mod.rel, "both must visit every sample of the component", by="full height x width scan")


def branch_table(fn, var="prediction"):
    """[(test text, value text)] of the if/elif/else chain assigning `var`."""
    out = []
    for n in ast.walk(fn):
        if isinstance(n, ast.If):
            for b in n.body:
                if isinstance(b, ast.Assign) and dotted(b.targets[0]) == var:
                    out.append((norm(n.test), norm(b.value)))
            for b in n.orelse:
                if isinstance(b, ast.Assign) and dotted(b.targets[0]) == var:
                    out.append(("else", norm(b.value)))
    return out


def rule_b(repo, res):
    dm, dec = repo.func("decoder.transform_data_syntax:dc_prediction")
    em, enc = repo.func("encoder.pictures:apply_dc_prediction")
    where = "%s:apply_dc_prediction" % em.rel
    bd, be = branch_table(dec), branch_table(enc)
    res.check(bd == be and len(bd) == 4, "C04.b", "predictors:equal", where, "decoder predictors %s, encoder predictors %s" % (bd, be), by="4 branches, identical predictors")
    def update(fn):
        for n in ast.walk(fn):
            if isinstance(n, ast.AugAssign) and norm(n.target) == "band[y][x]":
                return type(n.op).__name__, norm(n.value)
        return None

    ud, ue = update(dec), update(enc)
    res.check(ud == ("Add", "prediction") and ue == ("Sub", "prediction"), "C04.b", "update:opposite-sign", where, "decoder update %s, encoder update %s" % (ud, ue), by="+= prediction / -= prediction")
    # scan directions
    def loops(fn):
        out = {}
        for n in ast.walk(fn):
            if isinstance(n, ast.For) and isinstance(n.target, ast.Name):
                r, rev = c11.loop_range(n.iter)
                out[n.target.id] = (r, rev)
        return out

    ld, le = loops(dec), loops(enc)
    for v in ("y", "x"):
        ok = v in ld and v in le and ld[v][0] == le[v][0] and ld[v][1] is False and le[v][1] is True
        res.check(ok, "C04.b", "scan:%s-reversed" % v, where, "decoder scans %s over %s, encoder over %s: the encoder must visit the same range in reverse so that every prediction uses neighbours that are still un-predicted" % (v, ld.get(v), le.get(v)), by="same range, reversed")
    # nesting: y outer, x inner on both sides
    def outer(fn):
        for n in fn.body:
            if isinstance(n, ast.For):
                return dotted(n.target)
        return None

    res.check(outer(dec) == outer(enc) == "y", "C04.b", "scan:row-major", where, "outer loop variable: decoder %s encoder %s" % (outer(dec), outer(enc)), by="y outer, x inner")
    # applied exactly where the decoder de-predicts
    pcs = repo.ext.enums["ParseCodes"]
    um, udc = repo.func("pseudocode.parse_code_functions:using_dc_prediction")
    from .c02 import _fold_pred

    body = [s for s in udc.body if isinstance(s, ast.Return)]
    fam = set(n for n, v in pcs.items() if _fold_pred(body[0].value, v)) if body else set()
    res.check(fam == {"low_delay_picture", "low_delay_picture_fragment"}, "C04.b", "condition:decoder-family", "%s:using_dc_prediction" % um.rel, "using_dc_prediction is true for %s" % sorted(fam), by="exactly the low-delay parse codes")
    tm, tsp = repo.func("encoder.pictures:transform_and_slice_picture")
    ok = False
    bands = None
    for n in ast.walk(tsp):
        if isinstance(n, ast.If) and norm(n.test) == "codec_features['profile'] == Profiles.low_delay":
            calls = [c for c in ast.walk(n) if isinstance(c, ast.Call) and dotted(c.func) == "apply_dc_prediction"]
            inner = [i for i in n.body if isinstance(i, ast.If)]
            if len(calls) == 6 and inner and norm(inner[0].test) == "state['dwt_depth_ho'] == 0":
                t = [norm(c.args[0]) for c in ast.walk(ast.Module(body=inner[0].body, type_ignores=[])) if isinstance(c, ast.Call) and dotted(c.func) == "apply_dc_prediction"]
                f = [norm(c.args[0]) for c in ast.walk(ast.Module(body=inner[0].orelse, type_ignores=[])) if isinstance(c, ast.Call) and dotted(c.func) == "apply_dc_prediction"]
                bands = (t, f)
                ok = True
    dm2, td = repo.func("decoder.transform_data_syntax:transform_data")
    dbands = None
    for n in ast.walk(td):
        if isinstance(n, ast.If) and norm(n.test) == "using_dc_prediction(state)":
            inner = [i for i in n.body if isinstance(i, ast.If)]
            if inner:
                t = [norm(c.args[0]) for c in ast.walk(ast.Module(body=inner[0].body, type_ignores=[])) if isinstance(c, ast.Call) and dotted(c.func) == "dc_prediction"]
                f = [norm(c.args[0]) for c in ast.walk(ast.Module(body=inner[0].orelse, type_ignores=[])) if isinstance(c, ast.Call) and dotted(c.func) == "dc_prediction"]
                dbands = (t, f)
    res.check(ok and bands == dbands and bands is not None, "C04.b", "condition:encoder-bands", "%s:transform_and_slice_picture" % tm.rel, "encoder predicts %s under profile == low_delay; decoder de-predicts %s" % (bands, dbands), by="same DC bands of Y, C1, C2 under the low-delay condition")


def decoder_orient_order(repo):
    """orientation order per level kind, from the pinned slice readers."""
    m, hq = repo.func("decoder.transform_data_syntax:hq_slice")
    lists = [tuple(const_str(e) for e in n.iter.elts) for n in ast.walk(hq) if isinstance(n, ast.For) and dotted(n.target) == "orient" and isinstance(n.iter, (ast.List, ast.Tuple))]
    if not lists or any(l != lists[0] for l in lists):
        raise AnalysisError("hq_slice: orientation loops not recognised")
    return list(lists[0])


def sort_key_list(fn):
    """the literal list used in `sorted(..., key=lambda t: [..].index(t[0]))`."""
    out = []
    for n in ast.walk(fn):
        if isinstance(n, ast.Lambda):
            for c in ast.walk(n.body):
                if isinstance(c, ast.Call) and isinstance(c.func, ast.Attribute) and c.func.attr == "index" and isinstance(c.func.value, (ast.List, ast.Tuple)):
                    out.append([const_str(e) for e in c.func.value.elts])
    return out


def rule_c(repo, res):
    order = decoder_orient_order(repo)  # ["HL","LH","HH"]
    qm, qmf = repo.func("decoder.picture_syntax:quant_matrix")
    # read order of the custom matrix in the decoder: by source order of the 2-D level body
    reads = [const_str(n.slice) for n in sorted((x for x in ast.walk(qmf) if isinstance(x, ast.Assign) and isinstance(x.targets[0], ast.Subscript) and const_str(x.targets[0].slice) in order and isinstance(x.value, ast.Call) and dotted(x.value.func) == "read_uint"), key=lambda x: x.lineno) for n in [n.targets[0]]]
    res.check(reads == order, "C04.c", "decoder:matrix-read-order", "%s:quant_matrix" % qm.rel, "quant_matrix reads %s, slices read %s" % (reads, order), by=" < ".join(order))
    em, tsp = repo.func("encoder.pictures:transform_and_slice_picture")
    sm, ser = repo.func("encoder.pictures:serialize_quantization_matrix")
    for fn, m, key in ((tsp, em, "coefficients"), (ser, sm, "matrix")):
        where = "%s:%s" % (m.rel, fn.name)
        ks = sort_key_list(fn)
        ok = len(ks) == 1 and all(o in ks[0] for o in order + ["L", "LL", "H"])
        if ok:
            idx = [ks[0].index(o) for o in order]
            ok = idx == sorted(idx)
        res.check(ok, "C04.c", "encoder:%s-orientation-order" % key, where, "sort key %s does not induce the decoder's order %s within a level" % (ks, order), by="induces %s" % " < ".join(order))
        # levels ascending: sorted(<dict>.items())
        asc = any(isinstance(n, ast.For) and isinstance(n.iter, ast.Call) and dotted(n.iter.func) == "sorted" and len(n.iter.args) == 1 and not n.iter.keywords and norm(n.iter.args[0]).endswith(".items()") and isinstance(n.target, ast.Tuple) and dotted(n.target.elts[0]) == "level" for n in ast.walk(fn))
        res.check(asc, "C04.c", "encoder:%s-levels-ascending" % key, where, "levels must be visited in ascending order (sorted(<levels>.items()))", by="sorted by level")
    where = "%s:transform_and_slice_picture" % em.rel
    # component order and comp naming (structural, rename-robust)
    tloop = [n for n in ast.walk(tsp) if isinstance(n, ast.For) and isinstance(n.iter, (ast.List, ast.Tuple)) and [const_str(e) for e in n.iter.elts] == ["y_transform", "c1_transform", "c2_transform"]]
    comp_var = None
    if len(tloop) == 1:
        tv = dotted(tloop[0].target)
        for n in tloop[0].body:
            if isinstance(n, ast.Assign) and isinstance(n.value, ast.Call) and isinstance(n.value.func, ast.Attribute) and n.value.func.attr == "upper":
                inner = n.value.func.value
                if isinstance(inner, ast.Subscript) and isinstance(inner.slice, ast.Constant) and inner.slice.value == 0 and isinstance(inner.value, ast.Call) and isinstance(inner.value.func, ast.Attribute) and inner.value.func.attr == "split" and dotted(inner.value.func.value) == tv and inner.value.args and const_str(inner.value.args[0]) == "_":
                    comp_var = dotted(n.targets[0])
    res.check(comp_var is not None, "C04.c", "encoder:component-naming", where, "the component name must be derived from the transform key (y/c1/c2_transform -> Y/C1/C2) in a loop over exactly those three keys", by="Y/C1/C2 from y/c1/c2_transform")
    # slice bound calls and the raster loops fed by them
    bound_calls = {}
    for c in ast.walk(tsp):
        if isinstance(c, ast.Call) and dotted(c.func) in ("slice_left", "slice_right", "slice_top", "slice_bottom"):
            bound_calls[dotted(c.func)] = c
    ok = len(bound_calls) == 4
    if ok:
        for name, c in bound_calls.items():
            ok = ok and len(c.args) == 4 and dotted(c.args[0]) == "state" and dotted(c.args[2]) == comp_var
    res.check(ok, "C04.c", "encoder:slice-bounds-from-spec-functions", where, "slice bounds must come from slice_left/right/top/bottom(state, s, <component>, <level>)", by="same bound functions as slice_band")

    def bounds_list_kind(name):
        """'x' if local `name` is a list comprehension of (slice_left, slice_right) pairs, 'y' for (top, bottom)."""
        for n in ast.walk(tsp):
            if isinstance(n, ast.Assign) and dotted(n.targets[0]) == name and isinstance(n.value, ast.ListComp) and isinstance(n.value.elt, ast.Tuple) and len(n.value.elt.elts) == 2:
                fs = [dotted(e.func) if isinstance(e, ast.Call) else None for e in n.value.elt.elts]
                if fs == ["slice_left", "slice_right"]:
                    return "x"
                if fs == ["slice_top", "slice_bottom"]:
                    return "y"
        return None

    def enum_loop_kind(loop):
        """for s, (a, b) in enumerate(<bounds list>) -> (kind, a, b)"""
        if isinstance(loop.iter, ast.Call) and dotted(loop.iter.func) == "enumerate" and isinstance(loop.target, ast.Tuple) and len(loop.target.elts) == 2 and isinstance(loop.target.elts[1], ast.Tuple):
            k = bounds_list_kind(dotted(loop.iter.args[0]))
            ab = [dotted(e) for e in loop.target.elts[1].elts]
            return k, ab
        return None, None

    raster_ok = False
    for outer in ast.walk(tsp):
        if isinstance(outer, ast.For):
            k1, ab1 = enum_loop_kind(outer)
            if k1 == "y" and len(outer.body) == 1 and isinstance(outer.body[0], ast.For):
                k2, ab2 = enum_loop_kind(outer.body[0])
                if k2 == "x" and len(outer.body[0].body) == 1 and isinstance(outer.body[0].body[0], ast.For):
                    yl = outer.body[0].body[0]
                    if [dotted(a) for a in getattr(yl.iter, "args", [])] == ab1 and len(yl.body) == 1 and isinstance(yl.body[0], ast.For):
                        xl = yl.body[0]
                        if [dotted(a) for a in getattr(xl.iter, "args", [])] == ab2:
                            yv, xv = dotted(yl.target), dotted(xl.target)
                            # paired appends in the innermost body
                            app = [c for c in ast.walk(xl) if isinstance(c, ast.Call) and isinstance(c.func, ast.Attribute) and c.func.attr == "append"]
                            coeff = [c for c in app if isinstance(c.func.value, ast.Attribute) and c.func.value.attr == "coeff_values" and isinstance(c.args[0], ast.Subscript) and dotted(c.args[0].slice) == xv and isinstance(c.args[0].value, ast.Subscript) and dotted(c.args[0].value.slice) == yv]
                            qmv = [c for c in app if isinstance(c.func.value, ast.Attribute) and c.func.value.attr == "quant_matrix_values" and isinstance(c.args[0], ast.Subscript) and isinstance(c.args[0].value, ast.Subscript) and subscript_key(c.args[0].value.value, "state") == "quant_matrix"]
                            raster_ok = len(coeff) == 1 and len(qmv) == 1 and len(app) == 2
    res.check(raster_ok, "C04.c", "encoder:raster-order-in-slice", where, "per slice (sy outer, sx inner) the coefficients must be appended row-major over range(top, bottom) x range(left, right), each paired with state['quant_matrix'][level][orient]", by="sy, sx, y, x nest over the spec's slice bounds with paired appends")
    # every subband of every component contributes: the gathering loops contain no skip, exit or condition
    tm, tfn = repo.func("encoder.pictures:transform_and_slice_picture")
    gather = [l for l in ast.walk(tfn) if isinstance(l, ast.For) and isinstance(l.iter, (ast.List, ast.Tuple)) and [const_str(e) for e in l.iter.elts] == ["y_transform", "c1_transform", "c2_transform"]]
    cond = []
    if len(gather) == 1:
        for x in ast.walk(gather[0]):
            if isinstance(x, (ast.Continue, ast.Break, ast.Return, ast.If, ast.Try, ast.While)) or (isinstance(x, (ast.ListComp, ast.GeneratorExp)) and any(g.ifs for g in x.generators)):
                cond.append("%s at line %d" % (type(x).__name__.lower(), x.lineno))
    res.check(len(gather) == 1 and not cond, "C04.c", "encoder:every-subband-gathered", where, "the loops that collect each slice's coefficients (components, levels, orientations, slices, rows, columns) must run unconditionally: the decoder reads a coefficient for every position of every subband in a fixed order, so a skipped (e.g. all-zero) subband shifts every later coefficient of the slice (found %s)" % (cond or "gathering loop not found"), by="no continue/break/if inside the gathering loops")
    # LD chroma interleave: C1 then C2
    lm, ld = repo.func("encoder.pictures:make_transform_data_ld_lossy")
    calls = [c for c in ast.walk(ld) if isinstance(c, ast.Call) and dotted(c.func) == "interleave"]
    ok = len(calls) == 2 and all(len(c.args) == 2 and isinstance(c.args[0], ast.Attribute) and isinstance(c.args[0].value, ast.Attribute) and c.args[0].value.attr == "C1" and isinstance(c.args[1], ast.Attribute) and isinstance(c.args[1].value, ast.Attribute) and c.args[1].value.attr == "C2" and c.args[0].attr == c.args[1].attr for c in calls)
    im, il = repo.func("encoder.pictures:interleave")
    pa, pb = [a.arg for a in il.args.args][:2]
    ok2 = False
    for n in ast.walk(il):
        if isinstance(n, ast.For) and isinstance(n.iter, ast.Call) and dotted(n.iter.func) == "zip" and [dotted(a) for a in n.iter.args] == [pa, pb] and isinstance(n.target, ast.Tuple):
            va, vb = [dotted(e) for e in n.target.elts]
            apps = [dotted(c.value.args[0]) for c in n.body if isinstance(c, ast.Expr) and isinstance(c.value, ast.Call) and isinstance(c.value.func, ast.Attribute) and c.value.func.attr == "append"]
            ok2 = apps == [va, vb]
    res.check(ok and ok2, "C04.c", "encoder:chroma-interleave", "%s:make_transform_data_ld_lossy" % lm.rel, "low-delay chroma must be interleaved C1 first, C2 second (color_diff_slice_band reads c1 then c2)", by="interleave(C1, C2), first argument first")
    # decoder side of that claim
    cm, cd = repo.func("decoder.transform_data_syntax:color_diff_slice_band")
    stores = [subscript_key(n.targets[0].value.value.value.value, "state") for n in sorted((x for x in ast.walk(cd) if isinstance(x, ast.Assign) and isinstance(x.value, ast.Call) and dotted(x.value.func) == "inverse_quant"), key=lambda x: x.lineno)]
    res.check(stores == ["c1_transform", "c2_transform"], "C04.c", "decoder:chroma-read-order", "%s:color_diff_slice_band" % cm.rel, "color_diff_slice_band stores %s" % stores, by="c1 then c2")
    # slice emission order: rows then slices
    for name in ("make_transform_data_hq_lossless", "make_transform_data_hq_lossy", "make_transform_data_ld_lossy"):
        fm, f = repo.func("encoder.pictures:" + name)
        param = "transform_coeffs"
        ok = False

        def elem_of(it, tgt):
            """(iterated expr, element var) for `for e in X` / `for i, e in enumerate(X)`"""
            if isinstance(it, ast.Call) and dotted(it.func) == "enumerate" and isinstance(tgt, ast.Tuple) and len(tgt.elts) == 2:
                return dotted(it.args[0]), dotted(tgt.elts[1])
            return dotted(it), dotted(tgt)

        for n in ast.walk(f):
            gens = None
            if isinstance(n, (ast.ListComp, ast.GeneratorExp)) and len(n.generators) == 2:
                gens = [(g.iter, g.target) for g in n.generators]
            elif isinstance(n, ast.For) and len(n.body) >= 1 and isinstance(n.body[0], ast.For):
                gens = [(n.iter, n.target), (n.body[0].iter, n.body[0].target)]
            if gens:
                x0, e0 = elem_of(*gens[0])
                x1, e1 = elem_of(*gens[1])
                if x0 == param and x1 == e0:
                    ok = True
        res.check(ok, "C04.c", "encoder:slice-order:%s" % name, "%s:%s" % (fm.rel, name), "slices must be emitted row by row (rows of transform_coeffs outer, slices of a row inner) as transform_data reads them", by="sy outer, sx inner")


def rule_d(repo, res):
    m, fn = repo.func("encoder.pictures:make_transform_data_hq_lossless")
    where = "%s:%s" % (m.rel, fn.name)
    calls = [c for c in ast.walk(fn) if isinstance(c, ast.Call) and dotted(c.func) == "make_hq_slice"]
    ok = bool(calls)
    for c in calls:
        q = [k.value for k in c.keywords if k.arg == "qindex"]
        if not q and len(c.args) >= 5:
            q = [c.args[4]]
        ok = ok and len(q) == 1 and isinstance(q[0], ast.Constant) and q[0].value == 0
        # coefficients passed straight from the transform
        ok = ok and all(norm(a).endswith(".coeff_values") for a in c.args[:3])
    res.check(ok, "C04.d", "lossless:qindex-zero", where, "every lossless slice must be built with the literal qindex=0 from the untouched coefficient lists", by="qindex=0, raw coefficient lists")
    quant = [dotted(c.func) for c in ast.walk(fn) if isinstance(c, ast.Call) and (dotted(c.func) or "").startswith(("quantize", "forward_quant"))]
    res.check(not quant, "C04.d", "lossless:no-quantiser", where, "the lossless path calls %s" % quant, by="no quantiser call")
    # the lossless path is what make_picture_parse takes when codec_features['lossless']
    pm, pp = repo.func("encoder.pictures:make_picture_parse")
    ok = False
    for n in ast.walk(pp):
        if isinstance(n, ast.If) and norm(n.test) == "codec_features['lossless']":
            if any(isinstance(c, ast.Call) and dotted(c.func) == "make_transform_data_hq_lossless" for c in ast.walk(ast.Module(body=n.body, type_ignores=[]))) and not any(isinstance(c, ast.Call) and dotted(c.func) == "make_transform_data_hq_lossless" for c in ast.walk(ast.Module(body=n.orelse, type_ignores=[]))):
                ok = True
    res.check(ok, "C04.d", "lossless:selected-by-flag", "%s:make_picture_parse" % pm.rel, "codec_features['lossless'] must select make_transform_data_hq_lossless", by="selected under the lossless flag")


def rule_e(repo, res):
    from . import c11
    from ..report import Ob

    sub = c11.check(repo, "quick")
    for o in sub.obs:
        res._add(Ob("C04.e", "%s/%s" % (o.rule, o.key), o.where, o.status, o.detail, o.by, o.path))


def rule_f(repo, res):
    # width of the HQ slice length fields, from the description program and the pinned decoder
    from ..serdes_model import SerdesModel

    bm, bfn = repo.func("bitstream.vc2:hq_slice")
    widths = set()
    for n in ast.walk(bfn):
        if isinstance(n, ast.Call) and isinstance(n.func, ast.Attribute) and n.func.attr == "uint_lit" and len(n.args) == 2 and "length" in norm(n.args[0]) and isinstance(n.args[1], ast.Constant):
            widths.add(n.args[1].value)
    dm, dfn = repo.func("decoder.transform_data_syntax:hq_slice")
    dwidths = set()
    for n in ast.walk(dfn):
        if isinstance(n, ast.Call) and dotted(n.func) == "read_uint_lit" and len(n.args) == 2 and isinstance(n.args[1], ast.Constant):
            p = getattr(n, "_parent", None)
            if isinstance(p, ast.BinOp) and isinstance(p.op, ast.Mult):
                dwidths.add(n.args[1].value)
    if len(widths) != 1 or widths != dwidths:
        raise AnalysisError("hq_slice: slice length field width not recognised (serdes %s, decoder %s)" % (sorted(widths), sorted(dwidths)))
    maxval = 2 ** (8 * widths.pop()) - 1
    res.info["hq_slice_length_field_max"] = maxval
    m, fn = repo.func("encoder.pictures:make_transform_data_hq_lossless")
    where = "%s:make_transform_data_hq_lossless" % m.rel
    ret = [n for n in ast.walk(fn) if isinstance(n, ast.Return)]
    if len(ret) != 1 or not isinstance(ret[0].value, ast.Tuple) or not isinstance(ret[0].value.elts[0], ast.Name):
        raise AnalysisError("make_transform_data_hq_lossless: `return scaler, transform_data` not recognised")
    sc = ret[0].value.elts[0].id
    defs = [n for n in ast.walk(fn) if isinstance(n, ast.Assign) and dotted(n.targets[0]) == sc]
    ok = False
    detail = "%s is assigned %d times" % (sc, len(defs))
    FIELDS = {"slice_y_length", "slice_c1_length", "slice_c2_length"}
    if len(defs) == 1:
        v = defs[0].value
        args = v.args if isinstance(v, ast.Call) and dotted(v.func) == "max" else [v]
        detail = "no argument of `%s` is a rounded-up division of the longest component length by at most %d" % (short(v, 80), maxval)
        for a in args:
            if isinstance(a, ast.BinOp) and isinstance(a.op, ast.FloorDiv) and isinstance(a.right, ast.Constant) and isinstance(a.left, ast.BinOp) and isinstance(a.left.op, ast.Add):
                l, r = a.left.left, a.left.right
                if isinstance(l, ast.Constant):
                    l, r = r, l
                if isinstance(l, ast.Name) and isinstance(r, ast.Constant):
                    b, add = a.right.value, r.value
                    src = [d for d in ast.walk(fn) if isinstance(d, ast.Assign) and dotted(d.targets[0]) == l.id]
                    covers = len(src) == 1 and FIELDS <= set(const_str(x.slice) for x in ast.walk(src[0].value) if isinstance(x, ast.Subscript)) and isinstance(src[0].value, ast.Call) and dotted(src[0].value.func) == "max"
                    if not covers:
                        detail = "`%s` is not the maximum over all three component lengths of every slice" % l.id
                    elif not (1 <= b <= maxval):
                        detail = "the scaler is ceil(%s / %d) but the length field holds at most %d: a longest component of %d bytes gets scaler %d and a scaled length of %d, which does not fit" % (l.id, b, maxval, 2 * b - 1, 2, b)
                    elif add < b - 1:
                        detail = "(%s + %d) // %d rounds down: a length just above a multiple of %d gets a scaler one too small" % (l.id, add, b, b)
                    else:
                        ok = True
    res.check(ok, "C04.f", "lossless:scaler-bounds-length-field", where, detail, by="scaler >= ceil(max component length / %d)" % maxval)
    # each of the three lengths is divided rounding up
    done = set()
    for loop in ast.walk(fn):
        if not isinstance(loop, ast.For):
            continue
        adds, divs = set(), set()
        for s_ in loop.body:
            if isinstance(s_, ast.AugAssign) and isinstance(s_.target, ast.Subscript) and const_str(s_.target.slice) in FIELDS:
                if isinstance(s_.op, ast.Add) and norm(s_.value) == "%s - 1" % sc:
                    adds.add(const_str(s_.target.slice))
                if isinstance(s_.op, ast.FloorDiv) and dotted(s_.value) == sc and const_str(s_.target.slice) in adds:
                    divs.add(const_str(s_.target.slice))
        done |= divs
    res.check(done == FIELDS, "C04.f", "lossless:lengths-rounded-up", where, "each of %s must be replaced by ceil(length / scaler) (found for %s)" % (sorted(FIELDS), sorted(done)), by="+= scaler - 1 then //= scaler for all three components")
    # the scaled lengths and scaler reach the stream: scaler stored by the caller into slice_parameters
    callers = 0
    for mod in repo.modules.values():
        for n in ast.walk(mod.tree):
            if isinstance(n, ast.Call) and dotted(n.func) == "make_transform_data_hq_lossless":
                p = getattr(n, "_parent", None)
                if isinstance(p, ast.Assign) and isinstance(p.targets[0], ast.Tuple) and len(p.targets[0].elts) == 2:
                    callers += 1
    res.check(callers >= 1, "C04.f", "lossless:scaler-used-by-caller", where, "no caller unpacks (slice_size_scaler, transform_data)", by="%d caller(s) unpack the scaler" % callers)


ROW_COPIERS = {"deepcopy", "copy.deepcopy", "list", "copy", "copy.copy"}


def _row_fresh(e):
    """e builds a new outer list whose every element is a new object copied from one row"""
    if not (isinstance(e, ast.ListComp) and len(e.generators) == 1 and isinstance(e.generators[0].target, ast.Name)):
        return False
    r = e.generators[0].target.id
    el = e.elt
    if isinstance(el, ast.Call) and dotted(el.func) in ROW_COPIERS and len(el.args) == 1 and dotted(el.args[0]) == r:
        return True
    if isinstance(el, ast.Subscript) and dotted(el.value) == r and isinstance(el.slice, ast.Slice) and el.slice.lower is None and el.slice.upper is None:
        return True
    if isinstance(el, ast.ListComp) and len(el.generators) == 1 and dotted(el.generators[0].iter) == r:
        # ... of the samples themselves: [v for v in row], nothing applied to v, nothing filtered
        g = el.generators[0]
        return isinstance(g.target, ast.Name) and dotted(el.elt) == g.target.id and not g.ifs
    return False


def rule_g(repo, res):
    # in-place per-sample updaters exist in the encoder pipeline (the reason the rule is needed)
    em = repo.mod("pseudocode.picture_encoding")
    inplace = []
    for name, fn in em.funcs.items():
        params = set(a.arg for a in fn.args.args)
        for n in ast.walk(fn):
            t = n.target if isinstance(n, ast.AugAssign) else (n.targets[0] if isinstance(n, ast.Assign) else None)
            if isinstance(t, ast.Subscript) and isinstance(t.value, ast.Subscript) and isinstance(t.value.value, ast.Name) and t.value.value.id in params:
                inplace.append(name)
                break
    res.check(bool(inplace), "C04.g", "in-place-updaters", em.rel, "no in-place per-sample update found in the forward pipeline (rule would be vacuous)", by="in-place per-sample updates in %s" % sorted(inplace))
    n_sites = 0
    for mod in repo.modules.values():
        if mod.name.endswith("pseudocode.picture_encoding"):
            continue
        for fn in [f for f in ast.walk(mod.tree) if isinstance(f, ast.FunctionDef)]:
            for c in ast.walk(fn):
                if not (isinstance(c, ast.Call) and dotted(c.func) == "picture_encode" and len(c.args) == 2):
                    continue
                tgt = repo.resolve(mod.name, "picture_encode")
                if tgt is None or not tgt.mod.endswith("pseudocode.picture_encoding"):
                    continue
                n_sites += 1
                a = c.args[1]
                if isinstance(a, ast.Name):
                    ds = [d for d in ast.walk(fn) if isinstance(d, ast.Assign) and any(isinstance(t, ast.Name) and t.id == a.id for t in d.targets)]
                    if len(ds) == 1:
                        a = ds[0].value
                ok = False
                if isinstance(a, ast.DictComp):
                    ok = _row_fresh(a.value)
                elif isinstance(a, ast.Dict):
                    ok = bool(a.values) and all(_row_fresh(v) for v in a.values)
                res.check(ok, "C04.g", "%s:picture_encode-argument" % fn.name, "%s:%s" % (mod.rel, fn.name), "picture_encode receives `%s`: a whole-object copy keeps rows that the caller's picture shares (e.g. [[v] * w] * h) shared, and the in-place offset removal / transform then updates the one row once per row index -- the encoding is not of the supplied picture; likewise a copy that clamps, scales or filters the samples encodes other values than those supplied (the statement covers every value within the bit depth)" % short(c.args[1], 70), by="rebuilt row by row: every row is a new object holding the caller's samples unchanged")
    if n_sites == 0:
        raise AnalysisError("no call of picture_encode outside the pseudocode package")
    # each component's coefficients are its own array: state['<c>_transform'] = dwt(state, current_picture['<C>']),
    # three unconditional stores (a shared array is updated twice by the in-place DC prediction of low-delay pictures)
    from ..core import pfind as _pfind

    fwd = em.funcs.get("forward_wavelet_transform")
    if fwd is None:
        raise AnalysisError("anchor vanished: picture_encoding.forward_wavelet_transform")
    stv, pic = [a_.arg for a_ in fwd.args.args[:2]]
    body = [b for b in fwd.body if not (isinstance(b, ast.Expr) and isinstance(b.value, ast.Constant))]
    for key, comp in (("y_transform", "Y"), ("c1_transform", "C1"), ("c2_transform", "C2")):
        stores = [b for b in ast.walk(fwd) if isinstance(b, ast.Assign) and subscript_key(b.targets[0], stv) == key]
        ok = len(stores) == 1 and stores[0] in body and norm(stores[0].value) == "dwt(%s, %s['%s'])" % (stv, pic, comp)
        res.check(ok, "C04.g", "forward_wavelet_transform:%s-own-array" % key, "%s:forward_wavelet_transform" % em.rel, "%s['%s'] must be assigned exactly once, unconditionally, the result of dwt(%s, %s['%s']) (found %s): sharing one coefficient array between components lets a later in-place step (DC prediction) act on it twice" % (stv, key, stv, pic, comp, [short(x.value, 40) for x in stores]), by="%s = dwt(state, picture['%s'])" % (key, comp))
