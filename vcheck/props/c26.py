"""C26 Bitstream viewer never reports an internal error (structural part).

Status 255 is produced only when the innermost relevant frame of a traceback
is in the viewer's own file, i.e. when the monitor (__call__, _print_value and
the formatters they call) throws.  The two ways the monitor's own code can
throw on arbitrary input are decidable from tables: a formatter applied to a
value of a type it cannot format, and a target that is not a declared entry.
"""
import ast
from collections import OrderedDict

from ..core import AnalysisError, class_methods, const_str, dotted, norm, short
from ..report import Result
from .. import tables
from ..serdes_model import SerdesModel

VIEWER = "scripts.vc2_bitstream_viewer"

# formatter class -> Python types of value it can format without raising
# (derived from the __call__ bodies in string_formatters.py; checked below)
NUMBER_FAMILY = {"Number", "Hex", "Dec", "Oct", "Bin"}
LIST_FAMILY = {"List", "MultilineList"}


def formatter_accepts(repo):
    """class name -> set of kinds {'int','bool','bitarray','bytes','list','any'}"""
    m = repo.mod("string_formatters")
    out = {}
    for name, cls in m.classes.items():
        meth = class_methods(cls)
        call = meth.get("__call__")
        bases = [dotted(b) for b in cls.bases]
        if call is None:
            # inherits __call__
            for b in bases:
                if b in out:
                    out[name] = out[b]
            continue
        p = call.args.args[1].arg
        t = norm(call)
        if "%s.to01()" % p in t:
            out[name] = {"bitarray"}
        elif "bytearray(%s)" % p in t:
            out[name] = {"bytes"}
        elif "abs(%s)" % p in t and "%s < 0" % p in t:
            out[name] = {"int", "bool"}
        elif "bool(%s)" % p in t:
            out[name] = {"any"}
        elif "for " in t and " in %s" % p in t:
            out[name] = {"list"}
        elif "str(%s)" % p in t or "repr(%s)" % p in t or ("{}" in t and ".format" in t and "for " not in t):
            out[name] = {"any"}
        else:
            out[name] = {"?"}
    if not {"Hex", "Bits", "Bytes", "Bool", "List"} <= set(out):
        raise AnalysisError("string_formatters: formatter classes not recognised: %s" % sorted(out))
    return out


def check(repo, tier="quick"):
    res = Result("C26")
    res.explanation = (
        "Agreement between the formatter declared for every bitstream target (vc2_fixeddicts) and the Python type the serdes "
        "primitive that reads it yields, so that the viewer's monitor cannot throw while formatting; targets are declared entries; "
        "handler order and the single source of the internal-error status in BitstreamViewer.run."
    )
    res.rule("C26.f", "bug patterns with zero expected instances in this property's modules: swapped same-named arguments, lower-bound guard followed by a decrement of the guarded value, presence of a dictionary entry decided by truthiness")
    res.rule("C26.a", "the formatter declared for a target accepts the type its serdes primitive yields (Bits<->bitarray, Bytes<->bytes, Number family<->int, List family only on list targets)")
    res.rule("C26.b", "every target the description program reads is a declared entry of its context type (entry_objs[target] cannot miss)")
    res.rule("C26.c", "in BitstreamViewer.run the termination/EOF/interrupt handlers precede the generic handler; 255 is returned only under is_internal_error; is_internal_error resets on description-program frames")
    res.rule("C26.d", "the monitor formats list elements with a total formatter and reads the value it was just given")
    res.rule("C26.g", "every formatter declared for a fixed-dictionary entry anywhere in the package (bitstream dictionaries and the decoder State the viewer can print) is an instance of a string_formatters class, None, or a repository function in which every subscript is total (index drawn from iterating the same container, or guarded by a membership test) and which raises nothing itself")
    res.rule("C26.h", "the viewer re-reads every value it displays by seeking the reader back to the value's start: the reader's bounded-block accounting across seek() and its byte/bit positioning are the reviewed ones (C20.b bookkeeping agreement of reader and writer, C20.g seek order re-evaluated), otherwise a later seek inside the same block raises inside the monitor")
    res.rule("C26.e", "every container access (subscript) in the viewer's monitor code is total: declared-list key, index from range(len(same container)), target-keyed entry lookup, fixed tuple position")

    acc = formatter_accepts(repo)
    res.info["formatters"] = {k: sorted(v) for k, v in acc.items()}
    sm = SerdesModel(repo)
    co = sm.context_ops()
    fds = {fd.var: fd for fd in tables.fixeddicts(repo) if fd.mod.name.endswith("bitstream.vc2_fixeddicts")}
    n = 0
    for T, ops in co.items():
        fd = fds.get(T)
        if fd is None:
            continue
        lists = set(t for o in ops if o.op == "declare_list" for t in o.targets)
        where = "vc2_conformance/bitstream/vc2_fixeddicts.py:%s" % T
        kinds = {}
        for o in ops:
            if o.kind in ("int", "bool", "bitarray", "bytes"):
                for t in o.targets:
                    kinds.setdefault(t, set()).add(o.kind)
        for t, ks in kinds.items():
            e = fd.entries.get(t)
            res.check(e is not None, "C26.b", "%s.%s:declared" % (T, t), where, "target %r read in context %s is not a declared entry: the monitor's entry_objs[%r] lookup raises KeyError inside the viewer" % (t, T, t), by="declared")
            if e is None:
                continue
            n += 1
            f = e.formatter
            is_list = t in lists
            if f is None:
                res.ok("C26.a", "%s.%s:formatter" % (T, t), where, by="default/enum formatter (total)")
                continue
            a = acc.get(f, {"?"})
            if is_list:
                ok = f in LIST_FAMILY or "any" in a
                det = "list target %r has formatter %s which does not format lists" % (t, f)
            elif f in LIST_FAMILY:
                ok = False
                det = "scalar target %r (%s) has the list formatter %s: iterating the value raises TypeError inside the viewer" % (t, sorted(ks), f)
            else:
                ok = "any" in a or ks <= a
                det = "target %r is read as %s but its formatter %s accepts only %s: formatting raises inside the viewer (internal-error status)" % (t, sorted(ks), f, sorted(a))
            res.check(ok, "C26.a", "%s.%s:formatter" % (T, t), where, det, by="%s accepts %s" % (f, sorted(ks)))
    res.info["value_targets_checked"] = n
    rule_c(repo, res)
    rule_d(repo, res)
    rule_e(repo, res, sm)
    rule_mixin(repo, res)
    rule_g(repo, res, acc)
    res.floor("C26.g", 30)
    rule_h(repo, res)
    res.floor("C26.h", 10)
    from .. import intlimit

    intlimit.rule(repo, res, "C26.g")
    from .. import lints as _lints

    _lints.rule(repo, res, "C26.f", ['scripts.vc2_bitstream_viewer', 'string_formatters', 'string_utils'])
    res.floor("C26.f", 4)
    res.floor("C26.e", 12)
    res.floor("C26.a", 80)
    res.floor("C26.b", 80)
    res.floor("C26.c", 4)
    res.floor("C26.d", 2)
    res.assumptions = ["display options other than the defaults are not analysed", "exceptions raised by print()/terminal handling are outside the claim"]
    res.trusted = ["formatter acceptance table derived from the __call__ bodies of string_formatters.py"]
    return res


def rule_c(repo, res):
    m, cls = repo.cls(VIEWER + ":BitstreamViewer")
    run = class_methods(cls).get("run")
    if run is None:
        raise AnalysisError("anchor vanished: BitstreamViewer.run")
    where = "%s:BitstreamViewer.run" % m.rel
    main_try = None
    for n in ast.walk(run):
        if isinstance(n, ast.Try) and any(isinstance(c, ast.Call) and dotted(c.func) == "bitstream.parse_stream" for c in ast.walk(ast.Module(body=n.body, type_ignores=[]))):
            main_try = n
    if main_try is None:
        raise AnalysisError("BitstreamViewer.run: try block around parse_stream not found")
    names = [dotted(h.type) if h.type is not None else "<bare>" for h in main_try.handlers]
    generic = [i for i, x in enumerate(names) if x in ("Exception", "BaseException", "<bare>")]
    need = ["BitstreamViewer._TerminateSuccess", "BitstreamViewer._TerminateError", "EOFError", "KeyboardInterrupt"]
    ok = bool(generic) and all(x in names and names.index(x) < generic[0] for x in need)
    res.check(ok, "C26.c", "run:handler-order", where, "handlers are %s: the termination, EOF and interrupt handlers must come before the generic one" % names, by=" < ".join(names))
    # 255 only under is_internal_error
    rets = []
    for n in ast.walk(run):
        if isinstance(n, ast.Assign) and dotted(n.targets[0]) == "return_code" and isinstance(n.value, ast.Constant) and n.value.value == 255:
            p = getattr(n, "_parent", None)
            rets.append(isinstance(p, ast.If) and isinstance(p.test, ast.Call) and dotted(p.test.func) == "is_internal_error" and n in p.body)
    res.check(len(rets) == 1 and rets[0], "C26.c", "run:255-only-when-internal", where, "status 255 must be assigned exactly once, under `if is_internal_error(tb):`", by="single assignment under is_internal_error")
    # codes of the specific handlers
    codes = {}
    for h in main_try.handlers:
        for s in h.body:
            if isinstance(s, ast.Assign) and dotted(s.targets[0]) == "return_code" and isinstance(s.value, ast.Constant):
                codes[dotted(h.type)] = s.value.value
    res.check(codes.get("BitstreamViewer._TerminateSuccess") == 0 and codes.get("EOFError") not in (None, 0, 255) and codes.get("BitstreamViewer._TerminateError") not in (None, 0, 255), "C26.c", "run:status-codes", where, "termination/EOF handlers assign %s" % codes, by="success 0, EOF and parse failures non-zero and not 255")
    # is_internal_error: True at viewer frames, False at vc2.py frames, last one wins
    im, ie = repo.func(VIEWER + ":is_internal_error")
    ok, det = _frame_rule(repo, im, ie)
    res.check(ok, "C26.c", "is_internal_error:frame-rule", "%s:is_internal_error" % im.rel, det, by="flag starts False; set True at frames of the viewer's file, False at frames of bitstream/vc2.py; last relevant frame decides")


def _frame_rule(repo, m, fn):
    """is_internal_error: flag initialised False; inside one loop over traceback.extract_tb(tb) it is set
    True when the frame's file is this script and False when it is bitstream/vc2.py; the flag is returned."""
    rets = [r for r in ast.walk(fn) if isinstance(r, ast.Return)]
    if len(rets) != 1 or not isinstance(rets[0].value, ast.Name):
        return False, "is_internal_error must return its flag variable"
    flag = rets[0].value.id
    body = [b for b in fn.body if not (isinstance(b, ast.Expr) and isinstance(b.value, ast.Constant))]
    init = [b for b in body if isinstance(b, ast.Assign) and dotted(b.targets[0]) == flag]
    if len(init) != 1 or not (isinstance(init[0].value, ast.Constant) and init[0].value.value is False):
        return False, "the flag must be initialised to False once, before the loop over the frames"
    loops = [b for b in body if isinstance(b, ast.For)]
    if len(loops) != 1 or body.index(init[0]) > body.index(loops[0]) or body.index(loops[0]) > body.index(rets[0]):
        return False, "expected initialisation, one loop over the frames, then the return"
    loop = loops[0]
    # the iterable is extract_tb(<param>) (possibly through a local)
    it = loop.iter
    if isinstance(it, ast.Name):
        ds = [a.value for a in body if isinstance(a, ast.Assign) and dotted(a.targets[0]) == it.id]
        it = ds[0] if len(ds) == 1 else it
    if not (isinstance(it, ast.Call) and (dotted(it.func) or "").endswith("extract_tb") and it.args and dotted(it.args[0]) == fn.args.args[0].arg):
        return False, "the loop must run over traceback.extract_tb(tb)"
    # the two module-level file names
    def origin(name):
        vals = m.assigns.get(name, [])
        if len(vals) == 1 and isinstance(vals[0], ast.Call) and (dotted(vals[0].func) or "").endswith("getsourcefile") and vals[0].args:
            a = vals[0].args[0]
            if isinstance(a, ast.Subscript) and "sys.modules" in norm(a) and "__name__" in norm(a):
                return "self"
            d = dotted(a) or ""
            if d.endswith("bitstream.vc2") or d == "vc2":
                return "vc2"
        return None
    sets = {}
    other = []
    for n in ast.walk(loop):
        if isinstance(n, ast.Assign) and dotted(n.targets[0]) == flag:
            p = getattr(n, "_parent", None)
            if isinstance(p, ast.If) and n in p.body and isinstance(p.test, ast.Compare) and len(p.test.ops) == 1 and isinstance(p.test.ops[0], ast.Eq) and isinstance(n.value, ast.Constant):
                names = [dotted(p.test.left), dotted(p.test.comparators[0])]
                o = [origin(x) for x in names if x and origin(x)]
                if len(o) == 1:
                    sets[o[0]] = n.value.value
                    continue
            other.append(short(n))
        if isinstance(n, (ast.Break, ast.Return, ast.Continue)):
            other.append(short(n))
    if other:
        return False, "unrecognised statements in the frame loop: %s" % other
    if sets != {"self": True, "vc2": False}:
        return False, "the flag must become True at frames of the viewer's own file and False at frames of bitstream/vc2.py (found %s)" % sets
    return True, ""


MONITOR_METHODS = ("__call__", "_print_value", "_print_omitted_bits", "_print_internal_state", "_update_status_line", "_hide_status_line")

# Container accesses in the monitor that are safe for a reason outside the
# viewer file.  (container expression suffix, key) -> reason, each re-verified
# below from the description program / serdes source.
SANCTIONED_KEYS = {
    ("context", "sequences"): "parse_stream declares the 'sequences' list before any value is read",
    ("sequence", "data_units"): "parse_sequence declares the 'data_units' list before any value is read",
}


def _guards(node, stop):
    """[(test, polarity)] of the if-statements enclosing node, innermost first"""
    out = []
    c, p = node, getattr(node, "_parent", None)
    while p is not None and c is not stop:
        if isinstance(p, ast.If):
            if any(c is x for x in p.body):
                out.append((p.test, True))
            elif any(c is x for x in p.orelse):
                out.append((p.test, False))
        c, p = p, getattr(p, "_parent", None)
    return out


def rule_d(repo, res):
    m, cls = repo.cls(VIEWER + ":BitstreamViewer")
    pv = class_methods(cls).get("_print_value")
    if pv is None:
        raise AnalysisError("anchor vanished: BitstreamViewer._print_value")
    where = "%s:BitstreamViewer._print_value" % m.rel
    params = [a.arg for a in pv.args.args]
    target_p, value_p = params[3], params[4]
    # the callable applied to the value that was read
    fvars = set()
    for n in ast.walk(pv):
        if isinstance(n, ast.Call) and isinstance(n.func, ast.Name) and len(n.args) == 1 and isinstance(n.args[0], ast.Name) and n.args[0].id == value_p and n.func.id not in ("str", "repr"):
            fvars.add(n.func.id)
    if len(fvars) != 1:
        raise AnalysisError("_print_value: the formatter applied to the value was not found (%s)" % sorted(fvars))
    fv = fvars.pop()
    defs = [n for n in ast.walk(pv) if isinstance(n, ast.Assign) and any(isinstance(t, ast.Name) and t.id == fv for t in n.targets)]
    lookup_ok = True
    n_lookup = 0
    bad_defs = []
    list_ok = False
    for d in defs:
        v = d.value
        if isinstance(v, ast.Name) and v.id == "str":
            continue
        if isinstance(v, ast.Attribute) and v.attr == "to_string" and isinstance(v.value, ast.Name):
            # one local alias step: entry = <context>.entry_objs[target]; formatter = entry.to_string
            al = [a for a in ast.walk(pv) if isinstance(a, ast.Assign) and any(isinstance(t, ast.Name) and t.id == v.value.id for t in a.targets) and not (isinstance(a.value, ast.Constant) and a.value.value is None)]
            if len(al) == 1 and _guards(al[0], pv) and [id(t) for t, _ in _guards(al[0], pv)] == [id(t) for t, _ in _guards(d, pv)]:
                v = ast.Attribute(value=al[0].value, attr="to_string", ctx=ast.Load())
        if isinstance(v, ast.Attribute) and v.attr == "to_string" and isinstance(v.value, ast.Subscript) and isinstance(v.value.value, ast.Attribute) and v.value.value.attr == "entry_objs" and dotted(v.value.slice) == target_p:
            n_lookup += 1
            obj = norm(v.value.value.value)
            g = _guards(d, pv)
            if not any(pol and isinstance(t, ast.Call) and dotted(t.func) == "hasattr" and len(t.args) == 2 and norm(t.args[0]) == obj and const_str(t.args[1]) == "entry_objs" for t, pol in g):
                lookup_ok = False
            continue
        if isinstance(v, ast.Call) and dotted(v.func) == "getattr" and len(v.args) == 3 and isinstance(v.args[2], ast.Name) and v.args[2].id == "str":
            # total: falls back to str when the attribute is missing
            g = _guards(d, pv)
            if any(pol and isinstance(t, ast.Compare) and isinstance(t.ops[0], ast.IsNot) and dotted(t.comparators[0]) == value_p for t, pol in g):
                list_ok = True
            continue
        bad_defs.append(short(d, 100))
    res.check(n_lookup >= 1 and lookup_ok and not bad_defs, "C26.d", "_print_value:formatter-lookup-guarded", where, ("the formatter applied to the value is assigned by %s: only str, <context>.entry_objs[target].to_string under hasattr(<context>, 'entry_objs'), or getattr(..., ..., str) are total" % bad_defs) if bad_defs else "the entry_objs lookup must be guarded by hasattr(cur_context, 'entry_objs') with str as the fallback", by="guarded lookup, str fallback")
    res.check(list_ok and not bad_defs, "C26.d", "_print_value:list-elements", where, "list elements (context value is not the value just read) must be formatted through a total fallback (getattr(formatter, name, str))", by="getattr(formatter, 'formatter', str)")
    # Entry.to_string exists
    fm, ecls = repo.cls("fixeddict:Entry")
    res.check("to_string" in class_methods(ecls), "C26.d", "Entry.to_string:defined", "%s:Entry" % fm.rel, "fixeddict.Entry must define to_string", by="defined")


def rule_e(repo, res, sm):
    """C26.e: container accesses of the monitor are total."""
    m, cls = repo.cls(VIEWER + ":BitstreamViewer")
    meth = class_methods(cls)
    # the monitor's own call closure inside the class
    todo, seen = ["__call__"], []
    while todo:
        f = todo.pop()
        if f in seen or f not in meth:
            continue
        seen.append(f)
        for n in ast.walk(meth[f]):
            if isinstance(n, ast.Call) and isinstance(n.func, ast.Attribute) and isinstance(n.func.value, ast.Name) and n.func.value.id == "self" and n.func.attr in meth:
                todo.append(n.func.attr)
    res.info["monitor_methods"] = sorted(seen)
    if not {"__call__", "_print_value"} <= set(seen):
        raise AnalysisError("monitor closure lost _print_value: %s" % seen)
    # verify the sanction reasons from the description program
    first_ops = {}
    for fn_name, want in (("parse_stream", "sequences"), ("parse_sequence", "data_units")):
        ops = sm.ops(fn_name)
        lead = None
        for o in ops:
            if o.op == "declare_list" and want in o.targets:
                lead = True
                break
            if o.kind in ("int", "bool", "bitarray", "bytes") or o.op in ("subcontext_enter", "call"):
                lead = False
                break
        first_ops[want] = bool(lead)
    for f in seen:
        fn = meth[f]
        where = "%s:BitstreamViewer.%s" % (m.rel, f)
        for n in ast.walk(fn):
            if not isinstance(n, ast.Subscript) or isinstance(n.slice, ast.Slice):
                continue
            key = "%s:%s" % (f, short(n, 70))
            k = const_str(n.slice)
            cont = n.value
            # (1) sanctioned declared-list keys
            if k is not None:
                suffix = cont.attr if isinstance(cont, ast.Attribute) else (cont.id if isinstance(cont, ast.Name) else None)
                if (suffix, k) in SANCTIONED_KEYS:
                    res.check(first_ops.get(k, False), "C26.e", key, where, "%r is no longer declared before the first value of its context is read, so the monitor's lookup can miss" % k, by=SANCTIONED_KEYS[(suffix, k)])
                    continue
            # (2) index drawn from range(len(<same container>))
            if isinstance(n.slice, ast.Name):
                ok = False
                p = getattr(n, "_parent", None)
                while p is not None and p is not fn:
                    if isinstance(p, ast.For) and isinstance(p.target, ast.Name) and p.target.id == n.slice.id:
                        it = p.iter
                        if isinstance(it, ast.Call) and dotted(it.func) == "reversed" and it.args:
                            it = it.args[0]
                        if isinstance(it, ast.Call) and dotted(it.func) == "range" and len(it.args) == 1 and isinstance(it.args[0], ast.Call) and dotted(it.args[0].func) == "len" and norm(it.args[0].args[0]) == norm(cont):
                            resized = [c for c in ast.walk(p) if isinstance(c, ast.Call) and isinstance(c.func, ast.Attribute) and c.func.attr in ("pop", "append", "remove", "insert", "clear", "extend") and norm(c.func.value) == norm(cont)] + [c for c in ast.walk(p) if isinstance(c, ast.Delete)]
                            ok = not resized
                    p = getattr(p, "_parent", None)
                if ok:
                    res.ok("C26.e", key, where, by="index ranges over range(len(%s)), container not resized in the loop" % short(cont, 40))
                    continue
                # (3) entry_objs[target] / cur_context[target] with the monitor's target parameter
                params = [a.arg for a in fn.args.args]
                if isinstance(cont, ast.Attribute) and cont.attr in ("entry_objs", "cur_context") and n.slice.id in params and n.slice.id == "target":
                    res.ok("C26.e", key, where, by="keyed by the target just read (declared entry: C26.b; the value is stored before the monitor is called)")
                    continue
            # (4) constant index into a tuple-returning call / last element of a non-empty path
            if isinstance(n.slice, ast.Constant) and isinstance(n.slice.value, int):
                if isinstance(cont, ast.Call) and dotted(cont.func) == "get_terminal_size" and n.slice.value in (0, 1):
                    res.ok("C26.e", key, where, by="fixed position of the (columns, lines) pair")
                    continue
            if isinstance(n.slice, ast.UnaryOp) and isinstance(n.slice.op, ast.USub) and isinstance(n.slice.operand, ast.Constant) and n.slice.operand.value == 1 and isinstance(cont, ast.Name):
                defs = [a for a in ast.walk(fn) if isinstance(a, ast.Assign) and any(isinstance(t, ast.Name) and t.id == cont.id for t in a.targets)]
                if len(defs) == 1 and isinstance(defs[0].value, ast.Call) and isinstance(defs[0].value.func, ast.Attribute) and defs[0].value.func.attr == "path" and len(defs[0].value.args) == 1 and dotted(defs[0].value.args[0]) == "target":
                    res.check(_path_nonempty(repo), "C26.e", key, where, "SerDes.path(target) no longer appends the target for a non-None argument", by="SerDes.path(target) ends with the target: non-empty")
                    continue
            res.bad("C26.e", key, where, "container access `%s` in the viewer's monitor is not of a form known to be total (declared-list key, index from range(len(same container)), target-keyed entry lookup): an IndexError/KeyError here is raised from the viewer's own frame and reported as an internal error (status 255)" % short(n, 80))


def rule_mixin(repo, res):
    """the monitor runs after the primitive has stored its value, with (serdes, target, value)"""
    m, cls = repo.cls("bitstream.serdes:MonitoredMixin")
    n = 0
    for name, fn in class_methods(cls).items():
        if name.startswith("__"):
            continue
        where = "%s:MonitoredMixin.%s" % (m.rel, name)
        body = [b for b in fn.body if not (isinstance(b, ast.Expr) and isinstance(b.value, ast.Constant))]
        ok = len(body) == 3
        if ok:
            a, b, c = body
            tp = fn.args.args[1].arg
            ok = (isinstance(a, ast.Assign) and isinstance(a.value, ast.Call) and isinstance(a.value.func, ast.Attribute) and a.value.func.attr == name and isinstance(a.value.func.value, ast.Call) and dotted(a.value.func.value.func) == "super"
                  and a.value.args and dotted(a.value.args[0]) == tp and isinstance(a.targets[0], ast.Name))
            if ok:
                v = a.targets[0].id
                ok = (isinstance(b, ast.Expr) and isinstance(b.value, ast.Call) and dotted(b.value.func) == "self.monitor" and [dotted(x) for x in b.value.args] == ["self", tp, v]
                      and isinstance(c, ast.Return) and dotted(c.value) == v)
        res.check(ok, "C26.e", "MonitoredMixin.%s:monitor-after-store" % name, where, "the monitored primitive must be `value = super().%s(target, ...); self.monitor(self, target, value); return value`" % name, by="monitor(self, target, value) after the primitive")
        n += 1
    if n < 6:
        raise AnalysisError("MonitoredMixin: only %d monitored primitives found" % n)


def _path_nonempty(repo):
    m, cls = repo.cls("bitstream.serdes:SerDes")
    fn = class_methods(cls).get("path")
    if fn is None:
        return False
    # `if target is not None: full_target_stack += [target]` and one out.append per zipped element
    grows = False
    for n in ast.walk(fn):
        if isinstance(n, ast.If) and isinstance(n.test, ast.Compare) and isinstance(n.test.ops[0], ast.IsNot) and dotted(n.test.left) == "target":
            adds = [b for b in n.body if isinstance(b, ast.AugAssign) and isinstance(b.op, ast.Add) and isinstance(b.value, ast.List) and len(b.value.elts) == 1]
            grows = len(adds) >= 3
    appends = False
    for n in ast.walk(fn):
        if isinstance(n, ast.For) and isinstance(n.iter, ast.Call) and dotted(n.iter.func) == "zip" and len(n.iter.args) == 3:
            first = n.body[0]
            appends = isinstance(first, ast.Expr) and isinstance(first.value, ast.Call) and isinstance(first.value.func, ast.Attribute) and first.value.func.attr == "append"
    return grows and appends


def _total_function(fn):
    """reasons why a custom formatter function may raise on a value of the documented shape: constant/foreign subscripts
    without a membership guard, raise/assert statements"""
    why = []
    params = set(a.arg for a in fn.args.args)
    # names bound by iterating something
    iter_src = {}
    for n in ast.walk(fn):
        gens = []
        if isinstance(n, ast.For):
            gens = [(n.target, n.iter, [])]
        elif isinstance(n, (ast.ListComp, ast.SetComp, ast.GeneratorExp, ast.DictComp)):
            gens = [(g.target, g.iter, g.ifs) for g in n.generators]
        for tgt, it, ifs in gens:
            for x in ast.walk(tgt):
                if isinstance(x, ast.Name):
                    iter_src[x.id] = (it, ifs)
    for n in ast.walk(fn):
        if isinstance(n, (ast.Raise, ast.Assert)):
            why.append("%s at line %d" % (type(n).__name__.lower(), n.lineno))
        if isinstance(n, ast.Subscript) and isinstance(n.ctx, ast.Load):
            base = norm(n.value)
            sl = n.slice
            if isinstance(sl, ast.Slice):
                continue
            ok = False
            if isinstance(sl, ast.Name) and sl.id in iter_src:
                it, ifs = iter_src[sl.id]
                # iterating the container itself (possibly sorted()/keys()/sliced) or filtered by membership in it
                ok = base in norm(it) or any(norm(t) == "%s in %s" % (sl.id, base) for t in ifs)
            if not ok:
                # membership guard around the access
                p = getattr(n, "_parent", None)
                c = n
                while p is not None and p is not fn and not ok:
                    if isinstance(p, (ast.If, ast.IfExp)) and norm(p.test) == "%s in %s" % (norm(sl), base) and (c is p.body or (isinstance(p.body, list) and any(c is x for x in p.body))):
                        ok = True
                    c, p = p, getattr(p, "_parent", None)
            if not ok:
                why.append("`%s` is not guarded (line %d)" % (short(n, 40), n.lineno))
    return why


def rule_g(repo, res, acc):
    for fd in tables.fixeddicts(repo):
        where = "%s:%s" % (fd.mod.rel, fd.var or fd.name)
        for e in fd.entries.values():
            if not isinstance(e.node, ast.Call):
                continue
            for kw in e.node.keywords:
                if kw.arg not in ("formatter", "friendly_formatter"):
                    continue
                v = kw.value
                key = "%s.%s:%s" % (fd.var or fd.name, e.name, kw.arg)
                if isinstance(v, ast.Constant) and v.value is None:
                    res.ok("C26.g", key, where, by="None")
                elif isinstance(v, ast.Call) and dotted(v.func) in acc:
                    res.ok("C26.g", key, where, by="string_formatters.%s" % dotted(v.func))
                else:
                    fn = None
                    if isinstance(v, ast.Name):
                        sym = repo.resolve(fd.mod.name, v.id)
                        if sym is not None and getattr(sym, "kind", None) == "func":
                            fn = sym.node
                    elif isinstance(v, ast.Lambda):
                        fn = v
                    if fn is None:
                        res.check(False, "C26.g", key, where, "the %s `%s` is neither a string_formatters instance nor a function of this package that can be examined" % (kw.arg, short(v, 50)), by="")
                        continue
                    for p_ in ast.walk(fn):
                        for ch in ast.iter_child_nodes(p_):
                            ch._parent = p_
                    why = _total_function(fn) if not isinstance(fn, ast.Lambda) else []
                    res.check(not why, "C26.g", key, where, "the custom %s %s can raise on a value the program legitimately stores (%s): printing the dictionary then fails inside the viewer's monitor, which is reported as an internal error" % (kw.arg, short(v, 40), "; ".join(why[:4])), by="every access total")


def rule_h(repo, res):
    from . import c20
    from ..report import Ob
    from ..core import class_methods as _cm

    rm, rd = repo.cls(c20.IO + ":BitstreamReader")
    wm, wr = repo.cls(c20.IO + ":BitstreamWriter")
    R, W = _cm(rd), _cm(wr)
    sub = Result("C20")
    c20.rule_b(repo, sub, R, W, rm.rel)
    c20.rule_g(repo, sub, R, W, rm.rel)
    for o in sub.obs:
        res._add(Ob("C26.h", "%s/%s" % (o.rule, o.key), o.where, o.status, o.detail, o.by, o.path))
