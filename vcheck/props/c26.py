"""C26 Bitstream viewer never reports an internal error (structural part).

Status 255 is produced only when the innermost relevant frame of a traceback
is in the viewer's own file, i.e. when the monitor (__call__, _print_value and
the formatters they call) throws.  The two ways the monitor's own code can
throw on arbitrary input are decidable from tables: a formatter applied to a
value of a type it cannot format, and a target that is not a declared entry.
"""
import ast
from collections import OrderedDict

from ..core import AnalysisError, class_methods, const_str, dotted, norm, short
from ..report import Result
from .. import tables
from ..serdes_model import SerdesModel

VIEWER = "scripts.vc2_bitstream_viewer"

# formatter class -> Python types of value it can format without raising
# (derived from the __call__ bodies in string_formatters.py; checked below)
NUMBER_FAMILY = {"Number", "Hex", "Dec", "Oct", "Bin"}
LIST_FAMILY = {"List", "MultilineList"}


def formatter_accepts(repo):
    """class name -> set of kinds {'int','bool','bitarray','bytes','list','any'}"""
    m = repo.mod("string_formatters")
    out = {}
    for name, cls in m.classes.items():
        meth = class_methods(cls)
        call = meth.get("__call__")
        bases = [dotted(b) for b in cls.bases]
        if call is None:
            # inherits __call__
            for b in bases:
                if b in out:
                    out[name] = out[b]
            continue
        p = call.args.args[1].arg
        t = norm(call)
        if "%s.to01()" % p in t:
            out[name] = {"bitarray"}
        elif "bytearray(%s)" % p in t:
            out[name] = {"bytes"}
        elif "abs(%s)" % p in t and "%s < 0" % p in t:
            out[name] = {"int", "bool"}
        elif "bool(%s)" % p in t:
            out[name] = {"any"}
        elif "for " in t and " in %s" % p in t:
            out[name] = {"list"}
        elif "str(%s)" % p in t or "repr(%s)" % p in t or ("{}" in t and ".format" in t and "for " not in t):
            out[name] = {"any"}
        else:
            out[name] = {"?"}
    if not {"Hex", "Bits", "Bytes", "Bool", "List"} <= set(out):
        raise AnalysisError("string_formatters: formatter classes not recognised: %s" % sorted(out))
    return out


def check(repo, tier="quick"):
    res = Result("C26")
    res.explanation = (
        "Agreement between the formatter declared for every bitstream target (vc2_fixeddicts) and the Python type the serdes "
        "primitive that reads it yields, so that the viewer's monitor cannot throw while formatting; targets are declared entries; "
        "handler order and the single source of the internal-error status in BitstreamViewer.run."
    )
    res.rule("C26.a", "the formatter declared for a target accepts the type its serdes primitive yields (Bits<->bitarray, Bytes<->bytes, Number family<->int, List family only on list targets)")
    res.rule("C26.b", "every target the description program reads is a declared entry of its context type (entry_objs[target] cannot miss)")
    res.rule("C26.c", "in BitstreamViewer.run the termination/EOF/interrupt handlers precede the generic handler; 255 is returned only under is_internal_error; is_internal_error resets on description-program frames")
    res.rule("C26.d", "the monitor formats list elements with a total formatter and reads the value it was just given")

    acc = formatter_accepts(repo)
    res.info["formatters"] = {k: sorted(v) for k, v in acc.items()}
    sm = SerdesModel(repo)
    co = sm.context_ops()
    fds = {fd.var: fd for fd in tables.fixeddicts(repo) if fd.mod.name.endswith("bitstream.vc2_fixeddicts")}
    n = 0
    for T, ops in co.items():
        fd = fds.get(T)
        if fd is None:
            continue
        lists = set(t for o in ops if o.op == "declare_list" for t in o.targets)
        where = "vc2_conformance/bitstream/vc2_fixeddicts.py:%s" % T
        kinds = {}
        for o in ops:
            if o.kind in ("int", "bool", "bitarray", "bytes"):
                for t in o.targets:
                    kinds.setdefault(t, set()).add(o.kind)
        for t, ks in kinds.items():
            e = fd.entries.get(t)
            res.check(e is not None, "C26.b", "%s.%s:declared" % (T, t), where, "target %r read in context %s is not a declared entry: the monitor's entry_objs[%r] lookup raises KeyError inside the viewer" % (t, T, t), by="declared")
            if e is None:
                continue
            n += 1
            f = e.formatter
            is_list = t in lists
            if f is None:
                res.ok("C26.a", "%s.%s:formatter" % (T, t), where, by="default/enum formatter (total)")
                continue
            a = acc.get(f, {"?"})
            if is_list:
                ok = f in LIST_FAMILY or "any" in a
                det = "list target %r has formatter %s which does not format lists" % (t, f)
            elif f in LIST_FAMILY:
                ok = False
                det = "scalar target %r (%s) has the list formatter %s: iterating the value raises TypeError inside the viewer" % (t, sorted(ks), f)
            else:
                ok = "any" in a or ks <= a
                det = "target %r is read as %s but its formatter %s accepts only %s: formatting raises inside the viewer (internal-error status)" % (t, sorted(ks), f, sorted(a))
            res.check(ok, "C26.a", "%s.%s:formatter" % (T, t), where, det, by="%s accepts %s" % (f, sorted(ks)))
    res.info["value_targets_checked"] = n
    rule_c(repo, res)
    rule_d(repo, res)
    res.floor("C26.a", 80)
    res.floor("C26.b", 80)
    res.floor("C26.c", 4)
    res.floor("C26.d", 2)
    res.assumptions = ["display options other than the defaults are not analysed", "exceptions raised by print()/terminal handling are outside the claim"]
    res.trusted = ["formatter acceptance table derived from the __call__ bodies of string_formatters.py"]
    return res


def rule_c(repo, res):
    m, cls = repo.cls(VIEWER + ":BitstreamViewer")
    run = class_methods(cls).get("run")
    if run is None:
        raise AnalysisError("anchor vanished: BitstreamViewer.run")
    where = "%s:BitstreamViewer.run" % m.rel
    main_try = None
    for n in ast.walk(run):
        if isinstance(n, ast.Try) and any(isinstance(c, ast.Call) and dotted(c.func) == "bitstream.parse_stream" for c in ast.walk(ast.Module(body=n.body, type_ignores=[]))):
            main_try = n
    if main_try is None:
        raise AnalysisError("BitstreamViewer.run: try block around parse_stream not found")
    names = [dotted(h.type) if h.type is not None else "<bare>" for h in main_try.handlers]
    generic = [i for i, x in enumerate(names) if x in ("Exception", "BaseException", "<bare>")]
    need = ["BitstreamViewer._TerminateSuccess", "BitstreamViewer._TerminateError", "EOFError", "KeyboardInterrupt"]
    ok = bool(generic) and all(x in names and names.index(x) < generic[0] for x in need)
    res.check(ok, "C26.c", "run:handler-order", where, "handlers are %s: the termination, EOF and interrupt handlers must come before the generic one" % names, by=" < ".join(names))
    # 255 only under is_internal_error
    rets = []
    for n in ast.walk(run):
        if isinstance(n, ast.Assign) and dotted(n.targets[0]) == "return_code" and isinstance(n.value, ast.Constant) and n.value.value == 255:
            p = getattr(n, "_parent", None)
            rets.append(isinstance(p, ast.If) and isinstance(p.test, ast.Call) and dotted(p.test.func) == "is_internal_error" and n in p.body)
    res.check(len(rets) == 1 and rets[0], "C26.c", "run:255-only-when-internal", where, "status 255 must be assigned exactly once, under `if is_internal_error(tb):`", by="single assignment under is_internal_error")
    # codes of the specific handlers
    codes = {}
    for h in main_try.handlers:
        for s in h.body:
            if isinstance(s, ast.Assign) and dotted(s.targets[0]) == "return_code" and isinstance(s.value, ast.Constant):
                codes[dotted(h.type)] = s.value.value
    res.check(codes.get("BitstreamViewer._TerminateSuccess") == 0 and codes.get("EOFError") not in (None, 0, 255) and codes.get("BitstreamViewer._TerminateError") not in (None, 0, 255), "C26.c", "run:status-codes", where, "termination/EOF handlers assign %s" % codes, by="success 0, EOF and parse failures non-zero and not 255")
    # is_internal_error: True at viewer frames, False at vc2.py frames, last one wins
    im, ie = repo.func(VIEWER + ":is_internal_error")
    t = norm(ie)
    ok = "if filename == _this_script_filename: is_internal = True" in t and "elif filename == _bitstream_vc2_filename: is_internal = False" in t and "is_internal = False" in t.split("for ")[0]
    res.check(ok, "C26.c", "is_internal_error:frame-rule", "%s:is_internal_error" % im.rel, "is_internal_error must start False, become True at frames of the viewer's file and False again at frames of bitstream/vc2.py", by="last relevant frame decides")


def rule_d(repo, res):
    m, cls = repo.cls(VIEWER + ":BitstreamViewer")
    pv = class_methods(cls).get("_print_value")
    if pv is None:
        raise AnalysisError("anchor vanished: BitstreamViewer._print_value")
    where = "%s:BitstreamViewer._print_value" % m.rel
    t = norm(pv)
    # formatter lookup guarded by hasattr(entry_objs), fallback str
    ok = "if hasattr(self._serdes.cur_context, 'entry_objs'):" in t and "else: formatter = str" in t
    res.check(ok, "C26.d", "_print_value:formatter-lookup-guarded", where, "the entry_objs lookup must be guarded by hasattr(cur_context, 'entry_objs') with str as the fallback", by="guarded lookup, str fallback")
    ok = "if self._serdes.cur_context[target] is not value:" in t and "getattr(formatter, 'formatter', str)" in t
    res.check(ok, "C26.d", "_print_value:list-elements", where, "list elements (context value is not the value just read) must be formatted through a total fallback", by="getattr(formatter, 'formatter', str)")
