"""C02.4 table / enum lookups keyed by bitstream values.

Every `TABLE[key]` on an upper-case module-level table and every enumeration
constructor call `Enum(value)` in the validator's reach (module-level functions
and the exception classes' reporting methods) must be unable to raise KeyError /
ValueError for any stream.  A site is discharged by one of

  handled     an enclosing try catches the class the lookup may raise;
  guarded     a dominating `if key not in TABLE: raise` with the same key, in
              the function itself or immediately before every call of it;
  validated   every possible provenance of the key is a value validated against
              an enumeration E (assert_in_enum on the value itself dominating the
              use, an enum constructor's result, getattr(Enum, name), a constant
              member) and every member of E is a key of the table;
  closed      the key is a column of a data-table row whose every value is a
              key of the table (closure of the data tables, checked from CSV /
              literal tables).

Provenance is a *set* of atoms, followed through locals, parameters (every call
site in the reach, including `map(f, xs)`), state keys (store-pairing: every
store of state[k] is immediately followed by assert_in_enum(state[k], E, ...)
or copies an already validated key), exception attributes (constructor argument
at every direct raise, and at dynamic `raise exception_type(...)` in a helper
that receives the class), and list elements (appended values).  A `None` atom
is dropped where the use is under an `is not None` test of the same name.
"""
import ast
import os

from ..core import AnalysisError, const_str, dotted, norm, short, subscript_key
from ..mustflow import MustFlow

FAIL = "fail"


class Lookups(object):
    def __init__(self, repo, reach):
        self.repo = repo
        self.ext = repo.ext
        self.funcs = {}  # (modname, qualname) -> (module, fn)
        for q in reach:
            modn, fname = q.split(":")
            m = repo.modules.get(modn)
            if m is None:
                continue
            if "." in fname:
                cn, mn = fname.split(".", 1)
                cls = m.classes.get(cn)
                if cls is not None and "." not in mn:
                    for f in cls.body:
                        if isinstance(f, ast.FunctionDef) and f.name == mn:
                            self.funcs[(modn, fname)] = (m, f)
                continue
            fn = m.funcs.get(fname)
            if fn is not None:
                self.funcs[(modn, fname)] = (m, fn)
        self._state_valid = None
        self._callers = None
        self._maps = None

    # ---- tables -------------------------------------------------------------
    def enum_of_member(self, d):
        if d and "." in d:
            e, mem = d.rsplit(".", 1)
            e = e.split(".")[-1]
            if e in self.ext.enums and mem in self.ext.enums[e]:
                return e, self.ext.enums[e][mem]
        return None

    def table_keys(self, m, name):
        tgt = self.repo.resolve(m.name, name)
        if tgt is None:
            return None
        if getattr(tgt, "kind", None) == "external":
            t = tgt.name
            if t in self.ext.lookups:
                return set(self.ext.lookups[t]["rows"].keys())
            if t in self.ext.literal_tables:
                return self._dict_keys(self.ext.literal_tables[t])
            if t == "QUANTISATION_MATRICES":
                return set(self.ext.quant_matrix_keys)
            return None
        if getattr(tgt, "kind", None) == "assign":
            mod = self.repo.mod(tgt.mod)
            vals = mod.assigns.get(tgt.name, [])
            if len(vals) == 1 and isinstance(vals[0], ast.Dict):
                return self._dict_keys(vals[0])
            if len(vals) == 1 and isinstance(vals[0], ast.Call) and dotted(vals[0].func) == "read_lookup_from_csv":
                return self._csv_lookup_keys(mod, vals[0])
        return None

    def _dict_keys(self, d):
        out = set()
        for k in d.keys:
            em = self.enum_of_member(dotted(k))
            if em is not None:
                out.add(em[1])
            elif isinstance(k, ast.Call) and isinstance(k.func, ast.Name) and k.func.id in self.ext.enums and len(k.args) == 1 and isinstance(k.args[0], ast.Constant):
                out.add(k.args[0].value)
            else:
                try:
                    out.add(ast.literal_eval(k))
                except Exception:
                    return None
        return out

    def _csv_lookup_keys(self, mod, call):
        fname = None
        for x in ast.walk(call.args[0]):
            if const_str(x) and const_str(x).endswith(".csv"):
                fname = const_str(x)
        if fname is None:
            return None
        rel = os.path.join(os.path.dirname(mod.rel), fname)
        try:
            rows = self.repo.read_csv_rows(rel)
        except AnalysisError:
            return None
        rows = [r for r in rows if any(c.strip() and not c.strip().startswith("#") for c in r)]
        hdr = None
        out = set()
        for r in rows:
            cells = [c.strip() for c in r]
            if hdr is None:
                if "index" in cells:
                    hdr = cells
                continue
            i = hdr.index("index")
            if len(cells) > i and cells[i].lstrip("-").isdigit():
                out.add(int(cells[i]))
        return out if hdr is not None else None

    # ---- call / map sites -----------------------------------------------------
    def callers(self):
        if self._callers is None:
            self._callers, self._maps = {}, {}
            for (modn, fname), (m, fn) in self.funcs.items():
                for c in ast.walk(fn):
                    if isinstance(c, ast.Call) and isinstance(c.func, ast.Name):
                        tgt = self.repo.resolve(m.name, c.func.id)
                        if tgt is not None and getattr(tgt, "kind", None) == "func":
                            self._callers.setdefault((tgt.mod, tgt.name), []).append((m, fn, c))
                        if c.func.id == "map" and len(c.args) == 2 and isinstance(c.args[0], ast.Name):
                            t2 = self.repo.resolve(m.name, c.args[0].id)
                            if t2 is not None and getattr(t2, "kind", None) == "func":
                                self._maps.setdefault((t2.mod, t2.name), []).append((m, fn, c))
        return self._callers

    def maps(self):
        self.callers()
        return self._maps

    # ---- state keys -----------------------------------------------------------
    def state_valid(self):
        if self._state_valid is not None:
            return self._state_valid
        stores = {}
        for (modn, fname), (m, fn) in self.funcs.items():
            for n in ast.walk(fn):
                if isinstance(n, ast.Assign) and len(n.targets) == 1:
                    k = subscript_key(n.targets[0], "state")
                    if k is not None:
                        stores.setdefault(k, []).append((m, fn, n))
        out = {}
        for _ in range(4):
            for k, lst in stores.items():
                enums, probs = set(), []
                for m, fn, n in lst:
                    e = self._store_validated(m, fn, n, k, out)
                    if e is None:
                        probs.append("%s:%s line %d `%s`" % (m.rel, fn.name, n.lineno, short(n, 50)))
                    else:
                        enums.add(e)
                out[k] = (enums.pop() if len(enums) == 1 and not probs else None, probs if probs else (["validated against several enumerations %s" % sorted(enums)] if len(enums) > 1 else []))
        self._state_valid = out
        return out

    def _store_validated(self, m, fn, n, k, known):
        p = getattr(n, "_parent", None)
        for field in ("body", "orelse", "finalbody"):
            blk = getattr(p, field, None)
            if isinstance(blk, list) and n in blk:
                i = blk.index(n)
                if i + 1 < len(blk):
                    nx = blk[i + 1]
                    if isinstance(nx, ast.Expr) and isinstance(nx.value, ast.Call) and dotted(nx.value.func) == "assert_in_enum" and len(nx.value.args) >= 2 and subscript_key(nx.value.args[0], "state") == k:
                        return (dotted(nx.value.args[1]) or "").split(".")[-1]
        v = n.value
        k2 = subscript_key(v, "state")
        if k2 is not None and k2 in known and known[k2][0] is not None:
            return known[k2][0]
        em = self.enum_of_member(dotted(v))
        if em is not None:
            return em[0]
        if isinstance(v, ast.Name):
            e = self.local_valid(fn, v.id, n)
            if e is not None:
                return e
        return None

    # ---- locals ---------------------------------------------------------------
    def local_valid(self, fn, name, at):
        """enum E such that assert_in_enum(name, E, ...) has run on every path to
        the statement containing `at` since the last binding of name"""
        target_stmt = at
        while not isinstance(target_stmt, ast.stmt):
            target_stmt = target_stmt._parent
        seen = []

        def on(node, st):
            if node is target_stmt:
                seen.append(st)
            if isinstance(node, ast.Call) and dotted(node.func) == "assert_in_enum" and len(node.args) >= 2 and dotted(node.args[0]) == name:
                return st.add("valid:" + (dotted(node.args[1]) or "?").split(".")[-1])
            if isinstance(node, (ast.Assign, ast.AugAssign, ast.For)):
                tg = node.targets if isinstance(node, ast.Assign) else [node.target]
                for t in tg:
                    for x in ast.walk(t):
                        if isinstance(x, ast.Name) and x.id == name:
                            st = st.drop(*[e for e in st.may if e.startswith("valid:")])
            return st

        MustFlow(fn, on, node_types=(ast.Call, ast.Assign, ast.AugAssign, ast.For, ast.Expr, ast.Return, ast.If, ast.Raise)).run()
        if not seen:
            return None
        es = None
        for st in seen:
            cur = set(e[len("valid:"):] for e in st.must if e.startswith("valid:"))
            es = cur if es is None else es & cur
        return sorted(es)[0] if es and len(es) == 1 else None

    @staticmethod
    def none_excluded(node, name):
        """the evaluation of `node` happens only when <name> is not None"""
        c, p = node, getattr(node, "_parent", None)
        while p is not None and not isinstance(p, (ast.FunctionDef, ast.Lambda)):
            test = getattr(p, "test", None)
            if isinstance(p, (ast.If, ast.IfExp)) and isinstance(test, ast.Compare) and len(test.ops) == 1 and dotted(test.left) == name and isinstance(test.comparators[0], ast.Constant) and test.comparators[0].value is None:
                body = p.body if isinstance(p.body, list) else [p.body]
                orelse = p.orelse if isinstance(p.orelse, list) else [p.orelse]
                if isinstance(test.ops[0], ast.IsNot) and any(c is b for b in body):
                    return True
                if isinstance(test.ops[0], ast.Is) and any(c is b for b in orelse):
                    return True
            c, p = p, getattr(p, "_parent", None)
        return False

    # ---- provenance -----------------------------------------------------------
    def prov(self, m, fn, e, at, elems=False, depth=0):
        """set of atoms: ('enum', E) ('const', v) ('closed', table, col) ('lifts',) ('fail', why)"""
        if depth > 7:
            return {(FAIL, "call chain too deep")}
        if isinstance(e, ast.Constant):
            return {("const", e.value)}
        em = self.enum_of_member(dotted(e))
        if em is not None:
            return {("const", em[1])}
        if isinstance(e, (ast.List, ast.Tuple)) and elems:
            out = set()
            for x in e.elts:
                out |= self.prov(m, fn, x, at, False, depth + 1)
            return out
        if isinstance(e, ast.Call) and isinstance(e.func, ast.Name) and e.func.id in self.ext.enums and len(e.args) == 1:
            return {("enum", e.func.id)}
        if isinstance(e, ast.Call) and dotted(e.func) == "getattr" and len(e.args) == 2 and isinstance(e.args[0], ast.Name) and e.args[0].id in self.ext.enums:
            return {("enum", e.args[0].id)}
        k = subscript_key(e, "state")
        if k is not None:
            en, probs = self.state_valid().get(k, (None, ["state[%r] is never stored in the validator's reach" % k]))
            if en is not None:
                return {("enum", en)}
            return {(FAIL, "state[%r] is not validated at every store: %s" % (k, "; ".join(probs[:2])))}
        # self.level_constrained_values['level']
        if isinstance(e, ast.Subscript) and const_str(e.slice) == "level" and isinstance(e.value, ast.Attribute) and dotted(e.value.value) == "self" and e.value.attr == "level_constrained_values":
            return self.recorded_level()
        if isinstance(e, ast.Attribute) and isinstance(e.value, ast.Name) and e.value.id == "self":
            return self.exception_attr(fn, e.attr, elems, depth)
        if isinstance(e, ast.Attribute) and isinstance(e.value, ast.Name):
            base = e.value.id
            ds = [a for a in ast.walk(fn) if isinstance(a, ast.Assign) and any(isinstance(t, ast.Name) and t.id == base for t in a.targets)]
            if len(ds) == 1 and isinstance(ds[0].value, ast.Subscript) and dotted(ds[0].value.value) and dotted(ds[0].value.value).isupper():
                return {("closed", dotted(ds[0].value.value), e.attr)}
            for n in ast.walk(fn):
                if isinstance(n, ast.For) and isinstance(n.target, ast.Name) and n.target.id == base and isinstance(n.iter, ast.Attribute) and n.iter.attr == "stages" and isinstance(n.iter.value, ast.Name):
                    rs = [a for a in ast.walk(fn) if isinstance(a, ast.Assign) and any(isinstance(t, ast.Name) and t.id == n.iter.value.id for t in a.targets)]
                    if len(rs) == 1 and isinstance(rs[0].value, ast.Subscript) and dotted(rs[0].value.value) == "LIFTING_FILTERS" and e.attr == "lift_type":
                        return {("lifts",)}
            return {(FAIL, "attribute %s of an unrecognised object" % norm(e))}
        if isinstance(e, ast.Name):
            return self.prov_name(m, fn, e, at, elems, depth)
        return {(FAIL, "key expression `%s` not understood" % short(e, 40))}

    def prov_name(self, m, fn, e, at, elems, depth):
        name = e.id
        if not elems:
            lv = self.local_valid(fn, name, at)
            if lv is not None:
                return {("enum", lv)}
        at_stmt = at
        while not isinstance(at_stmt, ast.stmt):
            at_stmt = at_stmt._parent
        own = set(id(x) for x in ast.walk(at_stmt))
        out = set()
        params = [a.arg for a in fn.args.args]
        stores = [x for x in ast.walk(fn) if isinstance(x, ast.Name) and x.id == name and isinstance(x.ctx, ast.Store) and id(x) not in own]
        defs = []
        for a in ast.walk(fn):
            if isinstance(a, ast.Assign) and id(a) not in own and any(isinstance(t, ast.Name) and t.id == name for t in a.targets):
                defs.append(a.value)
            if isinstance(a, ast.For) and isinstance(a.target, ast.Name) and a.target.id == name:
                out |= self.prov(m, fn, a.iter, at, True, depth + 1)
        # a store in the site's own statement (x = Enum(x)) does not affect the value used there
        is_param_value = name in params and not [s for s in stores if s.lineno < at_stmt.lineno]
        if is_param_value:
            out |= self.prov_param(m, fn, name, params.index(name), elems, depth)
        elif name in params and not defs and not out:
            out |= self.prov_param(m, fn, name, params.index(name), elems, depth)
        else:
            for d in defs:
                if elems and isinstance(d, (ast.List, ast.Tuple)):
                    out |= self.prov(m, fn, d, at, True, depth + 1)
                else:
                    out |= self.prov(m, fn, d, at, elems, depth + 1)
        if elems:
            for c in ast.walk(fn):
                if isinstance(c, ast.Call) and isinstance(c.func, ast.Attribute) and c.func.attr == "append" and dotted(c.func.value) == name and c.args:
                    out |= self.prov(m, fn, c.args[0], c, False, depth + 1)
        if not out:
            return {(FAIL, "local %s has no recognised definition" % name)}
        return out

    def prov_param(self, m, fn, name, index, elems, depth):
        qual = fn.name
        cls = getattr(fn, "_parent", None)
        sites = list(self.callers().get((m.name, qual), [])) if not isinstance(cls, ast.ClassDef) else []
        msites = list(self.maps().get((m.name, qual), [])) if not isinstance(cls, ast.ClassDef) and index == 0 else []
        if not sites and not msites:
            return {(FAIL, "no call site of %s in the validator's reach" % qual)}
        out = set()
        for cm, cf, call in sites:
            arg = call.args[index] if index < len(call.args) and not any(isinstance(a, ast.Starred) for a in call.args[: index + 1]) else next((kw.value for kw in call.keywords if kw.arg == name), None)
            if arg is None:
                out.add((FAIL, "call of %s in %s does not pass %s explicitly" % (qual, cf.name, name)))
                continue
            r = self.prov(cm, cf, arg, call, elems, depth + 1)
            if isinstance(arg, ast.Name) and self.none_excluded(call, arg.id):
                r = set(a for a in r if a != ("const", None))
            out |= set((FAIL, "via %s: %s" % (cf.name, a[1])) if a[0] == FAIL else a for a in r)
        for cm, cf, call in msites:
            arg = call.args[1]
            r = self.prov(cm, cf, arg, call, True, depth + 1)
            if isinstance(arg, ast.Name) and self.none_excluded(call, arg.id):
                r = set(a for a in r if a != ("const", None))
            out |= set((FAIL, "via map in %s: %s" % (cf.name, a[1])) if a[0] == FAIL else a for a in r)
        return out

    def recorded_level(self):
        """value recorded under 'level' in state['_level_constrained_values']"""
        out = set()
        found = False
        for (modn, fname), (m, fn) in self.funcs.items():
            for c in ast.walk(fn):
                if isinstance(c, ast.Call) and dotted(c.func) == "assert_level_constraint" and len(c.args) == 3 and const_str(c.args[1]) == "level":
                    found = True
                    out |= self.prov(m, fn, c.args[2], c, False, 1)
        if not found:
            return {(FAIL, "no assert_level_constraint(state, 'level', ...) in the validator's reach")}
        return out

    def exception_attr(self, fn, attr, elems, depth):
        cls = getattr(fn, "_parent", None)
        if not isinstance(cls, ast.ClassDef):
            return {(FAIL, "self.%s outside a class" % attr)}
        init = None
        for f in cls.body:
            if isinstance(f, ast.FunctionDef) and f.name == "__init__":
                init = f
        if init is None:
            return {(FAIL, "%s has no __init__ of its own" % cls.name)}
        params = [a.arg for a in init.args.args[1:]]
        src = [a for a in ast.walk(init) if isinstance(a, ast.Assign) and any(isinstance(t, ast.Attribute) and t.attr == attr and dotted(t.value) == "self" for t in a.targets)]
        if len(src) != 1 or not isinstance(src[0].value, ast.Name) or src[0].value.id not in params:
            return {(FAIL, "%s.%s is not a plain copy of a constructor argument" % (cls.name, attr))}
        i = params.index(src[0].value.id)
        out = set()
        n_sites = 0
        for (modn, fname), (rm, rf) in self.funcs.items():
            for r in ast.walk(rf):
                # direct raise
                if isinstance(r, ast.Raise) and isinstance(r.exc, ast.Call) and (dotted(r.exc.func) or "").split(".")[-1] == cls.name:
                    n_sites += 1
                    out |= self._ctor_arg(rm, rf, r.exc, i, elems, depth, None, None)
                # the class handed to a helper that raises it
                if isinstance(r, ast.Call) and isinstance(r.func, ast.Name) and any(isinstance(a, ast.Name) and a.id == cls.name for a in r.args):
                    tgt = self.repo.resolve(rm.name, r.func.id)
                    if tgt is None or getattr(tgt, "kind", None) != "func":
                        continue
                    g = tgt.node
                    gm = self.repo.mod(tgt.mod)
                    gparams = [a.arg for a in g.args.args]
                    j = [k for k, a in enumerate(r.args) if isinstance(a, ast.Name) and a.id == cls.name][0]
                    if j >= len(gparams):
                        out.add((FAIL, "%s is passed to %s in its *args" % (cls.name, g.name)))
                        continue
                    pexc = gparams[j]
                    for rr in ast.walk(g):
                        if isinstance(rr, ast.Raise) and isinstance(rr.exc, ast.Call) and dotted(rr.exc.func) == pexc:
                            n_sites += 1
                            out |= self._ctor_arg(gm, g, rr.exc, i, elems, depth, (rm, rf, r), gparams)
        if n_sites == 0:
            return {(FAIL, "no raise of %s found in the validator's reach" % cls.name)}
        return out

    def _ctor_arg(self, rm, rf, call, i, elems, depth, outer, gparams):
        args = list(call.args)
        if len(args) == 1 and isinstance(args[0], ast.Starred) and isinstance(args[0].value, ast.Name) and outer is None:
            ds = [a for a in ast.walk(rf) if isinstance(a, ast.Assign) and any(isinstance(t, ast.Name) and t.id == args[0].value.id for t in a.targets)]
            if len(ds) == 1 and isinstance(ds[0].value, ast.Tuple):
                args = list(ds[0].value.elts)
        pos = [a for a in args if not isinstance(a, ast.Starred)]
        star = [a for a in args if isinstance(a, ast.Starred)]
        if i < len(pos) and args[: i + 1] == pos[: i + 1]:
            return self.prov(rm, rf, pos[i], call, elems, depth + 1)
        if star and outer is not None and rf.args.vararg is not None and dotted(star[0].value) == rf.args.vararg.arg and args.index(star[0]) == len(pos):
            om, of, ocall = outer
            extra = ocall.args[len(gparams):]
            k = i - len(pos)
            if 0 <= k < len(extra) and not isinstance(extra[k], ast.Starred):
                return self.prov(om, of, extra[k], ocall, elems, depth + 1)
        return {(FAIL, "constructor argument %d of the raise in %s could not be traced" % (i, rf.name))}


def _handled(site, fn, classes):
    c, p = site, getattr(site, "_parent", None)
    fam = set(classes) | {"Exception", "BaseException"} | ({"LookupError"} if "KeyError" in classes else set())
    while p is not None and c is not fn:
        if isinstance(p, ast.Try) and any(c is b for b in p.body):
            for h in p.handlers:
                if h.type is None:
                    return True
                names = [dotted(x) for x in h.type.elts] if isinstance(h.type, ast.Tuple) else [dotted(h.type)]
                if any((n or "").split(".")[-1] in fam for n in names):
                    return True
        c, p = p, getattr(p, "_parent", None)
    return False


def _key_elems(e):
    if isinstance(e, ast.Tuple):
        return [norm(x) for x in e.elts]
    return [norm(e)]


def _guard_before(stmt, fn, table, key_elems):
    """a statement before `stmt` in its block is `if <key> not in TABLE: raise`, <key> naming the same elements"""
    p = getattr(stmt, "_parent", None)
    for field in ("body", "orelse"):
        blk = getattr(p, field, None)
        if isinstance(blk, list) and stmt in blk:
            for prev in blk[: blk.index(stmt)]:
                if isinstance(prev, ast.If) and isinstance(prev.test, ast.Compare) and len(prev.test.ops) == 1 and isinstance(prev.test.ops[0], ast.NotIn) and dotted(prev.test.comparators[0]) == table and any(isinstance(b, ast.Raise) for b in prev.body):
                    left = prev.test.left
                    if isinstance(left, ast.Name):
                        ds = [a for a in ast.walk(fn) if isinstance(a, ast.Assign) and any(isinstance(t, ast.Name) and t.id == left.id for t in a.targets)]
                        if len(ds) == 1:
                            left = ds[0].value
                    if _key_elems(left) == key_elems:
                        return True
    return False


def _guarded(lk, site, m, fn, table):
    stmt = site
    while not isinstance(stmt, ast.stmt):
        stmt = stmt._parent
    ke = _key_elems(site.slice)
    if _guard_before(stmt, fn, table, ke):
        return "in the function itself"
    # before every call of fn (keys must be expressions over state, not parameters)
    if any(isinstance(x, ast.Name) and x.id in [a.arg for a in fn.args.args[1:]] for x in ast.walk(site.slice)):
        return None
    sites = lk.callers().get((m.name, fn.name), [])
    if not sites:
        return None
    for cm, cf, call in sites:
        cs = call
        while not isinstance(cs, ast.stmt):
            cs = cs._parent
        if not _guard_before(cs, cf, table, ke):
            return None
    return "before every call (%s)" % ", ".join(sorted(set(cf.name for _, cf, _ in sites)))


def rule_lookups(repo, res, sf, reach, exc):
    lk = Lookups(repo, reach)
    ext = repo.ext
    n_sites = 0
    am, af = repo.func("decoder.assertions:assert_in_enum")
    ok = False
    for n in ast.walk(af):
        if isinstance(n, ast.Try) and len(n.handlers) == 1 and dotted(n.handlers[0].type) == "ValueError":
            call = [c for b in n.body for c in ast.walk(b) if isinstance(c, ast.Call)]
            ok = len(call) == 1 and dotted(call[0].func) == af.args.args[1].arg and dotted(call[0].args[0]) == af.args.args[0].arg and any(isinstance(b, ast.Raise) and isinstance(b.exc, ast.Call) and dotted(b.exc.func) == af.args.args[2].arg for b in n.handlers[0].body)
    res.check(ok, "C02.4", "assert_in_enum:rejects-non-members", "%s:assert_in_enum" % am.rel, "assert_in_enum must raise the given exception exactly when enum(value) raises ValueError", by="try: enum(value) except ValueError: raise exception_type(value)")
    for (modn, fname), (m, fn) in sorted(lk.funcs.items()):
        where = "%s:%s" % (m.rel, fname)
        for n in ast.walk(fn):
            kind = None
            if isinstance(n, ast.Subscript) and isinstance(n.ctx, ast.Load) and dotted(n.value) and dotted(n.value).isupper() and len(dotted(n.value)) > 2:
                kind, table, keyexpr = "table", dotted(n.value), n.slice
            elif isinstance(n, ast.Call) and isinstance(n.func, ast.Name) and n.func.id in ext.enums and len(n.args) == 1 and not n.keywords:
                tgt = repo.resolve(m.name, n.func.id)
                if tgt is None or getattr(tgt, "kind", None) != "external":
                    continue
                kind, table, keyexpr = "enum", n.func.id, n.args[0]
            if kind is None:
                continue
            n_sites += 1
            key = "%s:%s" % (fname, short(n, 60))
            raises = {"KeyError"} if kind == "table" else {"ValueError"}
            if _handled(n, fn, raises):
                res.ok("C02.4", key, where, by="handled: an enclosing try catches %s" % sorted(raises)[0])
                continue
            if kind == "table":
                g = _guarded(lk, n, m, fn, table)
                if g:
                    res.ok("C02.4", key, where, by="guarded: `if key not in %s: raise` %s" % (table, g))
                    continue
            keys = lk.table_keys(m, table) if kind == "table" else set(ext.enums[table].values())
            if keys is None:
                res.bad("C02.4", key, where, "the key set of %s could not be determined statically" % table)
                continue
            atoms = lk.prov(m, fn, keyexpr, n)
            bad, why = [], []
            for a in sorted(atoms, key=str):
                ok, w = _covered(lk, a, keys, table)
                (why if ok else bad).append(w)
            res.check(not bad and bool(atoms), "C02.4", key, where, "lookup `%s` can raise %s for some stream: %s" % (short(n, 60), sorted(raises)[0], "; ".join(bad) or "no provenance"), by="; ".join(sorted(set(why)))[:300])
    res.info["lookup_sites"] = n_sites


def _covered(lk, a, keys, table):
    ext = lk.ext
    kind = a[0]
    if kind == "const":
        return a[1] in keys, "constant key %r %s a key of %s" % (a[1], "is" if a[1] in keys else "is not", table)
    if kind == "enum":
        e = (a[1] or "").split(".")[-1]
        if e not in ext.enums:
            return False, "validated against %s, which is not a known enumeration" % a[1]
        missing = sorted(set(ext.enums[e].values()) - keys)
        return not missing, ("validated as a member of %s, and every %s value is a key of %s" % (e, e, table)) if not missing else "validated against %s, but %s has no entry for value(s) %s" % (e, table, missing)
    if kind == "closed":
        src, col = a[1], a[2]
        rows = ext.lookups.get(src, {}).get("rows")
        if rows is None:
            return False, "row attribute %s.%s: source table not readable" % (src, col)
        vals = set()
        for idx, r in rows.items():
            v = (r.get(col) or "").strip()
            if not v.lstrip("-").isdigit():
                return False, "column %s of %s holds non-integer %r" % (col, src, v)
            vals.add(int(v))
        missing = sorted(vals - keys)
        return not missing, ("closed: every value of column %s of %s is a key of %s" % (col, src, table)) if not missing else "column %s of %s contains %s, not a key of %s" % (col, src, missing, table)
    if kind == "lifts":
        lf = ext.literal_tables.get("LIFTING_FILTERS")
        used = set()
        if lf is not None:
            for c in ast.walk(lf):
                if isinstance(c, ast.keyword) and c.arg == "lift_type":
                    em = lk.enum_of_member(dotted(c.value))
                    if em:
                        used.add(em[1])
                    elif isinstance(c.value, ast.Call) and dotted(c.value.func) == "LiftingFilterTypes" and len(c.value.args) == 1 and isinstance(c.value.args[0], ast.Constant):
                        if c.value.args[0].value in set(lk.ext.enums.get("LiftingFilterTypes", {}).values()):
                            used.add(c.value.args[0].value)
                        else:
                            used.add(("invalid", c.value.args[0].value))
                if isinstance(c, ast.Call) and dotted(c.func) == "LiftingStage" and c.args:
                    em = lk.enum_of_member(dotted(c.args[0]))
                    if em:
                        used.add(em[1])
        missing = sorted(used - keys)
        return bool(used) and not missing, ("closed: every lift_type used by LIFTING_FILTERS (%s) is a key of %s" % (sorted(used), table)) if used and not missing else "lift types %s of LIFTING_FILTERS are not keys of %s" % (missing or "<none found>", table)
    return False, a[1] if len(a) > 1 else "unknown provenance"
