"""C02.4 table / enum lookups (filled in below)."""


def rule_lookups(repo, res, sf, reach, exc):
    pass
