"""C06 Deserialising then serialising any parseable stream reproduces its bytes
(structural part).

The description program bitstream/vc2.py is ONE function run in both
directions, so a round trip can only break where reader and writer primitives
disagree on an argument, where control flow depends on the direction, or where
the declared schema and the program disagree.
"""
import ast
from collections import OrderedDict

from ..core import AnalysisError, const_str, dotted, norm, short, subscript_key
from ..report import Result
from .. import tables
from ..serdes_model import SerdesModel, PRIMS, PAD_OPS, LENGTH_ARG


def check(repo, tier="quick"):
    res = Result("C06")
    res.explanation = (
        "Sign analysis of every length argument handed to a serdes primitive in bitstream/vc2.py against the extracted "
        "reader/writer asymmetry on negative lengths; direction-independence of control flow; agreement between the description "
        "program's targets, the fixeddict schemas, the default-value table and the nesting table."
    )
    res.rule("C06.a", "no length argument of nbits/uint_lit/bitarray/bytes can be negative (the reader reads nothing, the writer raises)")
    res.rule("C06.b", "control flow and lengths never depend on the direction (serdes class, io object, context contents), except the documented parse_stream loop")
    res.rule("C06.c", "description-program targets = declared entries per context type; every bitstream value has a default of the primitive's type; nesting table agrees")
    res.rule("C06.i", "the layers underneath agree: bit-level reader and writer keep the same bounded-block bookkeeping, bit order, signed/unsigned exp-Golomb loops and partial-byte discipline (C20.b/c/d/g re-evaluated), and each serdes primitive reads/writes through the matching pair unconditionally (C21.a re-evaluated): a value or length one side accepts the other side accepts too")
    res.rule("C06.h", "history independence: the description program, the serdes framework and the bit-level I/O keep no state between streams; no swapped same-named arguments")
    res.rule("C06.x", "extracted reader/writer asymmetry on negative lengths (the premise of C06.a)")

    sm = SerdesModel(repo)
    asymmetry(repo, res)
    rule_a(repo, res, sm)
    rule_b(repo, res, sm)
    rule_c(repo, res, sm)
    from . import c20 as _c20
    from ..report import Result as _R, Ob as _Ob
    from ..core import class_methods as _cm

    _sub = _R("C20")
    _rm, _rd = repo.cls("bitstream.io:BitstreamReader")
    _wm, _wr = repo.cls("bitstream.io:BitstreamWriter")
    _c20.rule_b(repo, _sub, _cm(_rd), _cm(_wr), repo.mod("bitstream.io").rel)
    _c20.rule_c(repo, _sub, _cm(_rd), _cm(_wr), repo.mod("bitstream.io").rel)
    _c20.rule_d(repo, _sub, _cm(_rd), _cm(_wr), repo.mod("bitstream.io").rel)
    _c20.rule_g(repo, _sub, _cm(_rd), _cm(_wr), repo.mod("bitstream.io").rel)
    _c20.rule_e(repo, _sub, _cm(_rd), _cm(_wr), repo.mod("bitstream.io").rel)
    # ... and of the serdes primitives built on them (C21.a: same primitive set, read_X / write_X pairs, unconditional)
    from . import c21 as _c21

    _sm = repo.mod("bitstream.serdes")
    _meth = {n: _cm(_sm.classes[n]) for n in ("SerDes", "Deserialiser", "Serialiser", "MonitoredMixin") if n in _sm.classes}
    if len(_meth) == 4:
        _c21.rule_a(repo, _sub, _sm, _meth, _sm.rel)
    for _o in _sub.obs:
        res._add(_Ob("C06.i", "%s/%s" % (_o.rule, _o.key), _o.where, _o.status, _o.detail, _o.by, _o.path))
    res.floor("C06.i", 50)
    from .. import globals_state, lints

    globals_state.rule(repo, res, "C06.h", ["bitstream.vc2", "bitstream.serdes", "bitstream.io", "bitstream.vc2_fixeddicts", "fixeddict", "pseudocode.slice_sizes"], what="the bytes written for one stream (a second round trip in the same process could differ from the first)")
    lints.rule(repo, res, "C06.h", ["bitstream.vc2", "bitstream.serdes", "bitstream.io"])
    res.floor("C06.h", 8)
    res.floor("C06.a", 10)
    res.floor("C06.b", 30)
    res.floor("C06.c", 100)
    res.floor("C06.x", 3)
    res.assumptions = [
        "bit-level inverse-ness of the reader/writer primitives is C20/C21's subject, not decided here",
        "unsigned serdes reads return non-negative integers",
    ]
    res.trusted = ["target constant folder (string literals, literal for-lists, str.format, split)"]
    return res


# ---------------------------------------------------------------------------
def asymmetry(repo, res):
    """Reader loops `for _ in range(n)` (negative n: nothing); writer guards
    `len(value) > n` / `value.bit_length() > n` (negative n: always raises)."""
    m, rd = repo.cls("bitstream.io:BitstreamReader")
    wm, wr = repo.cls("bitstream.io:BitstreamWriter")
    from ..core import class_methods

    rmeth, wmeth = class_methods(rd), class_methods(wr)
    where = "%s" % m.rel
    for prim, rname, wname in (("nbits", "read_nbits", "write_nbits"), ("bitarray", "read_bitarray", "write_bitarray"), ("bytes", "read_bytes", "write_bytes")):
        r, w = rmeth.get(rname), wmeth.get(wname)
        if r is None or w is None:
            raise AnalysisError("anchor vanished: %s / %s" % (rname, wname))
        n = r.args.args[1].arg
        reader_silent = any(
            isinstance(x, (ast.For, ast.comprehension)) and isinstance(x.iter, ast.Call) and dotted(x.iter.func) == "range" and n in [y.id for y in ast.walk(x.iter) if isinstance(y, ast.Name)]
            for x in ast.walk(r)
        ) or any(isinstance(x, ast.Call) and isinstance(x.func, ast.Attribute) and x.func.attr in ("read_bitarray", "read_nbits") for x in ast.walk(r))
        wn = w.args.args[1].arg
        writer_raises = any(
            isinstance(x, ast.If) and any(isinstance(b, ast.Raise) for b in x.body) and wn in [y.id for y in ast.walk(x.test) if isinstance(y, ast.Name)] and any(isinstance(c, ast.Compare) and isinstance(c.ops[0], ast.Gt) for c in ast.walk(x.test))
            for x in ast.walk(w)
        )
        res.check(reader_silent and writer_raises, "C06.x", "asymmetry:%s" % prim, where, "reader/writer treatment of a negative length for %s is no longer (silent, raises): reader_silent=%s writer_raises=%s" % (prim, reader_silent, writer_raises), by="reader iterates range(n); writer raises when len/bit_length > n")


# ---------------------------------------------------------------------------
NONNEG_CALLS = {"intlog2", "len", "abs"}


class Sign(object):
    """Flow-insensitive non-negativity inference for vc2.py: an expression is
    NONNEG if built from unsigned serdes reads, non-negative constants,
    intlog2/len/abs, max(0, .), and + * // % << of NONNEG operands; a local is
    NONNEG if all its assignments are; state[k] is NONNEG if all stores to k in
    the module are."""

    def __init__(self, sm):
        self.sm = sm
        self.state_nonneg = {}
        self.fn_locals = {}
        stores = {}
        for sf in sm.funcs.values():
            for n in ast.walk(sf.fn):
                if isinstance(n, ast.Assign):
                    for t in n.targets:
                        k = subscript_key(t, "state")
                        if k:
                            stores.setdefault(k, []).append((sf, n.value))
                elif isinstance(n, ast.AugAssign):
                    k = subscript_key(n.target, "state")
                    if k:
                        stores.setdefault(k, []).append((sf, ast.BinOp(left=n.target, op=n.op, right=n.value)))
        self.stores = stores
        # optimistic fixpoint
        cand = set(stores)
        changed = True
        while changed:
            changed = False
            self.state_nonneg = cand
            for k in sorted(cand):
                if not all(self.nonneg(v, sf) for sf, v in stores[k]):
                    cand = cand - {k}
                    changed = True
                    break
        self.state_nonneg = cand

    def local_assignments(self, sf, name):
        out = []
        for n in ast.walk(sf.fn):
            if isinstance(n, ast.Assign) and any(isinstance(t, ast.Name) and t.id == name for t in n.targets):
                out.append(n.value)
            elif isinstance(n, ast.AugAssign) and isinstance(n.target, ast.Name) and n.target.id == name:
                out.append(ast.BinOp(left=ast.Name(id=name, ctx=ast.Load()), op=n.op, right=n.value))
            elif isinstance(n, ast.For) and isinstance(n.target, ast.Name) and n.target.id == name:
                out.append(n.iter if not (isinstance(n.iter, ast.Call) and dotted(n.iter.func) == "range") else ast.Call(func=ast.Name(id="__range__", ctx=ast.Load()), args=n.iter.args, keywords=[]))
        return out

    def nonneg(self, e, sf, depth=0, assume=frozenset()):
        if depth > 8:
            return False
        if isinstance(e, ast.Constant):
            return isinstance(e.value, (int, bool)) and e.value >= 0
        k = subscript_key(e, "state")
        if k is not None:
            return k in self.state_nonneg
        if isinstance(e, ast.Name):
            if e.id in assume:
                return True
            if e.id in sf.params:
                return False
            vals = self.local_assignments(sf, e.id)
            return bool(vals) and all(self.nonneg(v, sf, depth + 1, assume | {e.id}) for v in vals)
        if isinstance(e, ast.Call):
            f = dotted(e.func)
            if f in ("serdes.uint", "serdes.uint_lit", "serdes.nbits", "serdes.bool"):
                return True
            if f in NONNEG_CALLS:
                return True
            if f == "max" and any(isinstance(a, ast.Constant) and isinstance(a.value, int) and a.value >= 0 for a in e.args):
                return True
            if f == "min":
                return all(self.nonneg(a, sf, depth + 1, assume) for a in e.args)
            if f == "__range__":
                # loop variable of range(a[, b]): non-negative if the start is
                start = e.args[0] if len(e.args) > 1 else ast.Constant(value=0)
                return self.nonneg(start, sf, depth + 1, assume)
            return False
        if isinstance(e, ast.BinOp):
            if isinstance(e.op, (ast.Add, ast.Mult, ast.FloorDiv, ast.Mod, ast.LShift, ast.RShift, ast.BitAnd, ast.BitOr)):
                return self.nonneg(e.left, sf, depth + 1, assume) and self.nonneg(e.right, sf, depth + 1, assume)
            return False  # subtraction: unknown unless clamped by max(0, .)
        if isinstance(e, ast.IfExp):
            return self.nonneg(e.body, sf, depth + 1, assume) and self.nonneg(e.orelse, sf, depth + 1, assume)
        return False


def rule_a(repo, res, sm):
    sign = Sign(sm)
    res.info["state_keys_nonneg_in_vc2"] = sorted(sign.state_nonneg)
    n = 0
    for name, sf in sm.funcs.items():
        for op in sm.ops(name):
            if op.op in LENGTH_ARG and len(op.node.args) > LENGTH_ARG[op.op]:
                n += 1
                arg = op.node.args[LENGTH_ARG[op.op]]
                key = "%s:%s(%s).length" % (name, op.op, "|".join(sorted(op.targets)))
                ok = sign.nonneg(arg, sf)
                res.check(
                    ok,
                    "C06.a",
                    key,
                    "%s:%s" % (sf.mod.rel, name),
                    "length `%s` of serdes.%s can be negative: the deserialiser then reads nothing but the serialiser raises OutOfRangeError, so a parsed stream cannot be re-serialised" % (norm(arg), op.op),
                    by="non-negative by construction: %s" % norm(arg),
                )
    res.info["length_sinks"] = n


# ---------------------------------------------------------------------------
def rule_b(repo, res, sm):
    sanctioned = 0
    for name, sf in sm.funcs.items():
        where = "%s:%s" % (sf.mod.rel, name)
        bad = []
        for n in ast.walk(sf.fn):
            # direction probes
            if isinstance(n, ast.Call) and dotted(n.func) in ("isinstance", "type") and n.args and dotted(n.args[0]) == "serdes":
                bad.append("inspects the serdes class: %s" % short(n))
            if isinstance(n, ast.Attribute) and dotted(n) in ("serdes.cur_context", "serdes.context", "serdes._cur_context_indices", "serdes.default_values"):
                bad.append("reads the context directly: %s" % short(getattr(n, "_parent", n)))
            if isinstance(n, (ast.If, ast.While, ast.IfExp)):
                for x in ast.walk(n.test):
                    d = dotted(x) if isinstance(x, ast.Attribute) else None
                    if d and (d.startswith("serdes.io") or d == "serdes.is_target_complete"):
                        if name == "parse_stream" and isinstance(n, ast.While):
                            sanctioned += 1
                        else:
                            bad.append("branches on %s: %s" % (d, short(n.test)))
            # serdes.io used as a length / range bound
            if isinstance(n, ast.Call) and dotted(n.func) in ("range",) + tuple("serdes.%s" % p for p in LENGTH_ARG):
                for a in n.args:
                    for x in ast.walk(a):
                        if isinstance(x, ast.Attribute) and (dotted(x) or "").startswith("serdes.io"):
                            bad.append("length/bound from the io object: %s" % short(n))
        res.check(not bad, "C06.b", "%s:direction-independent" % name, where, "; ".join(bad[:3]), by="no direction-dependent control flow")
    res.check(sanctioned >= 1, "C06.b", "parse_stream:sanctioned-loop", "vc2_conformance/bitstream/vc2.py:parse_stream", "the documented direction-dependent loop condition of parse_stream is gone", by="present (the only exception)")


# ---------------------------------------------------------------------------
def default_values(repo):
    m = repo.mod("bitstream.vc2_fixeddicts")
    defaults = {}
    nesting = {}
    for s in m.tree.body:
        if isinstance(s, ast.Assign) and isinstance(s.targets[0], ast.Subscript):
            base = dotted(s.targets[0].value)
            key = dotted(s.targets[0].slice)
            if base == "vc2_default_values" and isinstance(s.value, ast.Call):
                defaults[key] = OrderedDict((kw.arg, kw.value) for kw in s.value.keywords)
                if dotted(s.value.func) != key:
                    defaults[key]["__ctor__"] = s.value.func
            elif base == "vc2_fixeddict_nesting" and isinstance(s.value, (ast.List, ast.Tuple)):
                nesting[key] = [dotted(e) for e in s.value.elts]
    return defaults, nesting


def value_type(node):
    if isinstance(node, ast.Constant):
        if isinstance(node.value, bool):
            return "bool"
        if isinstance(node.value, int):
            return "int"
        if isinstance(node.value, bytes):
            return "bytes"
        return type(node.value).__name__
    if isinstance(node, ast.Call) and dotted(node.func) == "bitarray":
        return "bitarray"
    if isinstance(node, ast.Call) and dotted(node.func) in ("bytes", "bytearray"):
        return "bytes"
    if isinstance(node, ast.Attribute) or isinstance(node, ast.Name):
        return "int"  # enum members / integer constants such as PARSE_INFO_PREFIX, ParseCodes.x
    return "?"


def rule_c(repo, res, sm):
    fds = {fd.var: fd for fd in tables.fixeddicts(repo) if fd.mod.name.endswith("bitstream.vc2_fixeddicts")}
    defaults, nesting = default_values(repo)
    co = sm.context_ops()
    where_m = "vc2_conformance/bitstream/vc2_fixeddicts.py"
    res.info["context_types"] = len(co)
    for T, ops in co.items():
        if T not in fds:
            res.bad("C06.c", "type:%s" % T, where_m, "context type %s used by the description program is not a fixeddict of vc2_fixeddicts" % T)
            continue
        entries = fds[T].entries
        seen = {}
        lists = set()
        nested = {}
        for op in ops:
            for t in op.targets:
                if op.op == "declare_list":
                    lists.add(t)
                    seen.setdefault(t, set())
                elif op.op in ("subcontext", "subcontext_enter"):
                    seen.setdefault(t, set()).add("context")
                    nested.setdefault(t, set()).add(op.nested)
                elif op.op == "call":
                    pass
                elif op.kind:
                    seen.setdefault(t, set()).add(op.kind)
        where = "%s:%s" % (where_m, T)
        for t, kinds in seen.items():
            res.check(t in entries, "C06.c", "%s.%s:declared" % (T, t), where, "target %r is used in context %s but %s declares no such entry (FixedDictKeyError while deserialising)" % (t, T, T), by="declared entry")
            vk = kinds - {"context", "computed"}
            if len(vk) > 1:
                res.bad("C06.c", "%s.%s:one-kind" % (T, t), where, "target %r is read with primitives of different types: %s" % (t, sorted(vk)))
            if vk and t in entries:
                kind = list(vk)[0]
                d = defaults.get(T, {}).get(t)
                res.check(d is not None and value_type(d) == kind, "C06.c", "%s.%s:default" % (T, t), where, "bitstream value %r (%s) has %s in vc2_default_values[%s]" % (t, kind, "no default" if d is None else "a default of type %s" % value_type(d), T), by="default of type %s" % kind)
        for e in entries:
            res.check(e in seen, "C06.c", "%s.%s:used" % (T, e), where, "entry %r of %s is never read or written by the description program: a value supplied for it makes serialisation fail (unused target)" % (e, T), by="written/read by the program")
        # nesting
        want = set(x for v in nested.values() for x in v if x)
        have = set(nesting.get(T, []))
        if want or have:
            res.check(want == have, "C06.c", "%s:nesting" % T, where, "vc2_fixeddict_nesting[%s] = %s but the program nests %s" % (T, sorted(have), sorted(want)), by="nesting table agrees")
    # every fixeddict of the module is a context type of the program
    for name in fds:
        res.check(name in co, "C06.c", "type:%s:has-program" % name, where_m, "fixeddict %s has no description-program function" % name, by="has a @context_type function")
