"""C07 Automatic field filling preserves explicit values and computes derived
ones (structural part)."""
import ast
from collections import OrderedDict

from ..core import AnalysisError, const_str, dotted, norm, short, subscript_key
from ..report import Result
from ..mustflow import MustFlow

AF = "bitstream.vc2_autofill"
AUTOFILLERS = ("autofill_picture_number", "autofill_major_version", "autofill_parse_offsets", "autofill_parse_offsets_finalize")


def is_auto_test(test):
    """`X.get("f", AUTO) is AUTO` / `get_auto(X, "f", T) is AUTO` -> (container text, field)"""
    if isinstance(test, ast.Compare) and len(test.ops) == 1 and isinstance(test.ops[0], ast.Is) and dotted(test.comparators[0]) == "AUTO":
        l = test.left
        if isinstance(l, ast.Call) and isinstance(l.func, ast.Attribute) and l.func.attr == "get" and len(l.args) == 2 and dotted(l.args[1]) == "AUTO" and const_str(l.args[0]):
            return norm(l.func.value), const_str(l.args[0])
        if isinstance(l, ast.Call) and dotted(l.func) == "get_auto" and len(l.args) == 3 and const_str(l.args[1]):
            return norm(l.args[0]), const_str(l.args[1])
    return None


def guards_of(node, top):
    out = []
    c = node
    p = getattr(node, "_parent", None)
    while p is not None and p is not top:
        if isinstance(p, ast.If):
            if any(c is x for x in p.body):
                out.append((p.test, True))
            elif any(c is x for x in p.orelse):
                out.append((p.test, False))
        c = p
        p = getattr(p, "_parent", None)
    return out


def version_implications_used(fn):
    return sorted(set(dotted(c.func) for c in ast.walk(fn) if isinstance(c, ast.Call) and (dotted(c.func) or "").endswith("_version_implication")))


def validator_version_implications(repo):
    """implication functions whose result reaches log_version_lower_bound / a
    *NotSupportedByVersion raise in the validator."""
    out = OrderedDict()
    for spec in ("decoder.stream", "decoder.sequence_header", "decoder.picture_syntax"):
        m = repo.mod(spec)
        for fn in m.funcs.values():
            for n in ast.walk(fn):
                if isinstance(n, ast.Assign) and isinstance(n.value, ast.Call) and (dotted(n.value.func) or "").endswith("_version_implication"):
                    var = dotted(n.targets[0])
                    logged = any(isinstance(c, ast.Call) and dotted(c.func) == "log_version_lower_bound" and len(c.args) == 2 and dotted(c.args[1]) == var for c in ast.walk(fn))
                    if logged:
                        out[dotted(n.value.func)] = "%s:%s" % (m.rel, fn.name)
    return out


def check(repo, tier="quick"):
    res = Result("C07")
    res.explanation = (
        "Dominance of an is-AUTO/absent test over every store or deletion the autofill routines make into bitstream dictionaries; "
        "provenance of the flag that licenses deleting extended transform parameters; coverage of every AUTO default by a routine "
        "that fills it; call order in autofill_and_serialise_stream; agreement of the version-implication rules and of the picture-"
        "number rule with the validator's."
    )
    res.rule("C07.a", "every store/delete into a bitstream dictionary field in the autofill routines is dominated by a test that the field is absent or AUTO (or is a setdefault)")
    res.rule("C07.b", "every field defaulted to AUTO is filled by an autofill routine; autofill_and_serialise_stream runs all of them before serialising and the finalize step after flushing")
    res.rule("C07.c", "autofill_major_version consults exactly the version-implication rules the validator enforces, under the same field conditions")
    res.rule("C07.d", "automatic picture numbers: same wrap mask as the validator, restart per sequence, incremented for pictures and for fragments only when fragment_slice_count == 0")
    res.rule("C07.f", "per-sequence scope: in every autofill routine, each local that is rebound inside the loop over sequences is definitely (re)assigned within one iteration of that loop before it is read -- no version, picture number or flag is carried from one sequence into the next")
    res.rule("C07.g", "history independence: the autofill module keeps no state between calls; no swapped same-named arguments")
    res.rule("C07.h", "documented defaults: every read of a field of a bitstream dictionary in the autofill routines is get_auto(d, key, T) with T declaring key, or d.get(key, default) whose default is an empty container (absent sub-structure), AUTO (absence test), or vc2_default_values_with_auto[T][key] for the same key; a bare d.get('parse_code') is compared with picture/padding parse codes only")
    res.rule("C07.e", "parse offsets: only recorded (AUTO) positions are patched after serialisation; next offset 0 for the last data unit, previous 0 for the first; distances from the recorded _offset values")

    m = repo.mod(AF)
    for name in AUTOFILLERS + ("autofill_and_serialise_stream", "get_auto"):
        if name not in m.funcs:
            raise AnalysisError("anchor vanished: %s:%s" % (AF, name))
    rule_a(repo, res, m)
    rule_b(repo, res, m)
    rule_c(repo, res, m)
    rule_d(repo, res, m)
    rule_e(repo, res, m)
    rule_f(repo, res, m)
    rule_h(repo, res, m)
    res.floor("C07.h", 40)
    version_logging_rule(repo, res, "C07.c")
    # the offsets recorded while serialising and the seeks that patch them are in one coordinate system (C20.g)
    from . import c20 as _c20
    from ..core import class_methods as _cm
    from ..report import Ob as _Ob

    _rm, _rd = repo.cls(_c20.IO + ":BitstreamReader")
    _wm, _wr = repo.cls(_c20.IO + ":BitstreamWriter")
    _sub = Result("C20")
    _c20.rule_g(repo, _sub, _cm(_rd), _cm(_wr), _rm.rel)
    for _o in _sub.obs:
        res._add(_Ob("C07.e", "%s/%s" % (_o.rule, _o.key), _o.where, _o.status, _o.detail, _o.by, _o.path))
    from .. import globals_state, lints

    globals_state.rule(repo, res, "C07.g", ["bitstream.vc2_autofill"], what="the values filled in for one stream")
    lints.rule(repo, res, "C07.g", ["bitstream.vc2_autofill"])
    res.floor("C07.g", 3)
    res.floor("C07.f", 3)
    res.floor("C07.a", 6)
    res.floor("C07.b", 7)
    res.floor("C07.c", 10)
    res.floor("C07.d", 4)
    res.floor("C07.e", 5)
    res.assumptions = ["offset arithmetic and the contents of defaults are not decided", "the serialiser records each parse_info's _offset (C06.c: computed target)"]
    res.trusted = ["CPython ast"]
    return res


def rule_a(repo, res, m):
    for name in AUTOFILLERS[:3]:
        fn = m.funcs[name]
        where = "%s:%s" % (m.rel, name)
        for n in ast.walk(fn):
            tgts = []
            if isinstance(n, ast.Assign):
                tgts = [(t, "store") for t in n.targets]
            elif isinstance(n, ast.AugAssign):
                tgts = [(n.target, "store")]
            elif isinstance(n, ast.Delete):
                tgts = [(t, "delete") for t in n.targets]
            for t, kind in tgts:
                if not (isinstance(t, ast.Subscript) and const_str(t.slice) is not None):
                    continue
                cont, field = norm(t.value), const_str(t.slice)
                gs = guards_of(n, fn)
                ok = False
                why = ""
                for test, pos in gs:
                    a = is_auto_test(test)
                    if a is not None and pos and a == (cont, field):
                        ok = True
                        why = "under `%s`" % short(test, 60)
                if not ok and kind == "delete":
                    # sanctioned: deletion licensed by a flag whose only True assignment is under the major_version AUTO test
                    flags = [dotted(test) for test, pos in gs if pos and isinstance(test, ast.Name)] + [dotted(v) for test, pos in gs if pos and isinstance(test, ast.BoolOp) for v in test.values if isinstance(v, ast.Name)]
                    for f in flags:
                        trues = [x for x in ast.walk(fn) if isinstance(x, ast.Assign) and dotted(x.targets[0]) == f and isinstance(x.value, ast.Constant) and x.value.value is True]
                        good = bool(trues) and all(any(is_auto_test(t2) is not None and p2 and is_auto_test(t2)[1] == "major_version" for t2, p2 in guards_of(x, fn)) for x in trues)
                        others = [x for x in ast.walk(fn) if isinstance(x, ast.Assign) and dotted(x.targets[0]) == f and not (isinstance(x.value, ast.Constant) and isinstance(x.value.value, bool))]
                        # ... and the flag describes the *most recent* sequence header: the same test's other arm clears it
                        current = bool(trues)
                        for x in trues:
                            owner = None
                            for i in ast.walk(fn):
                                if isinstance(i, ast.If) and x in i.body and is_auto_test(i.test) is not None and is_auto_test(i.test)[1] == "major_version":
                                    owner = i
                            current = current and owner is not None and any(isinstance(y, ast.Assign) and dotted(y.targets[0]) == f and isinstance(y.value, ast.Constant) and y.value.value is False for y in owner.orelse)
                        if good and not others:
                            res.check(current, "C07.a", "%s:licence-flag-current:%s" % (name, f), where, "the flag %s that licenses deleting explicitly supplied extended transform parameters is set under the major_version AUTO test but not cleared in that test's other arm: after one automatic header it stays set for later headers with an explicit version" % f, by="`%s = False` in the else arm of the AUTO test" % f)
                        if good and not others:
                            ok = True
                            why = "licensed by flag %s, set True only when major_version was AUTO" % f
                res.check(ok, "C07.a", "%s:%s %s[%s]" % (name, kind, cont, field), where, "%s of %s[%r] is not dominated by a test that the field is absent/AUTO: an explicitly supplied value would be overwritten (`%s`)" % (kind, cont, field, short(n, 70)), by=why)
    # finalize writes only positions recorded under the AUTO tests
    po = m.funcs["autofill_parse_offsets"]
    where = "%s:autofill_parse_offsets" % m.rel
    for lst, field in (("next_parse_offsets_to_autofill", "next_parse_offset"), ("previous_parse_offsets_to_autofill", "previous_parse_offset")):
        apps = [c for c in ast.walk(po) if isinstance(c, ast.Call) and dotted(c.func) == "%s.append" % lst]
        ok = bool(apps) and all(any(is_auto_test(t) is not None and p and is_auto_test(t)[1] == field for t, p in guards_of(c, po)) for c in apps)
        res.check(ok, "C07.a", "autofill_parse_offsets:record:%s" % field, where, "positions are recorded for post-serialisation patching of %s outside its AUTO test" % field, by="recorded only under the AUTO test")


def rule_b(repo, res, m):
    autos = []
    for s in m.tree.body:
        if isinstance(s, ast.Assign) and dotted(s.value) == "AUTO" and isinstance(s.targets[0], ast.Subscript) and isinstance(s.targets[0].value, ast.Subscript) and dotted(s.targets[0].value.value) == "vc2_default_values_with_auto":
            autos.append((dotted(s.targets[0].value.slice), const_str(s.targets[0].slice)))
    res.info["auto_defaults"] = autos
    filled = {}
    for name in AUTOFILLERS[:3]:
        for n in ast.walk(m.funcs[name]):
            if isinstance(n, ast.Assign) and isinstance(n.targets[0], ast.Subscript) and const_str(n.targets[0].slice) and dotted(n.value) != "AUTO":
                filled.setdefault(const_str(n.targets[0].slice), set()).add(name)
    for T, f in autos:
        res.check(f in filled, "C07.b", "auto:%s.%s" % (T, f), "%s" % m.rel, "%s.%s defaults to AUTO but no autofill routine stores a value into %r: the sentinel would reach the serialiser" % (T, f, f), by="filled by %s" % sorted(filled.get(f, [])))
    fn = m.funcs["autofill_and_serialise_stream"]
    where = "%s:autofill_and_serialise_stream" % m.rel
    order = []

    def on(node, st):
        d = dotted(node.func)
        if d in AUTOFILLERS:
            if d == "autofill_parse_offsets_finalize":
                if not {"flushed", "serialised"} <= st.must:
                    order.append("finalize before serialisation/flush")
            elif "serialiser" in st.may:
                order.append("%s after the Serialiser was constructed" % d)
            return st.add(d)
        if d == "Serialiser":
            missing = [a for a in AUTOFILLERS[:3] if a not in st.must]
            if missing:
                order.append("Serialiser constructed before %s" % missing)
            uses_auto = any(dotted(a) == "vc2_default_values_with_auto" for a in node.args) or any(dotted(k.value) == "vc2_default_values_with_auto" for k in node.keywords)
            if not uses_auto:
                order.append("Serialiser not given vc2_default_values_with_auto")
            return st.add("serialiser")
        if d == "parse_stream":
            return st.add("serialised")
        if d and d.endswith(".flush"):
            return st.add("flushed")
        return st

    mf = MustFlow(fn, on).run()
    ex = mf.normal_exit_state()
    res.check(not order and ex is not None and set(AUTOFILLERS) <= ex.must, "C07.b", "pipeline:order", where, "; ".join(order) or "an autofill step is missing on some path", by="3 autofills, Serialiser(with AUTO defaults), parse_stream, flush, finalize")
    # finalize receives the serialiser's context and the two recorded lists
    ok = False
    for n in ast.walk(fn):
        if isinstance(n, ast.Call) and dotted(n.func) == "autofill_parse_offsets_finalize":
            args = [norm(a) for a in n.args]
            ok = len(args) == 4 and args[1].endswith(".context") and args[2] == "next_parse_offsets_to_autofill" and args[3] == "previous_parse_offsets_to_autofill"
    res.check(ok, "C07.b", "pipeline:finalize-arguments", where, "finalize must receive the writer, the serialiser's context and the (next, previous) position lists in that order", by="(writer, serdes.context, next, previous)")


def _is_index_local(fn, name):
    """every assignment of `name` in fn is get_auto(<dict>, "index", <type>)"""
    defs = [n for n in ast.walk(fn) if isinstance(n, ast.Assign) and any(isinstance(t, ast.Name) and t.id == name for t in n.targets)]
    return bool(defs) and all(isinstance(d.value, ast.Call) and dotted(d.value.func) == "get_auto" and len(d.value.args) >= 2 and const_str(d.value.args[1]) == "index" for d in defs)


def rule_c(repo, res, m):
    fn = m.funcs["autofill_major_version"]
    where = "%s:autofill_major_version" % m.rel
    mine = version_implications_used(fn)
    theirs = validator_version_implications(repo)
    res.info["version_implications"] = mine
    for f in sorted(set(mine) | set(theirs)):
        res.check(f in mine and f in theirs, "C07.c", "implication:%s" % f, where, "%s is %s by autofill_major_version and %s by the validator" % (f, "consulted" if f in mine else "NOT consulted", "enforced (%s)" % theirs[f] if f in theirs else "NOT enforced"), by="consulted by both (%s)" % theirs.get(f))
    # the accumulator: the local whose value is stored into <dict>['major_version']
    accs = set(n.value.id for n in ast.walk(fn) if isinstance(n, ast.Assign) and isinstance(n.targets[0], ast.Subscript) and const_str(n.targets[0].slice) == "major_version" and isinstance(n.value, ast.Name))
    if len(accs) != 1:
        raise AnalysisError("autofill_major_version: the store <dict>['major_version'] = <local> was not found (%s)" % sorted(accs))
    ACC = accs.pop()
    # each implication feeds max(ACC, ...)
    bad = []
    for c in ast.walk(fn):
        if isinstance(c, ast.Call) and (dotted(c.func) or "").endswith("_version_implication"):
            p = getattr(c, "_parent", None)
            if not (isinstance(p, ast.Call) and dotted(p.func) == "max" and any(dotted(a) == ACC for a in p.args) and isinstance(getattr(p, "_parent", None), ast.Assign) and dotted(p._parent.targets[0]) == ACC):
                bad.append(dotted(c.func))
    res.check(not bad, "C07.c", "implication:accumulated-with-max", where, "results not folded into %s = max(%s, ...): %s" % (ACC, ACC, bad), by="%s = max(%s, implication)" % (ACC, ACC))
    # field conditions mirror the validator: presets only when the custom flag is set; colour sub-presets only under index == 0
    conds = {}
    for c in ast.walk(fn):
        if isinstance(c, ast.Call) and (dotted(c.func) or "").startswith("preset_") and dotted(c.func).endswith("_version_implication"):
            gs = guards_of(c, fn)
            flags = []
            for t, p in gs:
                if p and isinstance(t, ast.Call) and dotted(t.func) == "get_auto" and const_str(t.args[1]):
                    flags.append(const_str(t.args[1]))
                if p and isinstance(t, ast.Compare) and isinstance(t.left, ast.Name) and len(t.ops) == 1 and isinstance(t.ops[0], ast.Eq) and isinstance(t.comparators[0], ast.Constant) and t.comparators[0].value == 0 and _is_index_local(fn, t.left.id):
                    flags.append("index==0")
            conds[dotted(c.func)] = flags
    # ... and under nothing else: every guard of every implication call is a test of the data unit itself (its parse
    # code, a flag or index read from it, the presence of transform parameters) -- not of anything remembered from
    # earlier data units, so every sequence header and every picture of the sequence is inspected
    for c in ast.walk(fn):
        if isinstance(c, ast.Call) and (dotted(c.func) or "").endswith("_version_implication"):
            extra = []
            for t, pol in guards_of(c, fn):
                for term in (t.values if isinstance(t, ast.BoolOp) and isinstance(t.op, ast.And) and pol else [t]):
                    tt = norm(term)
                    ok = (
                        (pol and isinstance(term, ast.Call) and dotted(term.func) == "get_auto")
                        or (pol and isinstance(term, ast.Compare) and len(term.ops) == 1 and isinstance(term.left, ast.Name) and _is_index_local(fn, term.left.id))
                        or tt == "parse_code == ParseCodes.sequence_header"
                        or (pol and tt == "tp is not None")
                    )
                    if not ok and not pol:
                        tt = "not (%s)" % tt
                        term = ast.parse(tt).body[0].value
                    if not ok:
                        extra.append(short(term, 50))
            res.check(not extra, "C07.c", "unconditional:%s@%d" % (dotted(c.func), sum(1 for o in res.obs if o.key.startswith("unconditional:%s@" % dotted(c.func)))), where, "%s is consulted only under the additional condition(s) %s, which do not come from the data unit being inspected: some sequence headers or pictures of the sequence are then skipped and a feature only they use does not raise the version" % (dotted(c.func), extra), by="guards test the data unit only")
    want = {
        "preset_frame_rate_version_implication": ["custom_frame_rate_flag"],
        "preset_signal_range_version_implication": ["custom_signal_range_flag"],
        "preset_color_spec_version_implication": ["custom_color_spec_flag"],
        "preset_color_primaries_version_implication": ["custom_color_primaries_flag", "index==0", "custom_color_spec_flag"],
        "preset_color_matrix_version_implication": ["custom_color_matrix_flag", "index==0", "custom_color_spec_flag"],
        "preset_transfer_function_version_implication": ["custom_transfer_function_flag", "index==0", "custom_color_spec_flag"],
    }
    for f, w in want.items():
        res.check(conds.get(f) == w, "C07.c", "condition:%s" % f, where, "%s is consulted under %s; the validator reads that field under %s" % (f, conds.get(f), w), by="under %s" % w)
    # the minimum is the validator's minimum
    ok = any(isinstance(n, ast.Assign) and dotted(n.targets[0]) == ACC and dotted(n.value) == "MINIMUM_MAJOR_VERSION" for n in ast.walk(fn))
    res.check(ok, "C07.c", "version:starts-at-minimum", where, "the computed version must start from MINIMUM_MAJOR_VERSION for every sequence", by="MINIMUM_MAJOR_VERSION")
    # the stored value is the computed one
    others = [n for n in ast.walk(fn) if isinstance(n, ast.Assign) and dotted(n.targets[0]) == ACC and not (dotted(n.value) == "MINIMUM_MAJOR_VERSION" or (isinstance(n.value, ast.Call) and dotted(n.value.func) == "max" and any(dotted(a) == ACC for a in n.value.args)))]
    res.check(not others, "C07.c", "version:stored", where, "the stored version %s is also assigned by %s (neither the minimum nor a max-accumulation)" % (ACC, [short(o) for o in others]), by="<dict>['major_version'] = %s, assigned only by the minimum and max-accumulations" % ACC)


def rule_d(repo, res, m):
    fn = m.funcs["autofill_picture_number"]
    where = "%s:autofill_picture_number" % m.rel
    am, afn = repo.func("decoder.assertions:assert_picture_number_incremented_as_expected")
    vmask = [n.right.value for n in ast.walk(afn) if isinstance(n, ast.BinOp) and isinstance(n.op, ast.BitAnd) and isinstance(n.right, ast.Constant)]
    masks = [n.right.value for n in ast.walk(fn) if isinstance(n, ast.BinOp) and isinstance(n.op, ast.BitAnd) and isinstance(n.right, ast.Constant)]
    res.check(bool(masks) and bool(vmask) and set(masks) == set(vmask), "C07.d", "wrap-mask", where, "autofill wraps with %s, the validator with %s" % ([hex(x) for x in masks], [hex(x) for x in vmask]), by="0xFFFFFFFF on both sides")
    # restart per sequence: last_picture_number initialised inside the sequence loop
    ok = False
    for loop in ast.walk(fn):
        if isinstance(loop, ast.For) and "sequences" in norm(loop.iter):
            ipn = fn.args.args[1].arg if len(fn.args.args) > 1 else "initial_picture_number"
            ok = any(isinstance(s, ast.Assign) and isinstance(s.targets[0], ast.Name) and any(isinstance(x, ast.Name) and x.id == ipn for x in ast.walk(s.value)) for s in loop.body)
    res.check(ok, "C07.d", "restart-per-sequence", where, "numbering must restart (from initial_picture_number) inside the per-sequence loop", by="initialised per sequence")
    # increment rule
    pic = frag = None
    for n in ast.walk(fn):
        if isinstance(n, ast.Assign) and dotted(n.targets[0]) == "increment":
            gs = guards_of(n, fn)
            codes = " ".join(norm(t) for t, p in gs)
            if isinstance(n.value, ast.Constant) and n.value.value is True and "low_delay_picture," in codes.replace(")", ",") or (isinstance(n.value, ast.Constant) and n.value.value is True and "ParseCodes.low_delay_picture" in codes and "fragment" not in codes.split("ParseCodes.high_quality_picture")[0]):
                pic = True
            if isinstance(n.value, ast.Compare) and "fragment_slice_count" in norm(n.value) and norm(n.value).endswith("== 0") and "fragment" in codes:
                frag = True
    res.check(bool(pic) and bool(frag), "C07.d", "increment-rule", where, "increment must be unconditional for picture data units and `fragment_slice_count == 0` for fragments (the validator checks the number exactly there)", by="pictures: always; fragments: first fragment only")
    # values: (last + 1) & mask when incrementing, last otherwise; last follows every header
    inc_ok = rep_ok = follow_ok = False
    lastv = "last_picture_number"
    for n in ast.walk(fn):
        if isinstance(n, ast.Assign) and isinstance(n.targets[0], ast.Subscript) and const_str(n.targets[0].slice) == "picture_number":
            v = n.value
            gs = guards_of(n, fn)
            pos = [p for t, p in gs if dotted(t) == "increment"]
            if isinstance(v, ast.BinOp) and isinstance(v.op, ast.BitAnd) and isinstance(v.left, ast.BinOp) and isinstance(v.left.op, ast.Add) and dotted(v.left.left) == lastv and isinstance(v.left.right, ast.Constant) and v.left.right.value == 1 and pos == [True]:
                inc_ok = True
            if dotted(v) == lastv and pos == [False]:
                rep_ok = True
        if isinstance(n, ast.Assign) and dotted(n.targets[0]) == lastv and isinstance(n.value, ast.Subscript) and const_str(n.value.slice) == "picture_number":
            # must not be under the AUTO test: explicit numbers also move the counter
            follow_ok = not any(is_auto_test(t) is not None for t, p in guards_of(n, fn))
    res.check(inc_ok and rep_ok and follow_ok, "C07.d", "values", where, "automatic number = (last + 1) & mask when incrementing, last otherwise; last must follow every header (explicit or automatic)", by="(last + 1) & mask / last; last follows the header")


def _offset_chain(e):
    """X['data_units'][<idx>]['parse_info']['_offset'] -> lin(<idx>) else None"""
    from .c11 import lin

    if isinstance(e, ast.Subscript) and const_str(e.slice) == "_offset" and isinstance(e.value, ast.Subscript) and const_str(e.value.slice) == "parse_info":
        du = e.value.value
        if isinstance(du, ast.Subscript) and isinstance(du.value, ast.Subscript) and const_str(du.value.slice) == "data_units":
            return lin(du.slice)
    return None


def rule_e(repo, res, m):
    from .c11 import lin

    fn = m.funcs["autofill_parse_offsets_finalize"]
    where = "%s:autofill_parse_offsets_finalize" % m.rel
    loops = [n for n in fn.body if isinstance(n, ast.For)]
    its = [dotted(l.iter) for l in loops]
    params = [a.arg for a in fn.args.args]
    res.check(len(loops) == 2 and its == params[2:4], "C07.e", "finalize:only-recorded-positions", where, "finalize must iterate exactly the two recorded position lists %s (found %s)" % (params[2:4], its), by="two loops over the recorded lists")
    if len(loops) != 2:
        return
    for loop, kind in ((loops[0], "next"), (loops[1], "previous")):
        idx = dotted(loop.target.elts[1]) if isinstance(loop.target, ast.Tuple) and len(loop.target.elts) == 2 else None
        writes = [c for c in ast.walk(loop) if isinstance(c, ast.Call) and isinstance(c.func, ast.Attribute) and c.func.attr == "write_uint_lit"]
        ok_w = len(writes) == 1 and isinstance(writes[0].args[0], ast.Constant) and writes[0].args[0].value == 4 and isinstance(writes[0].args[1], ast.Name)
        var = writes[0].args[1].id if ok_w else None
        zero_test = None
        diff = None
        for n in ast.walk(loop):
            if isinstance(n, ast.If):
                z = [b for b in n.body if isinstance(b, ast.Assign) and dotted(b.targets[0]) == var and isinstance(b.value, ast.Constant) and b.value.value == 0]
                d = [b for b in n.orelse if isinstance(b, ast.Assign) and dotted(b.targets[0]) == var and isinstance(b.value, ast.BinOp) and isinstance(b.value.op, ast.Sub)]
                if z and d:
                    zero_test = n.test
                    diff = d[0].value
        ok = False
        if ok_w and zero_test is not None and isinstance(zero_test, ast.Compare) and isinstance(zero_test.ops[0], ast.Eq) and dotted(zero_test.left) == idx:
            rhs = zero_test.comparators[0]
            l, r = _offset_chain(diff.left), _offset_chain(diff.right)
            if kind == "next":
                bound_ok = isinstance(rhs, ast.BinOp) and isinstance(rhs.op, ast.Sub) and isinstance(rhs.right, ast.Constant) and rhs.right.value == 1 and isinstance(rhs.left, ast.Call) and dotted(rhs.left.func) == "len" and "data_units" in norm(rhs.left)
                ok = bound_ok and l == "1+%s*1" % idx and r == "%s*1" % idx
            else:
                bound_ok = isinstance(rhs, ast.Constant) and rhs.value == 0
                ok = bound_ok and l == "%s*1" % idx and r == "-1+%s*1" % idx
        res.check(ok, "C07.e", "finalize:%s-offset" % kind, where, ("next offset must be 0 for the last data unit of the sequence and (_offset of unit i+1) - (_offset of unit i) otherwise" if kind == "next" else "previous offset must be 0 for the first data unit and (_offset of unit i) - (_offset of unit i-1) otherwise"), by="0 at the boundary, distance between recorded parse_info offsets otherwise")
        # patched position: _offset of unit i + 5 (next) / + 9 (previous)
        seeks = [c for c in ast.walk(loop) if isinstance(c, ast.Call) and isinstance(c.func, ast.Attribute) and c.func.attr == "seek" and len(c.args) == 1 and not isinstance(c.args[0], ast.Starred)]
        base = None
        for n in ast.walk(loop):
            if isinstance(n, ast.Assign) and isinstance(n.targets[0], ast.Name) and _offset_chain(n.value) == "%s*1" % idx:
                base = n.targets[0].id
        want = 5 if kind == "next" else 9
        ok = len(seeks) == 1 and base is not None and lin(seeks[0].args[0]) == "%d+%s*1" % (want, base)
        res.check(ok, "C07.e", "finalize:%s-field-position" % kind, where, "the %s_parse_offset field sits %d bytes into the parse_info (4 prefix + 1 parse code%s); patched at `%s`" % (kind, want, " + 4 next offset" if kind == "previous" else "", norm(seeks[0].args[0]) if seeks else None), by="_offset + %d, 4-byte literal" % want)
    # padding / auxiliary data: next offset = header + payload length
    po = m.funcs["autofill_parse_offsets"]
    ok = False
    for n in ast.walk(po):
        if isinstance(n, ast.Assign) and isinstance(n.targets[0], ast.Subscript) and const_str(n.targets[0].slice) == "next_parse_offset" and isinstance(n.value, ast.BinOp) and isinstance(n.value.op, ast.Add):
            parts = {norm(n.value.left), norm(n.value.right)}
            ok = "PARSE_INFO_HEADER_BYTES" in parts and any(p_.startswith("len(") for p_ in parts)
    res.check(ok, "C07.e", "padding-aux:offset-from-payload", "%s:autofill_parse_offsets" % m.rel, "for padding/auxiliary data the automatic next offset must be the header size plus the payload length (it determines how many bytes are read back)", by="PARSE_INFO_HEADER_BYTES + len(payload)")


def seq_loops(fn):
    """for-loops of fn that iterate over stream['sequences'] / stream.get('sequences', ...)
    (optionally through enumerate)."""
    out = []
    for n in ast.walk(fn):
        if isinstance(n, ast.For):
            it = n.iter
            if isinstance(it, ast.Call) and dotted(it.func) == "enumerate" and it.args:
                it = it.args[0]
            k = None
            if isinstance(it, ast.Call) and isinstance(it.func, ast.Attribute) and it.func.attr == "get" and it.args:
                k = const_str(it.args[0])
            elif isinstance(it, ast.Subscript):
                k = const_str(it.slice)
            if k == "sequences":
                out.append(n)
    return out


def rule_f(repo, res, m):
    from ..locals_da import LocalsDA, scope_locals

    for name, fn in m.funcs.items():
        loops = seq_loops(fn)
        if not loops:
            continue
        where = "%s:%s" % (m.rel, name)
        fl = scope_locals(fn)
        for li, loop in enumerate(loops):
            rebound = set()
            for s in loop.body:
                for n in ast.walk(s):
                    if isinstance(n, ast.Name) and isinstance(n.ctx, (ast.Store, ast.Del)):
                        rebound.add(n.id)
            tnames = set(x.id for x in ast.walk(loop.target) if isinstance(x, ast.Name))
            params = sorted((fl - rebound) | tnames)
            synth = ast.FunctionDef(
                name="_per_sequence", args=ast.arguments(posonlyargs=[], args=[ast.arg(arg=p) for p in params], vararg=None, kwonlyargs=[], kw_defaults=[], kwarg=None, defaults=[]),
                body=[ast.For(target=ast.Name(id="__s", ctx=ast.Store()), iter=ast.Constant(value=()), body=loop.body, orelse=[])], decorator_list=[], returns=None, type_comment=None,
            )
            da = LocalsDA(synth)
            fails = da.run()
            carried = {}
            for f in fails:
                if f.name in rebound - tnames:
                    carried.setdefault(f.name, f.node)
            for v in sorted(rebound - tnames):
                key = "%s:sequence-loop%s:%s" % (name, "" if len(loops) == 1 else "#%d" % li, v)
                if v in carried:
                    res.bad("C07.f", key, where, "local %r is read at line %d with a value that may come from the previous sequence (or from before the loop over sequences): it is not definitely assigned within the current sequence's iteration before that read" % (v, getattr(carried[v], "lineno", 0)))
                else:
                    res.ok("C07.f", key, where, by="definitely assigned within the iteration before every read")


def rule_h(repo, res, m):
    from ..tables import fixeddicts

    decl = {}
    for fd in fixeddicts(repo):
        if fd.var:
            decl.setdefault(fd.var, set()).update(fd.entries)
    seen = {}

    def nth(k):
        seen[k] = seen.get(k, 0) + 1
        return "%s#%d" % (k, seen[k])

    for name in AUTOFILLERS[:3] + ("get_transform_parameters",):
        fn = m.funcs.get(name)
        if fn is None:
            raise AnalysisError("anchor vanished: %s:%s" % (AF, name))
        where = "%s:%s" % (m.rel, name)
        for c in sorted((x for x in ast.walk(fn) if isinstance(x, ast.Call)), key=lambda x: (x.lineno, x.col_offset)):
            if not isinstance(c, ast.Call):
                continue
            if dotted(c.func) == "get_auto" and len(c.args) == 3:
                key, T = const_str(c.args[1]), dotted(c.args[2])
                ok = key is not None and T in decl and key in decl[T]
                res.check(ok, "C07.h", nth("%s:get_auto:%s.%s" % (name, T, key)), where, "get_auto(%s, %r, %s): %s does not declare %r, so the default looked up is not this field's" % (short(c.args[0], 30), key, T, T, key), by="%s declares %r" % (T, key))
            elif isinstance(c.func, ast.Attribute) and c.func.attr == "get" and c.args and const_str(c.args[0]) is not None and not c.keywords:
                key = const_str(c.args[0])
                d = c.args[1] if len(c.args) > 1 else None
                why = None
                if d is None:
                    if key == "parse_code":
                        why = "bare get of parse_code (None matches no parse code; the documented default, end_of_sequence, is neither a picture nor padding/auxiliary data)"
                elif isinstance(d, (ast.Dict, ast.List)) and not (d.keys if isinstance(d, ast.Dict) else d.elts):
                    why = "empty container for an absent sub-structure"
                elif dotted(d) == "AUTO":
                    why = "AUTO (absence test)"
                elif isinstance(d, ast.Subscript) and isinstance(d.value, ast.Subscript) and dotted(d.value.value) == "vc2_default_values_with_auto" and const_str(d.slice) == key and dotted(d.value.slice) in decl and key in decl[dotted(d.value.slice)]:
                    why = "documented default of %s.%s" % (dotted(d.value.slice), key)
                res.check(why is not None, "C07.h", nth("%s:get:%s" % (name, key)), where, "`%s` reads field %r with a default that is not the documented one (an omitted field must take its documented default; use get_auto or vc2_default_values_with_auto[T][%r])" % (short(c, 80), key, key), by=why or "")


def version_logging_rule(repo, res, rid):
    """validator side of the version rule: every implication the validator computes is logged as a lower bound on
    every path on which it does not reject the stream (otherwise a correctly labelled stream is rejected as
    MajorVersionTooHigh at the end of the sequence)"""
    n = 0
    for spec in ("decoder.stream", "decoder.sequence_header", "decoder.picture_syntax"):
        m = repo.mod(spec)
        for fname, fn in sorted(m.funcs.items()):
            for a in ast.walk(fn):
                if not (isinstance(a, ast.Assign) and isinstance(a.value, ast.Call) and (dotted(a.value.func) or "").endswith("_version_implication") and isinstance(a.targets[0], ast.Name)):
                    continue
                v = a.targets[0].id
                blk = None
                p = getattr(a, "_parent", None)
                for field in ("body", "orelse", "finalbody"):
                    b = getattr(p, field, None)
                    if isinstance(b, list) and any(x is a for x in b):
                        blk = b
                n += 1
                ok = False
                if blk is not None:
                    rest = blk[[i for i, x in enumerate(blk) if x is a][0] + 1:]
                    for x in rest:
                        if isinstance(x, ast.Expr) and isinstance(x.value, ast.Call) and dotted(x.value.func) == "log_version_lower_bound" and len(x.value.args) == 2 and dotted(x.value.args[1]) == v:
                            ok = True
                            break
                        if isinstance(x, ast.If) and not x.orelse and x.body and isinstance(x.body[-1], ast.Raise) and not any(isinstance(y, ast.Call) and dotted(y.func) == "log_version_lower_bound" for y in ast.walk(x)):
                            continue  # the rejection itself
                        if isinstance(x, ast.Assign) and all(isinstance(t, ast.Name) and t.id != v for t in x.targets):
                            continue  # a local the rejection test uses
                        break
                res.check(ok, rid, "validator-logs:%s:%s" % (fname, dotted(a.value.func)), "%s:%s" % (m.rel, fname), "the result of %s must be passed to log_version_lower_bound on every path that does not raise (right after the `if state['major_version'] < ...: raise`), otherwise a stream that needs this version and says so is rejected as MajorVersionTooHigh" % dotted(a.value.func), by="log_version_lower_bound(state, %s) follows the rejection test" % v)
    if n < 8:
        raise AnalysisError("only %d version implications found in the validator" % n)
