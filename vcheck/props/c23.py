"""C23 Raw picture files round-trip and comparisons are exact (structural part,
thin).

Equality of values after a write/read cycle and correctness of pixel counts are
arithmetic on runtime arrays and are not decided.  What the shape of the code
decides: the reader is the mirror of the writer (same component order and
geometry source, byte k of a sample carries weight 256^k on both sides, every
byte position visited), the metadata keys written are the keys read and every
enumeration-typed video parameter is re-typed on reading, the pair of file
names is derived from one base name, and the comparison tool's exit status is 0
exactly on the path on which every metadata comparison passed and the
per-component comparison reported identity.
"""
import ast

from ..core import AnalysisError, const_str, dotted, norm, short, pfind, pmatch
from ..report import Result
from ..mustflow import MustFlow
from .. import tables

FF = "file_format"
CMP = "scripts.vc2_picture_compare"


def check(repo, tier="quick"):
    res = Result("C23")
    res.explanation = (
        "Mirror check between write_picture and read_picture (component iteration, array geometry, per-byte weights and loop coverage), "
        "written-keys = read-keys agreement for the metadata, enum re-typing table against the VideoParameters schema, and must/may flow "
        "over compare_pictures (which status each exit returns and which comparisons dominate it)."
    )
    res.rule("C23.a", "samples: writer and reader iterate compute_dimensions_and_depths(video_parameters, picture_coding_mode).items() with the same (height, width, bytes_per_sample) geometry; the writer stores the low 8 bits into byte k and shifts right by 8 for k = 0..bytes-1, the reader accumulates bytes from the most significant down with a left shift of 8: byte k has weight 256^k on both sides and every byte position is visited")
    res.rule("C23.b", "metadata: the JSON keys written are exactly the keys read; picture_number is written with str() and read with int(); picture_coding_mode written as int and re-typed; every enumeration-typed VideoParameters entry is re-typed by the reader with the schema's enumeration")
    res.rule("C23.c", "file pair: write()/read() derive the .json and .raw names from one base name and hand the same (video parameters, coding mode, picture number) to the picture reader that the metadata reader returned")
    res.rule("C23.d", "comparison tool: status 0 is returned only after video parameters, coding mode and picture number compared equal and measure_differences reported identity; measure_differences reports identity iff no component has a non-zero difference; each mismatch kind has its own non-zero status; main() propagates it")

    m = repo.mod(FF)
    for f in ("write_picture", "read_picture", "write_metadata", "read_metadata", "write", "read", "get_metadata_and_picture_filenames"):
        if f not in m.funcs:
            raise AnalysisError("anchor vanished: file_format.%s" % f)
    rule_a(repo, res, m)
    rule_b(repo, res, m)
    rule_c(repo, res, m)
    rule_d(repo, res)
    from .. import globals_state, lints

    globals_state.rule(repo, res, "C23.e", ["file_format", "dimensions_and_depths", "scripts.vc2_picture_compare"], what="what is written or compared for one picture")
    lints.rule(repo, res, "C23.e", ["file_format", "dimensions_and_depths", "scripts.vc2_picture_compare"])
    res.rule("C23.e", "no state kept between pictures; bug-pattern rules")
    res.floor("C23.a", 6)
    res.floor("C23.b", 5)
    res.floor("C23.c", 3)
    res.floor("C23.d", 6)
    res.floor("C23.e", 5)
    res.assumptions = [
        "numpy integer arithmetic on dtype=object arrays is exact; masking of unused high bits on reading is arithmetic and not decided",
        "equality of values after a round trip and correctness of the reported pixel counts are behaviour and are not decided",
    ]
    res.trusted = ["VideoParameters schema (vc2_conformance/pseudocode/video_parameters.py fixeddict declaration)"]
    return res


def _dims_loop(fn):
    """the `for comp, (w, h, depth, bps) in <dims>.items()` loop and its names"""
    for n in fn.body:
        if isinstance(n, ast.For) and isinstance(n.target, ast.Tuple) and len(n.target.elts) == 2 and isinstance(n.target.elts[1], ast.Tuple) and len(n.target.elts[1].elts) == 4 and isinstance(n.iter, ast.Call) and isinstance(n.iter.func, ast.Attribute) and n.iter.func.attr == "items":
            comp = dotted(n.target.elts[0])
            w, h, d, b = [dotted(e) for e in n.target.elts[1].elts]
            src = dotted(n.iter.func.value)
            ds = [a.value for a in fn.body if isinstance(a, ast.Assign) and dotted(a.targets[0]) == src]
            return n, comp, (w, h, d, b), (ds[0] if len(ds) == 1 else None)
    return None, None, None, None


def rule_a(repo, res, m):
    rule_bytes_per_sample(repo, res)
    wp, rp = m.funcs["write_picture"], m.funcs["read_picture"]
    where = m.rel
    wl, wc, wn, wsrc = _dims_loop(wp)
    rl, rc, rn, rsrc = _dims_loop(rp)
    if wl is None or rl is None:
        raise AnalysisError("write_picture/read_picture: component loop over compute_dimensions_and_depths(...).items() not recognised")
    wparams = [a.arg for a in wp.args.args]
    rparams = [a.arg for a in rp.args.args]
    ok = (isinstance(wsrc, ast.Call) and dotted(wsrc.func) == "compute_dimensions_and_depths" and [dotted(a) for a in wsrc.args] == wparams[1:3]
          and isinstance(rsrc, ast.Call) and dotted(rsrc.func) == "compute_dimensions_and_depths" and [dotted(a) for a in rsrc.args] == rparams[0:2])
    res.check(ok, "C23.a", "geometry:same-source", where, "both sides must take component order, sizes and bytes per sample from compute_dimensions_and_depths(video_parameters, picture_coding_mode)", by="compute_dimensions_and_depths(video_parameters, picture_coding_mode).items() on both sides")
    # the tuple positions have the same meaning on both sides: (width, height, depth_bits, bytes_per_sample) used in the same roles
    w_w, w_h, w_d, w_b = wn
    r_w, r_h, r_d, r_b = rn
    wshape = pfind("np.zeros((%s, %s, %s), dtype=np.uint8)" % (w_h, w_w, w_b), wl)[0]
    rshape = None
    for c in ast.walk(rl):
        if isinstance(c, ast.Call) and isinstance(c.func, ast.Attribute) and c.func.attr == "reshape" and [dotted(a) for a in c.args] == [r_h, r_w, r_b]:
            rshape = c
    rcount = pfind("E_f.read(%s * %s * %s)" % (r_h, r_w, r_b), rl)[0] or pfind("E_f.read(%s * %s * %s)" % (r_w, r_h, r_b), rl)[0]
    res.check(wshape is not None and rshape is not None and rcount is not None, "C23.a", "geometry:height-width-bytes", where, "the writer must lay samples out as (height, width, bytes_per_sample) uint8 and the reader must read height*width*bytes_per_sample bytes and reshape them the same way", by="(height, width, bytes_per_sample) on both sides")
    # writer byte loop
    wfor = None
    for n in ast.walk(wl):
        if isinstance(n, ast.For) and n is not wl and isinstance(n.iter, ast.Call) and dotted(n.iter.func) == "range" and len(n.iter.args) == 1 and dotted(n.iter.args[0]) == w_b:
            wfor = n
    ok = False
    if wfor is not None:
        k = dotted(wfor.target)
        st, e1 = pfind("E_out[:, :, %s] = X_v & 255" % k, wfor)
        sh = pfind("X_v >>= 8", wfor, {"X_v": e1["X_v"]} if e1 else None)[0] if e1 else None
        # the shift may be skipped only for the last byte
        cond_ok = True
        if sh is not None:
            p = getattr(sh, "_parent", None)
            if isinstance(p, ast.If):
                cond_ok = norm(p.test) in ("%s != %s - 1" % (k, w_b), "%s < %s - 1" % (k, w_b))
        ok = st is not None and sh is not None and cond_ok and wfor.body.index(st if st in wfor.body else wfor.body[0]) == 0
    res.check(ok, "C23.a", "writer:byte-k-is-bits-8k", where, "write_picture must store `values & 0xFF` into byte k and then shift the values right by 8, for k = 0 .. bytes_per_sample - 1 (little endian)", by="out[:, :, k] = values & 0xFF; values >>= 8")
    # the writer's values come from picture[component]; the bytes written are the array
    src_ok = pfind("X_v = np.array(%s[%s], dtype=object)" % (wparams[0], wc), wl)[0] is not None
    out_ok = any(isinstance(c, ast.Call) and isinstance(c.func, ast.Attribute) and c.func.attr == "write" and dotted(c.func.value) == wparams[3] and c.args and isinstance(c.args[0], ast.Call) and isinstance(c.args[0].func, ast.Attribute) and c.args[0].func.attr == "tobytes" for c in ast.walk(wl))
    res.check(src_ok and out_ok, "C23.a", "writer:source-and-sink", where, "the writer must convert picture[component] with dtype=object (exact integers) and write the byte array of every component to the file", by="np.array(picture[component], dtype=object) ... file.write(out.tobytes())")
    # reader byte loop: most significant first, shift then add
    rfor = None
    for n in ast.walk(rl):
        if isinstance(n, ast.For) and n is not rl and isinstance(n.iter, ast.Call) and dotted(n.iter.func) == "reversed" and n.iter.args and isinstance(n.iter.args[0], ast.Call) and dotted(n.iter.args[0].func) == "range" and len(n.iter.args[0].args) == 1 and dotted(n.iter.args[0].args[0]) == r_b:
            rfor = n
    ok = False
    if rfor is not None:
        k = dotted(rfor.target)
        add, e1 = pfind("X_v += E_d[:, :, %s]" % k, rfor)
        sh = pfind("X_v <<= 8", rfor, {"X_v": e1["X_v"]} if e1 else None)[0] if e1 else None
        order = add is not None and sh is not None and sh.lineno < add.lineno
        cond_ok = True
        if sh is not None:
            p = getattr(sh, "_parent", None)
            if isinstance(p, ast.If):
                cond_ok = norm(p.test) in ("%s != %s - 1" % (k, r_b), "%s < %s - 1" % (k, r_b))
        ok = order and cond_ok
    res.check(ok, "C23.a", "reader:byte-k-has-weight-256^k", where, "read_picture must accumulate the bytes from k = bytes_per_sample - 1 down to 0 as values = (values << 8) + byte k (the shift skipped only before the first, most significant byte)", by="for k descending: values <<= 8; values += data[:, :, k]")
    # reader starts from exact zeros and stores into picture[component]
    z = pfind("X_v = np.zeros((%s, %s), dtype=object)" % (r_h, r_w), rl)[0] is not None
    stv = pfind("E_p[%s] = X_v.tolist()" % rc, rl)[0] is not None
    res.check(z and stv, "C23.a", "reader:exact-integers", where, "the reader must accumulate into a dtype=object zero array of (height, width) and store its list form under picture[component]", by="np.zeros((height, width), dtype=object) ... picture[component] = values.tolist()")


def rule_bytes_per_sample(repo, res):
    """compute_dimensions_and_depths: bytes_per_sample = smallest power of two >= ceil(depth_bits / 8)"""
    from ..core import pmatch

    dm = repo.mod("dimensions_and_depths")
    fn = dm.funcs.get("compute_dimensions_and_depths")
    if fn is None:
        raise AnalysisError("anchor vanished: dimensions_and_depths.compute_dimensions_and_depths")
    where = "%s:compute_dimensions_and_depths" % dm.rel
    # the value passed as the 4th field of DimensionsAndDepths(...)
    ok = False
    found = "constructor call not found"
    for c in ast.walk(fn):
        if isinstance(c, ast.Call) and dotted(c.func) == "DimensionsAndDepths" and len(c.args) == 4 and isinstance(c.args[3], ast.Name) and isinstance(c.args[2], ast.Name):
            b, d = c.args[3].id, c.args[2].id
            blk = None
            for owner in ast.walk(fn):
                body = getattr(owner, "body", None)
                if isinstance(body, list) and any(isinstance(x, ast.Assign) and dotted(x.targets[0]) == b for x in body):
                    blk = body
            defs = [x for x in (blk or []) if isinstance(x, ast.Assign) and dotted(x.targets[0]) == b]
            found = "; ".join(short(x, 60) for x in defs)
            if len(defs) == 2:
                step1 = norm(defs[0].value) in (norm(ast.parse("(%s + 7) // 8" % d).body[0].value), norm(ast.parse("-(-%s // 8)" % d).body[0].value))
                step2 = norm(defs[1].value) in (norm(ast.parse("1 << intlog2(%s)" % b).body[0].value), norm(ast.parse("2 ** intlog2(%s)" % b).body[0].value))
                ok = step1 and step2
            elif len(defs) == 1:
                ok = norm(defs[0].value) in (norm(ast.parse("1 << intlog2((%s + 7) // 8)" % d).body[0].value), norm(ast.parse("2 ** intlog2((%s + 7) // 8)" % d).body[0].value))
    res.check(ok, "C23.a", "geometry:bytes-per-sample", where, "bytes_per_sample must be ceil(depth_bits / 8) rounded up to a power of two -- `(depth_bits + 7) // 8` then `1 << intlog2(...)` (found `%s`): any other rounding gives 0 bytes for shallow components or too few for deep ones, and both the writer and the reader take the number of bytes per sample from here" % found, by="1 << intlog2((depth_bits + 7) // 8)")


def rule_b(repo, res, m):
    wm, rm = m.funcs["write_metadata"], m.funcs["read_metadata"]
    where = m.rel
    written = None
    for d in ast.walk(wm):
        if isinstance(d, ast.Dict) and d.keys and all(const_str(k) is not None for k in d.keys) and "picture_number" in [const_str(k) for k in d.keys]:
            written = dict(zip([const_str(k) for k in d.keys], d.values))
    if written is None:
        raise AnalysisError("write_metadata: JSON dictionary literal not found")
    read = {}
    md = None
    for a in rm.body:
        if isinstance(a, ast.Assign) and isinstance(a.value, ast.Call) and dotted(a.value.func) == "json.loads":
            md = dotted(a.targets[0])
    for n in ast.walk(rm):
        if isinstance(n, ast.Subscript) and dotted(n.value) == md and const_str(n.slice) is not None:
            read[const_str(n.slice)] = n
    res.check(md is not None and set(written) == set(read), "C23.b", "metadata:keys-written=keys-read", where, "write_metadata writes %s, read_metadata reads %s" % (sorted(written), sorted(read)), by=", ".join(sorted(written)))
    wparams = [a.arg for a in wm.args.args]
    pn = written.get("picture_number")
    ok = isinstance(pn, ast.Call) and dotted(pn.func) == "str" and norm(pn.args[0]) == "%s['pic_num']" % wparams[0]
    rpn = read.get("picture_number")
    ok2 = rpn is not None and isinstance(getattr(rpn, "_parent", None), ast.Call) and dotted(rpn._parent.func) == "int"
    res.check(ok and ok2, "C23.b", "metadata:picture-number-str-int", where, "the picture number must be written as str(picture['pic_num']) (JSON numbers lose precision beyond 2^53) and read back with int()", by="str(...) / int(...)")
    pcm = written.get("picture_coding_mode")
    ok = isinstance(pcm, ast.Call) and dotted(pcm.func) == "int" and dotted(pcm.args[0]) == wparams[2]
    rpcm = read.get("picture_coding_mode")
    ok2 = rpcm is not None and isinstance(getattr(rpcm, "_parent", None), ast.Call) and dotted(rpcm._parent.func) == "PictureCodingModes"
    res.check(ok and ok2, "C23.b", "metadata:coding-mode-retyped", where, "picture_coding_mode must be written as int and read back as PictureCodingModes(...)", by="int(...) / PictureCodingModes(...)")
    # video parameters: all items written, wrapped in VideoParameters on reading
    vp = written.get("video_parameters")
    ok = isinstance(vp, ast.DictComp) and norm(vp.generators[0].iter) == "%s.items()" % wparams[1] and not vp.generators[0].ifs
    rvp = read.get("video_parameters")
    ok2 = rvp is not None and isinstance(getattr(rvp, "_parent", None), ast.Call) and dotted(rvp._parent.func) == "VideoParameters"
    res.check(ok and ok2, "C23.b", "metadata:all-video-parameters", where, "every item of video_parameters must be written and the reader must rebuild a VideoParameters from them", by="{k: v for k, v in video_parameters.items()} / VideoParameters(...)")
    # enum re-typing table vs schema
    schema = {}
    for fd in tables.fixeddicts(repo):
        if fd.var == "VideoParameters":
            for name, e in fd.entries.items():
                en = getattr(e, "enum", None)
                if en:
                    schema[name] = en.split(".")[-1]
    got = {}
    for n in ast.walk(rm):
        if isinstance(n, ast.For) and isinstance(n.iter, (ast.List, ast.Tuple)) and isinstance(n.target, ast.Tuple) and len(n.target.elts) == 2:
            for t in n.iter.elts:
                if isinstance(t, ast.Tuple) and len(t.elts) == 2 and const_str(t.elts[0]):
                    got[const_str(t.elts[0])] = dotted(t.elts[1])
            nm, ty = [dotted(e) for e in n.target.elts]
            body_ok = any(pmatch("E_vp[%s] = %s(E_vp[%s])" % (nm, ty, nm), b) is not None for b in n.body)
            if not body_ok:
                got = {"<loop body>": "not `vp[name] = type(vp[name])`"}
    if not schema:
        raise AnalysisError("VideoParameters schema: no enum-typed entries found")
    res.check(got == schema, "C23.b", "metadata:enum-entries-retyped", where, "enumeration-typed VideoParameters entries are %s; the reader re-types %s: an entry left as a plain int compares unequal in type-sensitive consumers and prints differently" % (schema, got), by="%d enum entries re-typed with the schema's enumerations" % len(schema))


def rule_c(repo, res, m):
    where = m.rel
    rd = m.funcs["read"]
    fnp = rd.args.args[0].arg
    names = pfind("X_m, X_p = get_metadata_and_picture_filenames(%s)" % fnp, rd)
    ok = names[0] is not None
    e = names[1] or {}
    md = pfind("with open(%s, 'rb') as X_f:\n    STMTS_" % e.get("X_m", "?"), rd)[0]
    pc = pfind("with open(%s, 'rb') as X_f:\n    STMTS_" % e.get("X_p", "?"), rd)[0]
    res.check(ok and md is not None and pc is not None, "C23.c", "read:pair-from-one-name", where, "read() must open the metadata and the picture file named by get_metadata_and_picture_filenames(filename)", by="one base name -> (.json, .raw)")
    # what read_metadata returned is what read_picture receives
    rmcall = [a for a in ast.walk(rd) if isinstance(a, ast.Assign) and isinstance(a.value, ast.Call) and dotted(a.value.func) == "read_metadata"]
    rpcall = [c for c in ast.walk(rd) if isinstance(c, ast.Call) and dotted(c.func) == "read_picture"]
    ok = False
    if len(rmcall) == 1 and len(rpcall) == 1 and isinstance(rmcall[0].targets[0], ast.Tuple):
        got = [dotted(x) for x in rmcall[0].targets[0].elts]
        ok = [dotted(a) for a in rpcall[0].args[:3]] == got
        ret = [r for r in ast.walk(rd) if isinstance(r, ast.Return)]
        ok = ok and len(ret) == 1 and isinstance(ret[0].value, ast.Tuple) and [dotted(x) for x in ret[0].value.elts[1:]] == got[:2]
    res.check(ok, "C23.c", "read:metadata-feeds-picture-reader", where, "read_picture must receive exactly the (video_parameters, picture_coding_mode, picture_number) that read_metadata returned, and read() must return the same parameters", by="read_metadata(...) -> read_picture(...) -> return")
    rmeta = m.funcs["read_metadata"]
    ret = [r for r in ast.walk(rmeta) if isinstance(r, ast.Return)]
    res.check(len(ret) == 1 and isinstance(ret[0].value, ast.Tuple) and len(ret[0].value.elts) == 3, "C23.c", "read_metadata:returns-triple", where, "read_metadata must return (video_parameters, picture_coding_mode, picture_number)", by="3-tuple")


def rule_d(repo, res):
    m, fn = repo.func(CMP + ":compare_pictures")
    where = "%s:compare_pictures" % m.rel
    events = {"vp": "video_parameters", "pcm": "picture_coding_mode", "num": "pic_num"}
    seen_status = {}

    def on(node, st):
        if isinstance(node, ast.If) and isinstance(node.test, ast.Compare) and isinstance(node.test.ops[0], ast.NotEq):
            t = norm(node.test)
            for ev, word in events.items():
                if word in t and all(isinstance(x, ast.Return) or True for x in node.body) and any(isinstance(x, ast.Return) for x in node.body):
                    return st  # the event is added after the if (fall-through means equal)
        if isinstance(node, ast.Call) and dotted(node.func) == "measure_differences":
            return st.add("measured")
        return st

    # statuses
    rets = [r for r in ast.walk(fn) if isinstance(r, ast.Return)]
    codes = []
    for r in rets:
        v = r.value.elts[1] if isinstance(r.value, ast.Tuple) and len(r.value.elts) == 2 else None
        codes.append(v)
    early = {}
    order = []
    for s in fn.body:
        if isinstance(s, ast.If) and isinstance(s.test, ast.Compare) and isinstance(s.test.ops[0], ast.NotEq) and s.body and isinstance(s.body[-1], ast.Return):
            t = norm(s.test)
            for ev, word in events.items():
                if word in t:
                    v = s.body[-1].value.elts[1] if isinstance(s.body[-1].value, ast.Tuple) else None
                    early[ev] = v.value if isinstance(v, ast.Constant) else None
                    order.append(ev)
    res.check(set(early) == {"vp", "pcm", "num"} and all(isinstance(v, int) and v != 0 for v in early.values()) and len(set(early.values())) == 3, "C23.d", "compare:metadata-mismatch-statuses", where, "differences of video parameters, coding mode and picture number must each end the comparison with their own non-zero status (found %s)" % early, by="three early returns with distinct non-zero statuses %s" % sorted(early.values()))
    last = fn.body[-1]
    ok = False
    ident = None
    for a in fn.body:
        if isinstance(a, ast.Assign) and isinstance(a.value, ast.Call) and dotted(a.value.func) == "measure_differences" and isinstance(a.targets[0], ast.Tuple):
            ident = dotted(a.targets[0].elts[0])
    if isinstance(last, ast.Return) and isinstance(last.value, ast.Tuple) and len(last.value.elts) == 2 and ident:
        v = last.value.elts[1]
        ok = isinstance(v, ast.IfExp) and dotted(v.test) == ident and isinstance(v.body, ast.Constant) and v.body.value == 0 and isinstance(v.orelse, ast.Constant) and v.orelse.value not in (0,) + tuple(early.values())
    zero_elsewhere = [r for r in rets if r is not last and isinstance(r.value, ast.Tuple) and isinstance(r.value.elts[1], ast.Constant) and r.value.elts[1].value == 0]
    # the three metadata checks precede measure_differences at the top level
    idx = {ev: i for i, s in enumerate(fn.body) for ev, word in events.items() if isinstance(s, ast.If) and word in norm(s.test) and isinstance(s.test, ast.Compare) and isinstance(s.test.ops[0], ast.NotEq)}
    midx = [i for i, s in enumerate(fn.body) if isinstance(s, ast.Assign) and isinstance(s.value, ast.Call) and dotted(s.value.func) == "measure_differences"]
    dominated = bool(midx) and len(idx) == 3 and all(i < midx[0] for i in idx.values())
    res.check(ok and not zero_elsewhere and dominated, "C23.d", "compare:zero-iff-identical", where, "status 0 must be returned only by the final `return (out, 0 if identical else N)` after the three metadata comparisons and measure_differences", by="0 only when measure_differences reported identity, after the metadata comparisons")
    # deltas = b - a per component over Y, C1, C2 with exact integers
    d, e = pfind("np.array(E_b[X_c], dtype=object) - np.array(E_a[X_c], dtype=object)", fn)
    comps = None
    for g in ast.walk(fn):
        if isinstance(g, ast.comprehension) and isinstance(g.iter, (ast.List, ast.Tuple)) and [const_str(x) for x in g.iter.elts] == ["Y", "C1", "C2"]:
            comps = True
    res.check(d is not None and comps, "C23.d", "compare:exact-differences-all-components", where, "the sample differences must be computed with dtype=object arrays for Y, C1 and C2", by="object-dtype difference per component over Y, C1, C2")
    mm, mf = repo.func(CMP + ":measure_differences")
    w2 = "%s:measure_differences" % mm.rel
    ps, pe = pfind("X_p = {X_c: psnr(X_d, ANY_) for X_c, X_d in %s.items()}" % mf.args.args[0].arg, mf)
    idn = None
    if pe:
        idn = pfind("X_i = all((X_q is None for X_q in %s.values()))" % pe["X_p"], mf)[0]
    ret = [r for r in ast.walk(mf) if isinstance(r, ast.Return)]
    res.check(ps is not None and idn is not None and len(ret) == 1, "C23.d", "measure_differences:identity=all-psnr-none", w2, "identity must be `all(psnr is None ...)` over every component's PSNR", by="identical iff every component's PSNR is None")
    pm_, pf = repo.func(CMP + ":psnr")
    dpar = pf.args.args[0].arg
    # psnr returns None exactly when no delta is non-zero
    none_ret = None
    for n in ast.walk(pf):
        if isinstance(n, ast.If) and any(isinstance(b, ast.Return) and isinstance(b.value, ast.Constant) and b.value.value is None for b in n.body):
            none_ret = n
    from .c20 import inline_locals

    t = norm(inline_locals(pf, none_ret.test)) if none_ret is not None else ""
    ok = none_ret is not None and t in ("np.count_nonzero(%s) == 0" % dpar, "not np.any(%s)" % dpar, "np.all(%s == 0)" % dpar, "np.mean(%s * %s) == 0" % (dpar, dpar), "np.sum(%s * %s) == 0" % (dpar, dpar))
    res.check(ok, "C23.d", "psnr:none-iff-no-difference", "%s:psnr" % pm_.rel, "psnr must return None exactly when the deltas contain no non-zero value (condition found: `%s`)" % t, by="None iff the mean (or sum, or count) of squared deltas is zero")
    cnt = pfind("{X_c: np.count_nonzero(X_d) for X_c, X_d in %s.items()}" % mf.args.args[0].arg, mf)[0]
    res.check(cnt is not None, "C23.d", "measure_differences:pixel-counts", w2, "the differing-pixel count per component must be np.count_nonzero of that component's deltas", by="np.count_nonzero per component")
    # main propagates
    mn = m.funcs.get("main")
    ok = mn is not None and any(isinstance(r, ast.Return) and dotted(r.value) == "exitcode" for r in ast.walk(mn)) and any(isinstance(r, ast.Return) and dotted(r.value) == "final_exitcode" for r in ast.walk(mn))
    ex = False
    for s in m.tree.body:
        if isinstance(s, ast.If) and "__name__" in norm(s.test):
            ex = pfind("sys.exit(main())", s)[0] is not None
    res.check(ok and ex, "C23.d", "main:propagates-status", "%s:main" % m.rel, "main() must return compare_pictures' status (the last non-zero one for directories) and the module entry must be sys.exit(main())", by="return exitcode / final_exitcode; sys.exit(main())")
