"""C17 Constraint-table queries follow set semantics (structural part).

Set algebra over runtime values is behaviour.  What the code's shape decides:
the wildcard subclass never exposes the fields it does not have; the three
table queries are defined in terms of one another so that incremental and
whole-dictionary checks agree; the validator records each accepted value in the
dictionary the next query is filtered by; the CSV reader's ditto/any/range
cells and its per-row, per-column indexing.
"""
import ast

from ..core import AnalysisError, class_methods, const_str, dotted, norm, short, subscript_key
from ..report import Result
from ..mustflow import MustFlow

CT = "constraint_table"
FIELDS = ("_values", "_ranges")


def _guarded_not_any(node, fn, aliases):
    """node (an access <alias>._values) is only evaluated when
    isinstance(<other>, AnyValue) is false."""
    c, p = node, getattr(node, "_parent", None)
    while p is not None and c is not fn:
        if isinstance(p, ast.If):
            t = p.test
            is_any = isinstance(t, ast.Call) and dotted(t.func) == "isinstance" and len(t.args) == 2 and dotted(t.args[0]) in aliases and dotted(t.args[1]) == "AnyValue"
            if is_any and any(c is x for x in p.orelse):
                return True
        if isinstance(p, ast.BoolOp) and isinstance(p.op, ast.And):
            idx = [i for i, v in enumerate(p.values) if v is c]
            if idx:
                for v in p.values[: idx[0]]:
                    if isinstance(v, ast.UnaryOp) and isinstance(v.op, ast.Not) and isinstance(v.operand, ast.Call) and dotted(v.operand.func) == "isinstance" and dotted(v.operand.args[0]) in aliases and dotted(v.operand.args[1]) == "AnyValue":
                        return True
        c, p = p, getattr(p, "_parent", None)
    return False


def check(repo, tier="quick"):
    res = Result("C17")
    res.explanation = (
        "Override/guard discipline between ValueSet and its wildcard subclass AnyValue; definitional agreement of filter_constraint_table, "
        "is_allowed_combination and allowed_values_for; must-store of every accepted value in assert_level_constraint; cell-kind dispatch and "
        "indexing of read_constraints_from_csv; shape of membership, union and range merging."
    )
    res.rule("C17.f", "bug patterns with zero expected instances in this property's modules: swapped same-named arguments, lower-bound guard followed by a decrement of the guarded value, presence of a dictionary entry decided by truthiness; no state kept between calls in the constraint-table module (no cache of tables read)")
    res.rule("C17.g", "disjointness from the universal set: ValueSet.is_disjoint(AnyValue()) is True exactly when the set holds neither values nor ranges (both containers are consulted), and AnyValue.is_disjoint delegates to it")
    res.rule("C17.a", "AnyValue creates neither _values nor _ranges: every ValueSet method that reads them on self is overridden in AnyValue, and every read of them on another operand is reached only when that operand is not an AnyValue")
    res.rule("C17.b", "membership is `in _values` or inclusive containment in some range; union inserts the values and ranges of both operands; add_range merges every stored range that overlaps the (growing) new one and removes covered values")
    res.rule("C17.c", "is_allowed_combination == (filter_constraint_table non-empty); allowed_values_for unions column.get(key, empty) over filter_constraint_table(table, values); the filter keeps a column iff every given key is present with the value in its set (or the column is empty)")
    res.rule("C17.d", "assert_level_constraint: the query is filtered by state['_level_constrained_values'], raises iff the value is not allowed, and on every normal path records the value under the same key in that same dictionary")
    res.rule("C17.e", "read_constraints_from_csv: ditto copies the previous column of the same row (reset per row), 'any' gives AnyValue, one integer gives a value and two a range, cell i of a row lands in column dictionary i under the row's key")

    m = repo.mod(CT)
    _, vs = repo.cls(CT + ":ValueSet")
    _, av = repo.cls(CT + ":AnyValue")
    V, A = class_methods(vs), class_methods(av)
    where = m.rel
    rule_a(res, V, A, av, where)
    rule_b(res, V, where)
    rule_c(repo, res, m, where)
    rule_d(repo, res)
    rule_e(repo, res, m, where)
    from .. import lints as _lints

    _lints.rule(repo, res, "C17.f", ['constraint_table', 'decoder.assertions'])
    from .. import globals_state as _gs

    _gs.rule(repo, res, "C17.f", ['constraint_table', 'level_constraints'], what="the table read from a file or the answer to a query (a second read of a rewritten file, or a caller's edit of an earlier result, would show through)")
    rule_disjoint(repo, res)
    res.floor("C17.g", 2)
    res.floor("C17.f", 3)
    res.floor("C17.a", 8)
    res.floor("C17.b", 6)
    res.floor("C17.c", 4)
    res.floor("C17.d", 4)
    res.floor("C17.e", 6)
    res.assumptions = [
        "values and range bounds are mutually comparable (the CSV reader yields ints and bools only)",
        "negative integers cannot be written in the CSV format ('-' is the range separator); not part of the claim",
        "the whole-table equivalences themselves (random tables and assignments) are behaviour and are not decided",
    ]
    res.trusted = ["Python set semantics for _values/_ranges"]
    return res


def rule_a(res, V, A, av, where):
    init = A.get("__init__")
    creates = [f for f in FIELDS if init is not None and any(isinstance(n, ast.Attribute) and n.attr == f and dotted(n.value) == "self" and isinstance(n.ctx, ast.Store) for n in ast.walk(init))]
    calls_super = init is not None and any(isinstance(n, ast.Call) and "super" in norm(n.func) for n in ast.walk(init))
    lacks = init is not None and not creates and not calls_super
    res.ok("C17.a", "AnyValue.__init__", "%s:AnyValue.__init__" % where, by="creates no fields" if lacks else "creates the fields: overrides not required")
    for name, fn in V.items():
        if name == "__init__":
            continue
        self_reads = [n for n in ast.walk(fn) if isinstance(n, ast.Attribute) and n.attr in FIELDS and dotted(n.value) == "self"]
        calls_readers = [n for n in ast.walk(fn) if isinstance(n, ast.Call) and isinstance(n.func, ast.Attribute) and dotted(n.func.value) == "self" and n.func.attr in V]
        if self_reads:
            res.check((not lacks) or name in A, "C17.a", "ValueSet.%s:overridden" % name, "%s:ValueSet.%s" % (where, name), "ValueSet.%s reads self.%s, which an AnyValue instance does not have, and AnyValue does not override it: calling it on the wildcard raises AttributeError" % (name, self_reads[0].attr), by="overridden in AnyValue")
        # reads on another operand
        params = [a.arg for a in fn.args.args[1:]]
        aliases = set(params)
        for n in ast.walk(fn):
            if isinstance(n, ast.For) and isinstance(n.iter, (ast.List, ast.Tuple)):
                # for a, b in [(self, other), (other, self)]
                tnames = [x.id for x in ast.walk(n.target) if isinstance(x, ast.Name)]
                if any(dotted(e) in params for t in n.iter.elts for e in (t.elts if isinstance(t, ast.Tuple) else [t])):
                    aliases.update(tnames)
        other_reads = [n for n in ast.walk(fn) if isinstance(n, ast.Attribute) and n.attr in FIELDS and dotted(n.value) in aliases and dotted(n.value) != "self"]
        for n in other_reads:
            ok = (not lacks) or _guarded_not_any(n, fn, set(params))
            res.check(ok, "C17.a", "ValueSet.%s:%s.%s-guarded" % (name, dotted(n.value), n.attr), "%s:ValueSet.%s" % (where, name), "ValueSet.%s reads %s.%s without first excluding isinstance(%s, AnyValue): with a wildcard operand this raises AttributeError" % (name, dotted(n.value), n.attr, params[0] if params else "other"), by="only under `not isinstance(other, AnyValue)`")
    # AnyValue's own methods never touch the fields
    for name, fn in A.items():
        bad = [n for n in ast.walk(fn) if isinstance(n, ast.Attribute) and n.attr in FIELDS]
        res.check(not (lacks and bad), "C17.a", "AnyValue.%s:no-field-access" % name, "%s:AnyValue.%s" % (where, name), "AnyValue.%s touches %s which AnyValue instances do not have" % (name, [b.attr for b in bad]), by="no field access")
    # semantic overrides
    c = A.get("__contains__")
    ok = c is not None and [norm(s) for s in c.body if not (isinstance(s, ast.Expr) and isinstance(s.value, ast.Constant))] == ["return True"]
    res.check(ok, "C17.a", "AnyValue.__contains__:always", "%s:AnyValue.__contains__" % where, "the wildcard must contain every value", by="return True")
    add = A.get("__add__")
    ok = add is not None and all(isinstance(r.value, ast.Call) and dotted(r.value.func) == "AnyValue" for r in ast.walk(add) if isinstance(r, ast.Return)) and any(isinstance(r, ast.Return) for r in ast.walk(add))
    res.check(ok, "C17.a", "AnyValue.__add__:absorbing", "%s:AnyValue.__add__" % where, "wildcard + anything must be the wildcard", by="returns AnyValue()")
    vadd = V.get("__add__")
    ok = False
    for n in ast.walk(vadd):
        if isinstance(n, ast.If) and isinstance(n.test, ast.Call) and dotted(n.test.func) == "isinstance" and dotted(n.test.args[1]) == "AnyValue":
            ok = any(isinstance(b, ast.Return) and isinstance(b.value, ast.Call) and dotted(b.value.func) == "AnyValue" for b in n.body)
    res.check(ok, "C17.a", "ValueSet.__add__:wildcard-absorbs", "%s:ValueSet.__add__" % where, "anything + wildcard must be the wildcard", by="returns AnyValue() when other is AnyValue")


def rule_b(res, V, where):
    # __contains__
    c = V["__contains__"]
    vp = c.args.args[1].arg
    has_values = any(isinstance(n, ast.If) and isinstance(n.test, ast.Compare) and isinstance(n.test.ops[0], ast.In) and dotted(n.test.left) == vp and norm(n.test.comparators[0]) == "self._values" and any(isinstance(b, ast.Return) and isinstance(b.value, ast.Constant) and b.value.value is True for b in n.body) for n in ast.walk(c))
    has_ranges = False
    for n in ast.walk(c):
        if isinstance(n, ast.For) and norm(n.iter) == "self._ranges" and isinstance(n.target, ast.Tuple) and len(n.target.elts) == 2:
            lo, hi = [dotted(e) for e in n.target.elts]
            for i in ast.walk(n):
                if isinstance(i, ast.If) and isinstance(i.test, ast.Compare) and len(i.test.ops) == 2 and all(isinstance(o, ast.LtE) for o in i.test.ops) and [dotted(i.test.left)] + [dotted(x) for x in i.test.comparators] == [lo, vp, hi]:
                    has_ranges = any(isinstance(b, ast.Return) and isinstance(b.value, ast.Constant) and b.value.value is True for b in i.body)
    last = c.body[-1]
    ends_false = isinstance(last, ast.Return) and isinstance(last.value, ast.Constant) and last.value.value is False
    rets = [r for r in ast.walk(c) if isinstance(r, ast.Return)]
    res.check(has_values and has_ranges and ends_false and len(rets) == 3, "C17.b", "__contains__:values-or-inclusive-range", "%s:ValueSet.__contains__" % where, "membership must be `value in self._values` or `lower <= value <= upper` for some stored range, False otherwise (values: %s, ranges: %s, default False: %s, %d returns)" % (has_values, has_ranges, ends_false, len(rets)), by="in _values, or lower <= value <= upper for a stored range")
    # __add__: four insertions
    a = V["__add__"]
    op = a.args.args[1].arg
    seen = set()
    outv = None
    for n in ast.walk(a):
        if isinstance(n, ast.Assign) and isinstance(n.value, ast.Call) and norm(n.value.func) in ("type(self)", "ValueSet") and not n.value.args:
            outv = dotted(n.targets[0])
    for n in ast.walk(a):
        if isinstance(n, ast.For):
            src = norm(n.iter)
            for cll in ast.walk(n):
                if isinstance(cll, ast.Call) and isinstance(cll.func, ast.Attribute) and dotted(cll.func.value) == outv:
                    tn = [x.id for x in ast.walk(n.target) if isinstance(x, ast.Name)]
                    if [dotted(x) for x in cll.args] == tn:
                        seen.add((src, cll.func.attr))
    want = {("self._values", "add_value"), ("%s._values" % op, "add_value"), ("self._ranges", "add_range"), ("%s._ranges" % op, "add_range")}
    ret_ok = any(isinstance(r, ast.Return) and dotted(r.value) == outv for r in ast.walk(a))
    res.check(outv is not None and want <= seen and ret_ok, "C17.b", "__add__:union-of-both-operands", "%s:ValueSet.__add__" % where, "the union must insert the values and the ranges of both operands into a new set (missing: %s)" % sorted(want - seen), by="four insertion loops into a fresh set")
    # the union is a new object: every return of __add__ is a constructor call or the fresh local
    rets = [r for r in ast.walk(a) if isinstance(r, ast.Return)]
    aliased = [short(r.value) for r in rets if not ((isinstance(r.value, ast.Call) and (dotted(r.value.func) in ("AnyValue", "ValueSet") or norm(r.value.func) == "type(self)")) or dotted(r.value) == outv)]
    res.check(bool(rets) and not aliased, "C17.b", "__add__:fresh-result", "%s:ValueSet.__add__" % where, "the union returns %s, an operand itself: adding values or ranges to the result (as `out += cell` accumulations then do) silently changes that operand -- e.g. a cell of the constraint table" % aliased, by="every return is a newly constructed set")
    # add_value only when not already a member
    av = V["add_value"]
    p = av.args.args[1].arg
    ok = any(isinstance(n, ast.Call) and norm(n.func) == "self._values.add" and dotted(n.args[0]) == p for n in ast.walk(av))
    res.check(ok, "C17.b", "add_value:stores", "%s:ValueSet.add_value" % where, "add_value must add the value to _values", by="self._values.add(value)")
    # add_range
    ar = V["add_range"]
    lo, hi = ar.args.args[1].arg, ar.args.args[2].arg
    overlap = merged = removed = added = covered = False
    for n in ast.walk(ar):
        if isinstance(n, ast.For) and norm(n.iter) == "self._ranges" and isinstance(n.target, ast.Tuple):
            olo, ohi = [dotted(e) for e in n.target.elts]
            for i in ast.walk(n):
                if isinstance(i, ast.If) and isinstance(i.test, ast.BoolOp) and isinstance(i.test.op, ast.And):
                    conj = set(norm(v) for v in i.test.values)
                    if conj == {"%s <= %s" % (lo, ohi), "%s <= %s" % (olo, hi)}:
                        overlap = True
                        body = [norm(b) for b in i.body]
                        merged = "%s = min(%s, %s)" % (lo, lo, olo) in body and "%s = max(%s, %s)" % (hi, hi, ohi) in body
        if isinstance(n, ast.Call) and norm(n.func) == "self._ranges.remove":
            removed = True
        if isinstance(n, ast.Call) and norm(n.func) == "self._ranges.add" and norm(n.args[0]) == "(%s, %s)" % (lo, hi):
            added = True
        if isinstance(n, ast.For) and "self._values" in norm(n.iter):
            for i in ast.walk(n):
                if isinstance(i, ast.If) and isinstance(i.test, ast.Compare) and len(i.test.ops) == 2 and all(isinstance(o, ast.LtE) for o in i.test.ops) and dotted(i.test.left) == lo and dotted(i.test.comparators[1]) == hi:
                    covered = any(isinstance(c2, ast.Call) and norm(c2.func) == "self._values.remove" for c2 in ast.walk(i))
    last_is_add = isinstance(ar.body[-1], ast.Expr) and isinstance(ar.body[-1].value, ast.Call) and norm(ar.body[-1].value.func) == "self._ranges.add"
    res.check(overlap and merged and removed and added and last_is_add, "C17.b", "add_range:merges-overlapping", "%s:ValueSet.add_range" % where, "add_range must merge every stored range with `lower <= other_upper and other_lower <= upper` using min/max, remove the merged ranges and finally store (lower, upper) (overlap test: %s, min/max: %s, removal: %s, final add: %s)" % (overlap, merged, removed, added and last_is_add), by="overlap test, min/max growth, removal, final add")
    res.check(covered, "C17.b", "add_range:removes-covered-values", "%s:ValueSet.add_range" % where, "single values covered by the new range must be removed (iteration and equality would otherwise see them twice)", by="values with lower <= v <= upper removed")


def rule_c(repo, res, m, where):
    fm, f = repo.func(CT + ":filter_constraint_table")
    tp, vp = f.args.args[0].arg, f.args.args[1].arg
    ok = False
    detail = "return [c for c in table if all(k in c and v in c[k] for k, v in values.items()) or len(c) == 0] not recognised"
    rets = [r for r in ast.walk(f) if isinstance(r, ast.Return)]
    if len(rets) == 1 and isinstance(rets[0].value, ast.ListComp):
        lc = rets[0].value
        g = lc.generators[0]
        col = dotted(g.target)
        if dotted(lc.elt) == col and dotted(g.iter) == tp and len(g.ifs) == 1:
            cond = g.ifs[0]
            disj = cond.values if isinstance(cond, ast.BoolOp) and isinstance(cond.op, ast.Or) else [cond]
            has_all = False
            extra = []
            for d in disj:
                matched = False
                if isinstance(d, ast.Call) and dotted(d.func) == "all" and isinstance(d.args[0], ast.GeneratorExp):
                    ge = d.args[0]
                    gg = ge.generators[0]
                    if norm(gg.iter) == "%s.items()" % vp and isinstance(gg.target, ast.Tuple) and not gg.ifs:
                        k, v = [dotted(e) for e in gg.target.elts]
                        e = ge.elt
                        if isinstance(e, ast.BoolOp) and isinstance(e.op, ast.And) and [norm(x) for x in e.values] == ["%s in %s" % (k, col), "%s in %s[%s]" % (v, col, k)]:
                            has_all = matched = True
                if not matched:
                    extra.append(norm(d))
            ok = has_all and all(x in ("len(%s) == 0" % col, "not %s" % col) for x in extra)
            if not ok:
                detail = "a column is kept under `%s`: it must be kept iff every given key is present and its value is in the column's set (or the column is empty)" % short(cond, 120)
    res.check(ok, "C17.c", "filter_constraint_table:predicate", "%s:filter_constraint_table" % where, detail, by="all(k in col and v in col[k] for k, v in values.items()) or empty column")
    im, i = repo.func(CT + ":is_allowed_combination")
    rets = [r for r in ast.walk(i) if isinstance(r, ast.Return)]
    t = norm(rets[0].value) if len(rets) == 1 else ""
    a0, a1 = i.args.args[0].arg, i.args.args[1].arg
    call = "filter_constraint_table(%s, %s)" % (a0, a1)
    ok = t in ("len(%s) > 0" % call, "len(%s) != 0" % call, "bool(%s)" % call, "len(%s) >= 1" % call)
    res.check(ok, "C17.c", "is_allowed_combination:definition", "%s:is_allowed_combination" % where, "is_allowed_combination must be `filter_constraint_table(table, values)` being non-empty (returns `%s`)" % t, by="len(filter_constraint_table(table, values)) > 0")
    am, a = repo.func(CT + ":allowed_values_for")
    tp, kp, vp = [x.arg for x in a.args.args[:3]]
    anyp = a.args.args[3].arg if len(a.args.args) > 3 else None
    acc = None
    for n in a.body:
        if isinstance(n, ast.Assign) and isinstance(n.value, ast.Call) and dotted(n.value.func) == "ValueSet" and not n.value.args:
            acc = dotted(n.targets[0])
    ok = False
    for n in ast.walk(a):
        if isinstance(n, ast.For) and norm(n.iter) == "filter_constraint_table(%s, %s)" % (tp, vp):
            col = dotted(n.target)
            body = [norm(b) for b in n.body]
            ok = body in (["%s += %s.get(%s, ValueSet())" % (acc, col, kp)], ["%s = %s + %s.get(%s, ValueSet())" % (acc, acc, col, kp)])
    res.check(acc is not None and ok, "C17.c", "allowed_values_for:union-over-filtered-columns", "%s:allowed_values_for" % where, "allowed_values_for must union column.get(key, ValueSet()) over filter_constraint_table(table, values)", by="out += column.get(key, ValueSet()) for column in filter_constraint_table(table, values)")
    # result: out, or any_value when the union is the wildcard
    rets = [r for r in ast.walk(a) if isinstance(r, ast.Return)]
    vals = sorted(dotted(r.value) or "?" for r in rets)
    ok = vals == sorted([acc, anyp]) and any(isinstance(n, ast.If) and norm(n.test) == "isinstance(%s, AnyValue)" % acc and any(isinstance(b, ast.Return) and dotted(b.value) == anyp for b in n.body) for n in ast.walk(a))
    res.check(ok, "C17.c", "allowed_values_for:result", "%s:allowed_values_for" % where, "the result must be the union itself (the substitute only when the union is the wildcard); returns %s" % vals, by="out, or any_value iff out is AnyValue")
    # the default arguments are not mutated
    muts = [n for n in ast.walk(a) if isinstance(n, (ast.Assign, ast.AugAssign)) and any(isinstance(t, ast.Subscript) and dotted(t.value) == vp for t in (n.targets if isinstance(n, ast.Assign) else [n.target]))]
    res.check(not muts, "C17.c", "allowed_values_for:defaults-not-mutated", "%s:allowed_values_for" % where, "the shared default `values={}` is mutated", by="values is only read")


def rule_d(repo, res):
    m, fn = repo.func("decoder.assertions:assert_level_constraint")
    where = "%s:assert_level_constraint" % m.rel
    sp, kp, vp = [a.arg for a in fn.args.args]
    D = "_level_constrained_values"
    q = None
    for n in ast.walk(fn):
        if isinstance(n, ast.Assign) and isinstance(n.value, ast.Call) and dotted(n.value.func) == "allowed_values_for":
            q = n
    ok = q is not None and len(q.value.args) >= 3 and dotted(q.value.args[0]) == "LEVEL_CONSTRAINTS" and dotted(q.value.args[1]) == kp and subscript_key(q.value.args[2], sp) == D
    res.check(ok, "C17.d", "query:filtered-by-recorded-values", where, "the allowed values must be allowed_values_for(LEVEL_CONSTRAINTS, key, state['%s'])" % D, by="allowed_values_for(LEVEL_CONSTRAINTS, key, state['%s'])" % D)
    av = dotted(q.targets[0]) if q is not None else None
    tgt = repo.resolve(m.name, "LEVEL_CONSTRAINTS")
    res.check(tgt is not None and tgt.mod.endswith("level_constraints"), "C17.d", "query:table", where, "LEVEL_CONSTRAINTS must be the table of vc2_conformance.level_constraints", by="level_constraints.LEVEL_CONSTRAINTS")
    problems = []
    stored = [0]

    def on(node, st):
        if isinstance(node, ast.Assign):
            for t in node.targets:
                if isinstance(t, ast.Subscript) and subscript_key(t.value, sp) == D:
                    stored[0] += 1
                    if not (dotted(t.slice) == kp and dotted(node.value) == vp):
                        problems.append("records %s instead of [key] = value" % short(node))
                    return st.add("stored")
        return st

    mf = MustFlow(fn, on, node_types=(ast.Assign,)).run()
    for kind, node, st in mf.exits:
        if kind in ("return", "fallthrough") and "stored" not in st.must:
            problems.append("a normal exit is reachable without recording the value")
    res.check(not problems and stored[0] >= 1, "C17.d", "record:on-every-normal-path", where, "; ".join(sorted(set(problems))) or "no store found", by="state['%s'][key] = value on every normal exit" % D)
    # raise iff not allowed
    ok = False
    for n in ast.walk(fn):
        if isinstance(n, ast.If) and isinstance(n.test, ast.Compare) and len(n.test.ops) == 1 and dotted(n.test.left) == vp and dotted(n.test.comparators[0]) == av:
            raises = any(isinstance(b, ast.Raise) for b in n.body)
            raises_else = any(isinstance(b, ast.Raise) for b in n.orelse)
            if isinstance(n.test.ops[0], ast.NotIn):
                ok = raises and not raises_else
            elif isinstance(n.test.ops[0], ast.In):
                ok = raises_else and not raises
    n_raise = sum(1 for n in ast.walk(fn) if isinstance(n, ast.Raise))
    res.check(ok and n_raise == 1, "C17.d", "verdict:raise-iff-not-member", where, "ValueNotAllowedInLevel must be raised exactly when `value not in allowed_values`", by="raise iff value not in allowed_values")
    # the dictionary exists before the query
    first = [s for s in fn.body if not (isinstance(s, ast.Expr) and isinstance(s.value, ast.Constant))][0]
    ok = isinstance(first, ast.Expr) and isinstance(first.value, ast.Call) and norm(first.value.func) == "%s.setdefault" % sp and const_str(first.value.args[0]) == D
    res.check(ok, "C17.d", "record:dictionary-created-once", where, "state.setdefault('%s', ...) must come first (not a plain assignment, which would forget earlier values)" % D, by="state.setdefault('%s', OrderedDict())" % D)


def rule_e(repo, res, m, where):
    fm, fn = repo.func(CT + ":read_constraints_from_csv")
    w = "%s:read_constraints_from_csv" % where
    row_loop = None
    for n in ast.walk(fn):
        if isinstance(n, ast.For) and isinstance(n.iter, ast.Call) and dotted(n.iter.func) == "csv.reader":
            row_loop = n
    if row_loop is None:
        raise AnalysisError("read_constraints_from_csv: row loop not found")
    row = dotted(row_loop.target)
    col_loop = None
    for n in ast.walk(row_loop):
        if isinstance(n, ast.For) and isinstance(n.iter, ast.Call) and dotted(n.iter.func) == "enumerate" and norm(n.iter.args[0]) == "%s[1:]" % row:
            col_loop = n
    if col_loop is None:
        raise AnalysisError("read_constraints_from_csv: column loop `for i, cell in enumerate(row[1:])` not found")
    idx, cell = [dotted(e) for e in col_loop.target.elts]
    outv = None
    for s in fn.body:
        if isinstance(s, ast.Assign) and isinstance(s.value, ast.List) and not s.value.elts:
            outv = dotted(s.targets[0])
    # key = row[0]
    keyv = None
    for s in row_loop.body:
        if isinstance(s, ast.Assign) and norm(s.value) == "%s[0]" % row:
            keyv = dotted(s.targets[0])
    # store out[i][key] = value
    st = [s for s in col_loop.body if isinstance(s, ast.Assign) and isinstance(s.targets[0], ast.Subscript) and isinstance(s.targets[0].value, ast.Subscript)]
    valv = dotted(st[0].value) if st else None
    ok = len(st) == 1 and norm(st[0].targets[0]) == "%s[%s][%s]" % (outv, idx, keyv) and valv is not None
    res.check(ok, "C17.e", "store:cell-i-to-column-i", w, "cell i of a row must be stored as out[i][row[0]] (found %s)" % [short(s) for s in st], by="%s[%s][%s] = %s" % (outv, idx, keyv, valv))
    # out grows to len(row) - 1 columns
    grow = False
    for s in row_loop.body:
        if isinstance(s, ast.For) and isinstance(s.iter, ast.Call) and dotted(s.iter.func) == "range" and len(s.iter.args) == 2 and norm(s.iter.args[0]) == "len(%s)" % outv and norm(s.iter.args[1]) == "len(%s) - 1" % row:
            grow = any(isinstance(c, ast.Call) and norm(c.func) == "%s.append" % outv and isinstance(c.args[0], ast.Dict) and not c.args[0].keys for c in ast.walk(s))
    res.check(grow, "C17.e", "columns:grown-to-row-width", w, "the column list must be extended with fresh dictionaries up to len(row) - 1 before the row is stored", by="for _ in range(len(out), len(row) - 1): out.append({})")
    # ditto: previous column of the same row
    lastv = None
    for s in col_loop.body:
        if isinstance(s, ast.Assign) and dotted(s.value) == valv and isinstance(s.targets[0], ast.Name) and s is col_loop.body[-1]:
            lastv = s.targets[0].id
    reset = any(isinstance(s, ast.Assign) and dotted(s.targets[0]) == lastv and isinstance(s.value, ast.Call) and dotted(s.value.func) == "ValueSet" and not s.value.args for s in row_loop.body)
    reset_outside = any(isinstance(s, ast.Assign) and dotted(s.targets[0]) == lastv for s in fn.body)
    ditto = False
    anyc = False
    for n in ast.walk(col_loop):
        if isinstance(n, ast.If) and isinstance(n.test, ast.Call) and dotted(n.test.func) == "is_ditto" and dotted(n.test.args[0]) == cell:
            ditto = [norm(b) for b in n.body] in (["%s += %s" % (valv, lastv)], ["%s = %s" % (valv, lastv)], ["%s = %s + %s" % (valv, valv, lastv)])
        if isinstance(n, ast.If) and isinstance(n.test, ast.Compare) and const_str(n.test.comparators[0]) == "any" and cell in norm(n.test.left) and "lower()" in norm(n.test.left):
            anyc = [norm(b) for b in n.body] == ["%s = AnyValue()" % valv]
    res.check(lastv is not None and reset and not reset_outside and ditto, "C17.e", "ditto:previous-column-same-row", w, "a ditto cell must take the value of the previous column of the same row: the remembered value is updated last in the column loop (%s), reset to an empty set for every row (%s) and copied by the ditto branch (%s)" % (lastv is not None, reset and not reset_outside, ditto), by="last_value reset per row, updated per column, copied by ditto")
    jumps = [x for x in ast.walk(col_loop) if isinstance(x, (ast.Continue, ast.Break, ast.Return))]
    all_stores = [x for x in ast.walk(col_loop) if isinstance(x, ast.Assign) and isinstance(x.targets[0], ast.Subscript) and isinstance(x.targets[0].value, ast.Subscript) and dotted(x.targets[0].value.value) == outv]
    res.check(not jumps and len(all_stores) == 1, "C17.e", "ditto:every-column-is-remembered", w, "every cell must reach the end of the column loop, where the value is stored and remembered for a following ditto: no continue/break/return in the loop (found %s) and a single store (found %d) -- a shortcut for some kind of cell would make the next ditto copy an older column" % ([type(j).__name__.lower() for j in jumps], len(all_stores)), by="no early exit from the column loop, one store")
    res.check(anyc, "C17.e", "any:wildcard", w, "a cell reading 'any' (case-insensitive, stripped) must become AnyValue()", by="value = AnyValue()")
    # value / range dispatch
    one = two = False
    for n in ast.walk(col_loop):
        if isinstance(n, ast.If) and isinstance(n.test, ast.Compare) and isinstance(n.test.left, ast.Call) and dotted(n.test.left.func) == "len" and isinstance(n.test.ops[0], ast.Eq):
            k = n.test.comparators[0].value if isinstance(n.test.comparators[0], ast.Constant) else None
            lst = dotted(n.test.left.args[0])
            body = [norm(b) for b in n.body]
            if k == 1 and body == ["%s.add_value(%s[0])" % (valv, lst)]:
                one = True
            if k == 2 and body == ["%s.add_range(%s[0], %s[1])" % (valv, lst, lst)]:
                two = True
    res.check(one and two, "C17.e", "cells:value-or-range", w, "a cell element with one integer must be add_value(v[0]) and with two add_range(v[0], v[1])", by="len == 1 -> add_value; len == 2 -> add_range(low, high)")
    # fresh ValueSet per cell
    fresh = any(isinstance(s, ast.Assign) and dotted(s.targets[0]) == valv and isinstance(s.value, ast.Call) and dotted(s.value.func) == "ValueSet" and not s.value.args for s in col_loop.body[:1])
    res.check(fresh, "C17.e", "cells:fresh-set", w, "every cell must start from a new empty ValueSet (a shared one would leak values between cells)", by="value = ValueSet() first in the column loop")
    # comma separation and the boolean words
    t = norm(col_loop)
    split = any(isinstance(n, ast.For) and isinstance(n.iter, ast.Call) and norm(n.iter.func) == "%s.split" % cell and const_str(n.iter.args[0]) == "," for n in ast.walk(col_loop))
    bools = {}
    for n in ast.walk(col_loop):
        if isinstance(n, ast.IfExp) and isinstance(n.test, ast.Compare) and const_str(n.test.comparators[0]) in ("true", "false") and isinstance(n.body, ast.Constant):
            bools[const_str(n.test.comparators[0])] = n.body.value
    res.check(split and bools == {"true": True, "false": False}, "C17.e", "cells:comma-list-and-booleans", w, "cells are comma-separated lists; TRUE/FALSE map to True/False (found %s)" % bools, by="split(','), true->True, false->False")


def rule_disjoint(repo, res):
    m, vs = repo.cls(CT + ":ValueSet")
    fn = class_methods(vs).get("is_disjoint")
    if fn is None:
        raise AnalysisError("anchor vanished: ValueSet.is_disjoint")
    where = "%s:ValueSet.is_disjoint" % m.rel
    other = fn.args.args[1].arg
    arm = None
    for n in ast.walk(fn):
        if isinstance(n, ast.If) and norm(n.test) == "isinstance(%s, AnyValue)" % other:
            arm = n
    ok = False
    found = "no `if isinstance(other, AnyValue):` arm"
    if arm is not None:
        body = arm.body
        forms_true_iff_empty = (
            ["if self._values or self._ranges: return False\nelse: return True"],
            ["if self._ranges or self._values: return False\nelse: return True"],
            ["return not (self._values or self._ranges)"],
            ["return not (self._ranges or self._values)"],
            ["return not self._values and not self._ranges"],
            ["return not self._ranges and not self._values"],
            ["return len(self._values) == 0 and len(self._ranges) == 0"],
            ["return len(self._ranges) == 0 and len(self._values) == 0"],
        )
        got = [norm(b) for b in body]
        want = [[norm(x) for x in ast.parse(f[0]).body] for f in forms_true_iff_empty]
        ok = got in want
        found = "; ".join(short(b, 60) for b in body)
    res.check(ok, "C17.g", "is_disjoint:any-value-arm", where, "against AnyValue a set is disjoint exactly when it has neither values nor ranges: both self._values and self._ranges must be consulted (found `%s`); a set holding only ranges is otherwise reported disjoint from the universal set" % found, by="True iff not (_values or _ranges)")
    am, av = repo.cls(CT + ":AnyValue")
    afn = class_methods(av).get("is_disjoint")
    ok = afn is not None and any(isinstance(r, ast.Return) and norm(r.value) == "%s.is_disjoint(self)" % afn.args.args[1].arg for r in ast.walk(afn))
    res.check(ok, "C17.g", "AnyValue.is_disjoint:delegates", "%s:AnyValue.is_disjoint" % am.rel, "AnyValue.is_disjoint(other) must return other.is_disjoint(self)", by="other.is_disjoint(self)")
