"""C08 Bitstream deserialiser and validator read identical content
(structural part, thin).

Both parsers are pinned, line by line, to the standard's pseudocode by the
repository's own equivalence test, so their spec parts cannot diverge under a
change that still passes the tests.  What can diverge is what is *not* pinned:
the deserialiser's "not in spec" statements and its bounded-block reader.  This
check classifies every non-spec statement of the description program into a
closed list of forms, each of which is either free of bitstream reads or the
identity on streams the validator accepts, and compares the two bounded-block
read disciplines.
"""
import ast

from ..core import AnalysisError, class_methods, const_str, dotted, norm, short, subscript_key
from ..report import Result

VC2 = "bitstream.vc2"
READ_PRIMS = {"bool", "nbits", "uint_lit", "uint", "sint", "bitarray", "bytes", "byte_align", "bounded_block_begin", "bounded_block_end"}
BOOKKEEPING = {"computed_value", "declare_list", "set_context_type"}
# builtins / stdlib helpers that read nothing from the stream and only build a value from their arguments
PURE_BUILTINS = {"dict", "list", "tuple", "len", "max", "min", "copy", "deepcopy", "copy.copy", "copy.deepcopy"}
PURE_GEOMETRY = {"slice_top", "slice_bottom", "slice_left", "slice_right"}


def free_statements(m, fn):
    """(statement, kind) for top-most statements of fn lying in not-in-spec
    regions: kind 'whole' when every line of the statement is free, 'header'
    when only the header line of a loop is (its body is spec and is descended into)."""
    out = []

    def visit(stmts):
        for s in stmts:
            lines = range(s.lineno, (s.end_lineno or s.lineno) + 1)
            if all(l in m.free_lines for l in lines):
                out.append((s, "whole"))
                continue
            if s.lineno in m.free_lines and isinstance(s, (ast.For, ast.While)):
                hdr_end = s.body[0].lineno - 1
                if all(l in m.free_lines or not _code_line(m, l) for l in range(s.lineno, hdr_end + 1)):
                    out.append((s, "header"))
            for f in ("body", "orelse", "finalbody"):
                visit(getattr(s, f, []) or [])
            for h in getattr(s, "handlers", []) or []:
                visit(h.body)

    visit(fn.body)
    return out


def _code_line(m, l):
    lines = m.src.splitlines()
    t = lines[l - 1].strip() if 0 < l <= len(lines) else ""
    return bool(t) and not t.startswith("#")


def serdes_calls(node):
    return [c for c in ast.walk(node) if isinstance(c, ast.Call) and isinstance(c.func, ast.Attribute) and dotted(c.func.value) == "serdes"]


def check(repo, tier="quick"):
    res = Result("C08")
    res.explanation = (
        "Closed classification of every not-in-spec statement of the description program bitstream/vc2.py (bookkeeping without reads; "
        "enum-robustness substitution matched by a validator rejection; byte-count substitution compared, as a linear form, with the "
        "commented-out pseudocode it replaces; slice-length clamp matched by the validator's raise), and comparison of the bounded-block "
        "read discipline of BitstreamReader with the pinned read_bitb / flush_inputb."
    )
    res.rule("C08.a", "every not-in-spec statement of the description program is of a known form that either reads nothing from the stream or changes nothing on streams the validator accepts")
    res.rule("C08.b", "padding / auxiliary data: the number of bytes read equals the trip count of the commented-out pseudocode loop, max(0, next_parse_offset - 13)")
    res.rule("C08.c", "enum robustness substitutions fire only where the validator's same-named function rejects the value (assert_in_enum on the same enumeration, same index != 0 condition); the ld_slice length clamp fires only where the validator raises InvalidSliceYLength")
    res.rule("C08.e", "the description program and the reader keep no state between streams and pass no same-named coordinates to the wrong parameters")
    res.rule("C08.d", "bounded blocks: BitstreamReader.read_bit consumes exactly the first n bits of an n-bit block and then yields the literal 1 without consuming, as pinned read_bitb does; bounded_block_end hands back max(0, remaining), which the serdes reads, as pinned flush_inputb does")

    res.rule("C08.g", "the validator's side: no not-in-spec statement of a pinned validator function changes what is decoded -- none returns, breaks or continues, none reads from the stream, none stores into a state entry the pseudocode owns (entries without a leading underscore), apart from three reviewed substitutions of a commented-out pseudocode line; and the arithmetic in the validator's reach is exact-integer (C09.f re-evaluated), so values the deserialiser's consumer recomputes agree at any magnitude")
    res.rule("C08.f", "what dequantisation is keyed by: every use of the default quantisation matrix table (validator, encoder, test tooling) builds the key (wavelet_index, wavelet_index_ho, dwt_depth, dwt_depth_ho) from one dictionary, in that order; the per-picture '_state' entry the deserialiser records in transform_data / fragment_data (the documented way to lay coefficients out as the validator does) is a copy taken at that point, not the live dictionary that later data units overwrite")
    m = repo.mod(VC2)
    dm_funcs = {}
    for name, mod in repo.modules.items():
        if name.startswith("vc2_conformance.decoder."):
            for fname, fn in mod.funcs.items():
                dm_funcs.setdefault(fname, (mod, fn))
    n_free = 0
    n_single = 0
    for fname, fn in m.funcs.items():
        if not fn.args.args or fn.args.args[0].arg != "serdes":
            continue
        where = "%s:%s" % (m.rel, fname)
        for s, kind in free_statements(m, fn):
            n_free += 1
            key = "%s:%s" % (fname, short(s, 50))
            if kind == "header":
                classify_header(repo, res, m, fn, fname, s, key, where)
            else:
                classify(repo, res, m, fn, fname, s, key, where, dm_funcs)
    res.info["not_in_spec_statements"] = n_free
    rule_d(repo, res)
    rule_f(repo, res, m)
    res.floor("C08.f", 10)
    rule_g(repo, res)
    res.floor("C08.g", 20)
    from .. import lints, globals_state

    lints.rule(repo, res, "C08.e", ["bitstream.vc2", "bitstream.serdes", "bitstream.io"])
    globals_state.rule(repo, res, "C08.e", ["bitstream.vc2", "bitstream.serdes", "bitstream.io", "pseudocode.slice_sizes"], what="what the deserialiser reads for one stream (a later stream would be read with an earlier one's cached geometry)")
    res.floor("C08.e", 8)
    res.floor("C08.a", 15)
    res.floor("C08.b", 2)
    res.floor("C08.c", 9)
    res.floor("C08.d", 4)
    res.assumptions = [
        "the spec-pinned statements of both parsers equal the standard's pseudocode (the repository's own tests/verification)",
        "dequantisation and DC prediction of the deserialised coefficients (test tooling, not the repository) are not part of this check",
    ]
    res.trusted = ["linear-form normaliser for byte counts"]
    return res


def classify(repo, res, m, fn, fname, s, key, where, dm_funcs):
    calls = serdes_calls(s)
    prims = [c.func.attr for c in calls]
    reads = [p for p in prims if p in READ_PRIMS]
    # (i) pass / bookkeeping / pure local geometry
    if isinstance(s, ast.Pass):
        res.ok("C08.a", key, where, by="no-op")
        return
    if isinstance(s, ast.If) and fname == "ld_slice" and not s.orelse and len(s.body) == 1 and isinstance(s.body[0], ast.Assign) and not calls:
        rule_clamp(repo, res, m, fn, s, key, where, dm_funcs)
        res.ok("C08.a", key, where, by="slice-length clamp (decided by C08.c)")
        return
    if not reads and all(p in BOOKKEEPING for p in prims):
        # computed values, list declarations (possibly under is_ld/is_hq), local precomputation from pure geometry functions
        ok = True
        for n in ast.walk(s):
            if isinstance(n, ast.Call) and not (isinstance(n.func, ast.Attribute) and dotted(n.func.value) in ("serdes", "state", "serdes.io", "transform")):
                d = dotted(n.func)
                if d not in PURE_GEOMETRY and d not in ("is_ld", "is_hq") and d not in PURE_BUILTINS and not (d and d[:1].isupper()):
                    ok = False
        if isinstance(s, ast.Try):
            ok = False
        if ok and not isinstance(s, (ast.While,)):
            # must not rebind a name that spec statements read from the stream (only fresh locals / contexts)
            stores = [t.id for n in ast.walk(s) if isinstance(n, ast.Assign) for t in n.targets if isinstance(t, ast.Name)]
            spec_defs = set(a.arg for a in fn.args.args)
            for n in ast.walk(fn):
                if isinstance(n, ast.Assign) and n.lineno not in m.free_lines:
                    for t in n.targets:
                        if isinstance(t, ast.Name):
                            spec_defs.add(t.id)
            clash = [x for x in stores if x in spec_defs]
            res.check(not clash, "C08.a", key, where, "not-in-spec statement rebinds %s, which the spec part of %s computes: the deserialiser would continue with a different value from the validator" % (clash, fname), by="bookkeeping only (no stream reads, no spec variable rebound)")
            return
    # (v) the stream loop
    if isinstance(s, ast.While) and fname == "parse_stream":
        t = norm(s.test)
        ok = "not serdes.io.is_end_of_stream()" in t and "serdes.is_target_complete('sequences')" in t and isinstance(s.test, ast.BoolOp) and isinstance(s.test.op, ast.Or)
        spec = [v for l, v in sorted(m.spec_comments.items()) if fn.lineno <= l <= s.lineno]
        ok = ok and any("while not is_end_of_stream(state)" in v for v in spec)
        res.check(ok, "C08.a", key, where, "the stream loop must continue while the reader is not at the end of the stream (the pseudocode's condition), the target test serving serialisation only", by="while not is_end_of_stream (deserialising) or sequences remain (serialising)")
        return
    # (ii) enum robustness substitution
    if isinstance(s, ast.Try) and len(s.handlers) == 1 and dotted(s.handlers[0].type) == "ValueError":
        rule_enum(repo, res, m, fn, fname, s, key, where, dm_funcs)
        return
    # (iii) byte-count substitution
    if isinstance(s, ast.Expr) and isinstance(s.value, ast.Call) and isinstance(s.value.func, ast.Attribute) and s.value.func.attr == "bytes" and fname in ("padding", "auxiliary_data"):
        rule_bytes(repo, res, m, fn, fname, s, key, where)
        res.ok("C08.a", key, where, by="byte-count substitution (decided by C08.b)")
        return
    # (iv) ld_slice clamp
    if isinstance(s, ast.If) and fname == "ld_slice" and not s.orelse and len(s.body) == 1 and isinstance(s.body[0], ast.Assign):
        rule_clamp(repo, res, m, fn, s, key, where, dm_funcs)
        res.ok("C08.a", key, where, by="slice-length clamp (decided by C08.c)")
        return
    # single trailing-comment lines inside spec loops (e.g. component name from the transform name)
    if isinstance(s, ast.Assign) and not calls and all(isinstance(t, ast.Name) for t in s.targets):
        names = [t.id for t in s.targets]
        spec_defs = set(a.arg for a in fn.args.args) | set(t.id for n in ast.walk(fn) if isinstance(n, ast.Assign) and n.lineno not in m.free_lines for t in n.targets if isinstance(t, ast.Name))
        res.check(not (set(names) & spec_defs), "C08.a", key, where, "not-in-spec assignment rebinds %s, which the spec part computes" % names, by="fresh local only")
        return
    res.bad("C08.a", key, where, "not-in-spec statement `%s` in %s is of no known form (bookkeeping, enum robustness, byte count, slice-length clamp, stream loop): a deviation between the deserialiser and the validator that has not been shown to be the identity on accepted streams%s" % (short(s, 80), fname, "; it reads from the stream (%s)" % reads if reads else ""))


def classify_header(repo, res, m, fn, fname, s, key, where):
    """a loop whose header is not in spec but whose body is: the header must be
    the commented-out pseudocode header with its bound expressions hoisted into locals"""
    if isinstance(s, ast.While) and fname == "parse_stream":
        classify(repo, res, m, fn, fname, s, key, where, {})
        return
    ok = False
    detail = "loop header `%s` is not `for v in range(a, b)` over hoisted locals" % short(s, 60)
    if isinstance(s, ast.For) and isinstance(s.iter, ast.Call) and dotted(s.iter.func) == "range" and len(s.iter.args) == 2 and all(isinstance(a, ast.Name) for a in s.iter.args) and isinstance(s.target, ast.Name):
        defs = {}
        for a in ast.walk(fn):
            if isinstance(a, ast.Assign) and len(a.targets) == 1 and isinstance(a.targets[0], ast.Name):
                defs.setdefault(a.targets[0].id, []).append(a.value)
        bounds = []
        for a in s.iter.args:
            d = defs.get(a.id, [])
            bounds.append(ast.dump(d[0]) if len(d) == 1 else None)
        # the nearest preceding commented-out header for the same loop variable
        spec = [(l, v) for l, v in sorted(m.spec_comments.items()) if fn.lineno <= l < s.lineno and v.startswith("for %s in " % s.target.id)]
        if spec and None not in bounds:
            try:
                t = ast.parse(spec[-1][1] + "\n    pass").body[0]
                want = [ast.dump(x) for x in t.iter.args] if isinstance(t.iter, ast.Call) and dotted(t.iter.func) == "range" else None
            except SyntaxError:
                want = None
            ok = want == bounds
            if not ok:
                detail = "the loop runs over range(%s, %s) whose bounds are not the expressions of the pseudocode header `%s`" % (s.iter.args[0].id, s.iter.args[1].id, spec[-1][1])
        else:
            detail = "no commented-out pseudocode header for the loop over %s, or its bounds are assigned more than once" % s.target.id
    res.check(ok, "C08.a", key, where, detail, by="pseudocode loop header with its bounds hoisted into locals")


def rule_enum(repo, res, m, fn, fname, s, key, where, dm_funcs):
    # try: [if v != 0:] Enum(v)  except ValueError: v = Enum.member
    body = s.body
    guard = None
    stmt = body[0] if len(body) == 1 else None
    if isinstance(stmt, ast.If) and not stmt.orelse and len(stmt.body) == 1:
        guard = stmt.test
        stmt = stmt.body[0]
    ok_shape = isinstance(stmt, ast.Expr) and isinstance(stmt.value, ast.Call) and isinstance(stmt.value.func, ast.Name) and len(stmt.value.args) == 1 and isinstance(stmt.value.args[0], ast.Name)
    h = s.handlers[0]
    if ok_shape:
        enum, var = stmt.value.func.id, stmt.value.args[0].id
        ok_shape = len(h.body) == 1 and isinstance(h.body[0], ast.Assign) and dotted(h.body[0].targets[0]) == var and isinstance(h.body[0].value, ast.Attribute) and dotted(h.body[0].value.value) == enum
        if guard is not None:
            ok_shape = ok_shape and isinstance(guard, ast.Compare) and dotted(guard.left) == var and isinstance(guard.ops[0], ast.NotEq) and isinstance(guard.comparators[0], ast.Constant) and guard.comparators[0].value == 0
    if not ok_shape:
        res.bad("C08.a", key, where, "try/except ValueError block is not of the form `try: Enum(v) except ValueError: v = Enum.member`")
        return
    res.ok("C08.a", key, where, by="enum robustness substitution (decided by C08.c)")
    # the substituted member exists in the enumeration
    ext = repo.ext
    members = ext.enums.get(enum)
    if members is not None:
        res.check(h.body[0].value.attr in members, "C08.c", "%s:%s:fallback-member" % (fname, enum), where, "%s.%s is not a member of %s" % (enum, h.body[0].value.attr, enum), by="%s.%s exists" % (enum, h.body[0].value.attr))
    # validator counterpart
    dv = dm_funcs.get(fname)
    found = None
    if dv is not None:
        dmod, dfn = dv
        for c in ast.walk(dfn):
            if isinstance(c, ast.Call) and dotted(c.func) == "assert_in_enum" and len(c.args) >= 2 and dotted(c.args[1]) == enum:
                found = c
    if found is None:
        res.bad("C08.c", "%s:%s:validator-rejects" % (fname, enum), where, "the deserialiser replaces values outside %s in %s, but the validator's %s has no assert_in_enum(…, %s, …): on a stream the validator accepts the two parsers can continue with different values" % (enum, fname, fname, enum))
        return
    # same zero-exclusion
    zero_excluded = False
    c, p = found, getattr(found, "_parent", None)
    while p is not None and p is not dv[1]:
        if isinstance(p, ast.If) and isinstance(p.test, ast.Compare) and isinstance(p.test.comparators[0], ast.Constant) and p.test.comparators[0].value == 0:
            if isinstance(p.test.ops[0], ast.Eq) and any(c is x for x in p.orelse):
                zero_excluded = True
            if isinstance(p.test.ops[0], ast.NotEq) and any(c is x for x in p.body):
                zero_excluded = True
        c, p = p, getattr(p, "_parent", None)
    res.check(zero_excluded == (guard is not None), "C08.c", "%s:%s:validator-rejects" % (fname, enum), where, "the deserialiser tests %s %s, the validator %s: the conditions under which a value is replaced and rejected differ" % (enum, "only for non-zero values" if guard is not None else "for every value", "only for non-zero values" if zero_excluded else "for every value"), by="validator: assert_in_enum(%s, %s, …)%s" % (short(found.args[0], 20), enum, " for non-zero values" if zero_excluded else ""))


def _const_env(repo, m):
    env = {}
    for name in ("PARSE_INFO_HEADER_BYTES",):
        tgt = repo.resolve(m.name, name)
        if tgt is None:
            continue
        if getattr(tgt, "kind", None) == "external":
            v = repo.ext.constants.get(tgt.name)
            if isinstance(v, int):
                env[name] = v
        elif getattr(tgt, "kind", None) == "assign":
            vals = repo.mod(tgt.mod).assigns.get(tgt.name, [])
            if len(vals) == 1 and isinstance(vals[0], ast.Constant) and isinstance(vals[0].value, int):
                env[name] = vals[0].value
    return env


def lin_terms(e, env):
    """linear form {term: coefficient} ('' = constant); state['k'] -> k; named int constants from env"""
    terms = {}

    def add(x, c):
        if isinstance(x, ast.BinOp) and isinstance(x.op, ast.Add):
            add(x.left, c)
            add(x.right, c)
        elif isinstance(x, ast.BinOp) and isinstance(x.op, ast.Sub):
            add(x.left, c)
            add(x.right, -c)
        elif isinstance(x, ast.BinOp) and isinstance(x.op, ast.Mult) and isinstance(x.left, ast.Constant) and isinstance(x.left.value, int):
            add(x.right, c * x.left.value)
        elif isinstance(x, ast.BinOp) and isinstance(x.op, ast.Mult) and isinstance(x.right, ast.Constant) and isinstance(x.right.value, int):
            add(x.left, c * x.right.value)
        elif isinstance(x, ast.UnaryOp) and isinstance(x.op, ast.USub):
            add(x.operand, -c)
        elif isinstance(x, ast.Constant) and isinstance(x.value, int) and not isinstance(x.value, bool):
            terms[""] = terms.get("", 0) + c * x.value
        elif isinstance(x, ast.Name) and x.id in env:
            terms[""] = terms.get("", 0) + c * env[x.id]
        else:
            k = subscript_key(x, "state") or norm(x)
            terms[k] = terms.get(k, 0) + c

    add(e, 1)
    return {k: v for k, v in terms.items() if v != 0}


def show(t):
    return " + ".join(("%d*%s" % (c, k) if k else str(c)) for k, c in sorted(t.items(), reverse=True)) or "0"


def rule_bytes(repo, res, m, fn, fname, s, key, where):
    call = s.value
    arg = call.args[1] if len(call.args) >= 2 else None
    clamp = isinstance(arg, ast.Call) and dotted(arg.func) == "max" and len(arg.args) == 2 and any(isinstance(a, ast.Constant) and a.value == 0 for a in arg.args)
    inner = [a for a in arg.args if not (isinstance(a, ast.Constant) and a.value == 0)][0] if clamp else arg
    env = _const_env(repo, m)
    got = lin_terms(inner, env) if inner is not None else None
    # commented-out pseudocode in this function: for i in range(a, b): read_uint_lit(state, w)
    spec = [(l, v) for l, v in sorted(m.spec_comments.items()) if fn.lineno <= l <= s.lineno]
    want = None
    width = None
    for i, (l, v) in enumerate(spec):
        if v.startswith("for ") and v.rstrip().endswith(":") and i + 1 < len(spec):
            try:
                t = ast.parse(v + "\n    " + spec[i + 1][1]).body[0]
            except SyntaxError:
                continue
            if isinstance(t, ast.For) and isinstance(t.iter, ast.Call) and dotted(t.iter.func) == "range" and len(t.iter.args) == 2 and len(t.body) == 1 and isinstance(t.body[0], ast.Expr) and isinstance(t.body[0].value, ast.Call) and dotted(t.body[0].value.func) == "read_uint_lit":
                lo, hi = lin_terms(t.iter.args[0], env), lin_terms(t.iter.args[1], env)
                w = t.body[0].value.args[1]
                if isinstance(w, ast.Constant):
                    want = dict(hi)
                    for k, c in lo.items():
                        want[k] = want.get(k, 0) - c
                    want = {k: c for k, c in want.items() if c != 0}
                    width = w.value
    if want is None:
        raise AnalysisError("%s: commented-out pseudocode loop `for i in range(a, b): read_uint_lit(state, n)` not found" % fname)
    if width != 1:
        want = {k: c * width for k, c in want.items()}
    detail = "the deserialiser reads %s bytes; the pseudocode it replaces reads max(0, %s)" % (short(arg, 60), show(want))
    res.check(clamp and got == want, "C08.b", "%s:byte-count" % fname, where, detail + ("" if clamp else " (without the clamp a too-small next_parse_offset gives a negative count)"), by="max(0, %s)" % show(want))


def rule_clamp(repo, res, m, fn, s, key, where, dm_funcs):
    dv = dm_funcs.get("ld_slice")
    if dv is None:
        raise AnalysisError("decoder ld_slice not found")
    dmod, dfn = dv
    raise_if = None
    for n in ast.walk(dfn):
        if isinstance(n, ast.If) and any(isinstance(b, ast.Raise) and isinstance(b.exc, ast.Call) and dotted(b.exc.func) == "InvalidSliceYLength" for b in n.body):
            raise_if = n
    ok = raise_if is not None and ast.dump(raise_if.test) == ast.dump(s.test)
    # the clamp assigns the bound used in the comparison to the compared variable
    t = s.test
    shape = isinstance(t, ast.Compare) and len(t.ops) == 1 and isinstance(t.ops[0], ast.Gt) and dotted(s.body[0].targets[0]) == dotted(t.left) and dotted(s.body[0].value) == dotted(t.comparators[0])
    # operands are computed by spec-pinned statements in both functions
    res.check(ok and shape, "C08.c", "ld_slice:clamp-iff-validator-raises", where, "the deserialiser clamps under `%s`, the validator raises InvalidSliceYLength under `%s`: on a stream the validator accepts the clamp must be the identity" % (norm(s.test), norm(raise_if.test) if raise_if is not None else "<not found>"), by="same comparison as the validator's InvalidSliceYLength test; clamps to the compared bound")


def rule_d(repo, res):
    im, rd = repo.cls("bitstream.io:BitstreamReader")
    R = class_methods(rd)
    rb = R["read_bit"]
    where = "%s:BitstreamReader.read_bit" % im.rel
    body = [b for b in rb.body if not (isinstance(b, ast.Expr) and isinstance(b.value, ast.Constant))]
    pre = body[0] if body else None
    ok = isinstance(pre, ast.If) and norm(pre.test) == "self._bits_remaining is not None" and not pre.orelse
    reads = None
    ret1 = False
    if ok:
        seq = pre.body
        dec_i = [i for i, x in enumerate(seq) if isinstance(x, ast.AugAssign) and norm(x.target) == "self._bits_remaining" and isinstance(x.op, ast.Sub) and norm(x.value) == "1"]
        test_i = [i for i, x in enumerate(seq) if isinstance(x, ast.If) and isinstance(x.test, ast.Compare) and norm(x.test.left) == "self._bits_remaining" and isinstance(x.test.comparators[0], (ast.Constant, ast.UnaryOp))]
        if len(dec_i) == 1 and len(test_i) == 1:
            tst = seq[test_i[0]]
            try:
                c = ast.literal_eval(tst.test.comparators[0])
            except Exception:
                c = None
            op = tst.test.ops[0]
            dec_first = dec_i[0] < test_i[0]
            # number of real reads in an n-bit block, as n + k
            if c is not None:
                if isinstance(op, ast.LtE):
                    k = -c - 1 if dec_first else -c
                elif isinstance(op, ast.Lt):
                    k = -c if dec_first else -c + 1
                else:
                    k = None
                reads = k
            ret1 = len(tst.body) == 1 and isinstance(tst.body[0], ast.Return) and isinstance(tst.body[0].value, ast.Constant) and tst.body[0].value.value == 1 and type(tst.body[0].value.value) is int
    res.check(ok and reads == 0, "C08.d", "read_bit:consumes-exactly-n", where, "in an n-bit bounded block BitstreamReader.read_bit consumes n%+d bits before switching to the default value; pinned read_bitb consumes exactly n" % (reads if reads is not None else 0) if reads is not None else "bounded-block preamble of read_bit not recognised", by="decrement then test <= -1: exactly n real reads")
    res.check(ret1, "C08.d", "read_bit:past-the-end-yields-1", where, "past the end of a bounded block read_bit must return the literal 1 (pinned read_bitb: `return 1`) before touching the stream position", by="return 1 before any consumption")
    # pinned read_bitb is as assumed
    dm, rbb = repo.func("decoder.io:read_bitb")
    t = norm(rbb)
    ok = "if state['bits_left'] == 0: return 1" in t and "state['bits_left'] -= 1" in t and "return read_bit(state)" in t
    res.check(ok, "C08.d", "read_bitb:reference-shape", "%s:read_bitb" % dm.rel, "pinned read_bitb no longer has the shape this comparison assumes", by="bits_left == 0 -> 1; else decrement and read_bit")
    # end of block
    be = R["bounded_block_end"]
    rets = [r for r in ast.walk(be) if isinstance(r, ast.Return)]
    ok = len(rets) == 1 and isinstance(rets[0].value, ast.Name)
    if ok:
        v = rets[0].value.id
        ds = [a for a in ast.walk(be) if isinstance(a, ast.Assign) and dotted(a.targets[0]) == v]
        ok = len(ds) == 1 and norm(ds[0].value) in ("max(0, self._bits_remaining)", "max(self._bits_remaining, 0)")
        reset = [a for a in be.body if isinstance(a, ast.Assign) and norm(a.targets[0]) == "self._bits_remaining" and isinstance(a.value, ast.Constant) and a.value.value is None]
        ok = ok and len(reset) == 1 and be.body.index(reset[0]) > be.body.index(ds[0])
    res.check(ok, "C08.d", "bounded_block_end:unused=max(0,remaining)", "%s:BitstreamReader.bounded_block_end" % im.rel, "bounded_block_end must return max(0, remaining) (computed before leaving the block): pinned flush_inputb skips exactly the bits_left > 0 remaining bits", by="max(0, self._bits_remaining), then leave the block")
    sm, sd = repo.cls("bitstream.serdes:SerDes")
    sbe = class_methods(sd).get("bounded_block_end")
    ok = False
    if sbe is not None:
        b = [x for x in sbe.body if not (isinstance(x, ast.Expr) and isinstance(x.value, ast.Constant))]
        ok = len(b) == 2 and isinstance(b[0], ast.Assign) and norm(b[0].value) == "self.io.bounded_block_end()" and isinstance(b[1], ast.Expr) and norm(b[1].value) == "self.bitarray(%s, %s)" % (sbe.args.args[1].arg, dotted(b[0].targets[0]))
    res.check(ok, "C08.d", "serdes.bounded_block_end:reads-the-remainder", "%s:SerDes.bounded_block_end" % sm.rel, "the serdes must read exactly the unused bits handed back by the reader as the padding target", by="num = io.bounded_block_end(); bitarray(target, num)")
    # bounded_block_begin stores the length as given
    bb = R["bounded_block_begin"]
    ok = any(isinstance(a, ast.Assign) and norm(a.targets[0]) == "self._bits_remaining" and dotted(a.value) == bb.args.args[1].arg for a in bb.body)
    res.check(ok, "C08.d", "bounded_block_begin:length-as-given", "%s:BitstreamReader.bounded_block_begin" % im.rel, "the block length must be stored unchanged (pinned: state['bits_left'] = length)", by="self._bits_remaining = length")


COPY_FORMS = ("%s.copy()", "dict(%s)", "State(%s)", "copy(%s)", "deepcopy(%s)", "copy.copy(%s)", "copy.deepcopy(%s)")


def rule_f(repo, res, m):
    from .. import quantmatrix

    quantmatrix.rule(repo, res, "C08.f")
    for fname in ("transform_data", "fragment_data"):
        fn = m.funcs.get(fname)
        if fn is None:
            raise AnalysisError("anchor vanished: bitstream.vc2:%s" % fname)
        st = fn.args.args[1].arg
        calls = [c for c in ast.walk(fn) if isinstance(c, ast.Call) and dotted(c.func) == "serdes.computed_value" and c.args and const_str(c.args[0]) == "_state"]
        ok = len(calls) == 1 and len(calls[0].args) == 2 and norm(calls[0].args[1]) in [norm(ast.parse(f % st).body[0].value) for f in COPY_FORMS]
        res.check(ok, "C08.f", "%s:_state-is-a-snapshot" % fname, "%s:%s" % (m.rel, fname), "%s must record '_state' exactly once as a copy of the state (e.g. %s.copy()): the live dictionary is overwritten by every later data unit, so earlier pictures would be laid out with later pictures' parameters (found %s)" % (fname, st, [short(c.args[1], 40) for c in calls if len(c.args) > 1]), by="computed_value('_state', %s.copy())" % st)


# not-in-spec statements of the validator that stand in for the commented-out pseudocode line right above them
VALIDATOR_SUBSTITUTIONS = {
    ("parse_info", "prefix = read_uint_lit(state, 4)"): "reads the 4 prefix bytes the pseudocode reads, keeping the value to check it",
    ("quant_matrix", "state['quant_matrix'] = {}"): "a dict where the pseudocode allocates an array (same keys)",
    ("slice_quantizers", "state['quantizer'] = {}"): "a dict where the pseudocode allocates an array (same keys)",
}


def rule_g(repo, res):
    n_fn = 0
    for name, m in sorted(repo.modules.items()):
        if not name.startswith("vc2_conformance.decoder."):
            continue
        for fname, fn in sorted(m.funcs.items()):
            if not repo.is_pinned_function(fn):
                continue
            stp = fn.args.args[0].arg if fn.args.args else "state"
            bad = []
            used = []
            for n in ast.walk(fn):
                if not hasattr(n, "lineno") or n.lineno not in m.free_lines:
                    continue
                what = None
                if isinstance(n, (ast.Return, ast.Break, ast.Continue)):
                    what = "%s at line %d" % (type(n).__name__.lower(), n.lineno)
                elif isinstance(n, (ast.Assign, ast.AugAssign, ast.Delete)):
                    for t in (n.targets if not isinstance(n, ast.AugAssign) else [n.target]):
                        b, last = t, None
                        while isinstance(b, ast.Subscript):
                            last, b = b, b.value
                        if last is not None and dotted(b) == stp:
                            k = const_str(last.slice)
                            if k is None or not k.startswith("_"):
                                what = "store into %s[%s]" % (stp, repr(k) if k else short(last.slice, 20))
                elif isinstance(n, ast.Call) and (dotted(n.func) or "").startswith(("read_", "flush_input", "byte_align")):
                    what = "stream read %s()" % dotted(n.func)
                if what is None:
                    continue
                stmt = n
                while not isinstance(stmt, ast.stmt):
                    stmt = stmt._parent
                key = (fname, norm(stmt))
                if key in VALIDATOR_SUBSTITUTIONS:
                    used.append(key)
                    continue
                bad.append(what)
            n_fn += 1
            res.check(not bad, "C08.g", "validator-free-statements:%s" % fname, "%s:%s" % (m.rel, fname), "not-in-spec code of the validator's %s changes what is decoded (%s): the deserialiser follows the pseudocode, so the two then disagree on streams the validator accepts" % (fname, "; ".join(sorted(set(bad)))), by="checks and bookkeeping only%s" % ("; reviewed substitution: %s" % ", ".join(k[1] for k in used) if used else ""))
    from . import c09
    from ..report import Ob

    sub = Result("C09")
    c09.rule_f(repo, sub) if hasattr(c09, "rule_f") else None
    for o in sub.obs:
        res._add(Ob("C08.g", "%s/%s" % (o.rule, o.key), o.where, o.status, o.detail, o.by, o.path))
