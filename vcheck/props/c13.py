"""C13 Slices tile every subband and low-delay slice sizes sum exactly
(structural part, thin).

The tiling and byte-sum identities are integer arithmetic over all sizes and
are not decided.  The slice bound functions and slice_bytes are pinned to the
standard's pseudocode by the repository's own test.  What is left to the shape
of unpinned code: the subband dimension formulas (dyadic pyramid, shared with
C09.e) and the 'all slices have the same dimensions' predicate, which must test
divisibility of the *DC band* of *both* component kinds, width against the
horizontal and height against the vertical slice count.
"""
import ast

from ..core import AnalysisError, const_str, dotted, norm, short, subscript_key, ref_pseudocode_deviation
from ..report import Result, Ob

SS = "pseudocode.slice_sizes"


def check(repo, tier="quick"):
    res = Result("C13")
    res.explanation = (
        "Shape of the unpinned subband dimension formulas as linear forms of their shift exponents (re-evaluation of C09.e), "
        "operand pairing of the slices_have_same_dimensions predicate, and confirmation that the slice bound functions and "
        "slice_bytes are still pinned to the standard's pseudocode."
    )
    res.rule("C13.a", "subband_width / subband_height describe the dyadic pyramid of the padded picture (C09.e re-evaluated)")
    res.rule("C13.b", "slices_have_same_dimensions is the conjunction of exactly four divisibility tests: DC-band (level 0) width of luma and of a colour-difference component by slices_x, and their heights by slices_y")
    res.rule("C13.c", "slice_left/right/top/bottom and slice_bytes remain pinned to the standard's pseudocode (decorated @ref_pseudocode without deviation), so the repository's own equivalence test covers their arithmetic")
    res.rule("C13.d", "no state kept between calls in slice_sizes; bug-pattern rules")

    from . import c09

    sub = Result("C09")
    c09.rule_e(repo, sub)
    for o in sub.obs:
        res._add(Ob("C13.a", "%s/%s" % (o.rule, o.key), o.where, o.status, o.detail, o.by, o.path))

    m = repo.mod(SS)
    fn = m.funcs.get("slices_have_same_dimensions")
    if fn is None:
        raise AnalysisError("anchor vanished: slice_sizes.slices_have_same_dimensions")
    where = "%s:slices_have_same_dimensions" % m.rel
    sp = fn.args.args[0].arg
    defs = {}
    for a in fn.body:
        if isinstance(a, ast.Assign) and isinstance(a.targets[0], ast.Name) and isinstance(a.value, ast.Call) and dotted(a.value.func) in ("subband_width", "subband_height") and len(a.value.args) == 3:
            f = dotted(a.value.func)
            lvl = a.value.args[1].value if isinstance(a.value.args[1], ast.Constant) else None
            comp = const_str(a.value.args[2])
            defs[a.targets[0].id] = ("w" if f == "subband_width" else "h", lvl, comp, dotted(a.value.args[0]))
    rets = [r for r in ast.walk(fn) if isinstance(r, ast.Return)]
    tests = []
    shape_ok = len(rets) == 1 and isinstance(rets[0].value, ast.BoolOp) and isinstance(rets[0].value.op, ast.And)
    if shape_ok:
        for v in rets[0].value.values:
            # <dim> % state['slices_?'] == 0
            if isinstance(v, ast.Compare) and isinstance(v.ops[0], ast.Eq) and isinstance(v.comparators[0], ast.Constant) and v.comparators[0].value == 0 and isinstance(v.left, ast.BinOp) and isinstance(v.left.op, ast.Mod):
                d = v.left.left
                info = None
                if isinstance(d, ast.Name) and d.id in defs:
                    info = defs[d.id]
                elif isinstance(d, ast.Call) and dotted(d.func) in ("subband_width", "subband_height") and len(d.args) == 3:
                    info = ("w" if dotted(d.func) == "subband_width" else "h", d.args[1].value if isinstance(d.args[1], ast.Constant) else None, const_str(d.args[2]), dotted(d.args[0]))
                tests.append((info, subscript_key(v.left.right, sp)))
            else:
                tests.append((None, short(v, 40)))
    res.check(shape_ok and len(tests) == 4 and all(t[0] is not None for t in tests), "C13.b", "predicate:four-divisibility-tests", where, "the predicate must be `a %% state['slices_x'] == 0 and ...` over four subband dimensions (found %s)" % [t if t[0] is None else (t[0][:3], t[1]) for t in tests], by="conjunction of four `dimension %% slice count == 0` tests" % ())
    if shape_ok and len(tests) == 4 and all(t[0] is not None for t in tests):
        axis_ok = all((t[0][0] == "w" and t[1] == "slices_x") or (t[0][0] == "h" and t[1] == "slices_y") for t in tests)
        res.check(axis_ok, "C13.b", "predicate:width-by-slices_x-height-by-slices_y", where, "widths must be tested against slices_x and heights against slices_y (found %s)" % [(t[0][0], t[1]) for t in tests], by="width mod slices_x, height mod slices_y")
        lvl_ok = all(t[0][1] == 0 and t[0][3] == sp for t in tests)
        res.check(lvl_ok, "C13.b", "predicate:dc-band", where, "the dimensions tested must be those of level 0 (the DC band: every higher band is a power-of-two multiple of it)", by="level 0 of the current state")
        kinds = set((t[0][0], "Y" if t[0][2] == "Y" else "C" if t[0][2] in ("C1", "C2") else "?") for t in tests)
        res.check(kinds == {("w", "Y"), ("h", "Y"), ("w", "C"), ("h", "C")}, "C13.b", "predicate:luma-and-colour-difference", where, "both dimensions of both component kinds must be tested (found %s)" % sorted(kinds), by="luma and colour-difference, width and height")
    for name in ("slice_left", "slice_right", "slice_top", "slice_bottom", "slice_bytes"):
        f = m.funcs.get(name)
        if f is None:
            raise AnalysisError("anchor vanished: slice_sizes.%s" % name)
        res.check(repo.is_pinned_function(f), "C13.c", "pinned:%s" % name, "%s:%s" % (m.rel, name), "%s is no longer pinned to the standard's pseudocode: its tiling arithmetic is then covered by neither the repository's equivalence test nor this check" % name, by="@ref_pseudocode, no deviation")
    # the encoder and the level check use this predicate / these functions, not private copies
    users = []
    for name, mod in repo.modules.items():
        for c in ast.walk(mod.tree):
            if isinstance(c, ast.Call) and dotted(c.func) == "slices_have_same_dimensions":
                users.append(mod.rel)
    res.check(len(set(users)) >= 2, "C13.b", "predicate:shared-by-encoder-and-validator", m.rel, "slices_have_same_dimensions should be the one predicate used by both the validator's level check and the encoder's constraint computation (users: %s)" % sorted(set(users)), by="used by %s" % sorted(set(users)))
    from .. import globals_state, lints

    globals_state.rule(repo, res, "C13.d", ["pseudocode.slice_sizes"], what="the dimensions reported for one configuration")
    lints.rule(repo, res, "C13.d", ["pseudocode.slice_sizes"])
    res.floor("C13.a", 6)
    res.floor("C13.b", 5)
    res.floor("C13.c", 5)
    res.floor("C13.d", 3)
    res.assumptions = [
        "the partition property of slice_left/right/top/bottom and the floor-sum identity of slice_bytes are integer arithmetic of pinned pseudocode and are not decided",
        "that divisibility of the DC band implies equal slice dimensions at every level is arithmetic and is not decided",
    ]
    res.trusted = ["the repository's own equivalence test for pinned functions"]
    return res
