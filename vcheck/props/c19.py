"""C19 Sequence completion is sound, complete and shortest (structural part).

A breadth-first search over (prefix, remaining, matcher states) returns a
shortest solution iff the queue is FIFO and every dequeued node enqueues *all*
of its successors: "consume the next required symbol" and "insert each
candidate symbol".  Soundness: a sequence is returned only when nothing remains
and every matcher is complete, and matchers are copied before being advanced.
"""
import ast

from ..core import AnalysisError, const_str, dotted, norm, short
from ..report import Result
from ..mustflow import MustFlow, FS


def check(repo, tier="quick"):
    res = Result("C19")
    res.explanation = (
        "Shape of the search in symbol_re.make_matching_sequence: FIFO discipline of the queue, must/may event flow over the "
        "loop body (which successor families are enqueued before the iteration ends), the guard of the only return, copying of "
        "matchers, depth-limit bookkeeping; and the encoder's call passes the validator's own patterns."
    )
    res.rule("C19.a", "the work list is a deque used only through append() and popleft() (FIFO: breadth-first, hence shortest-first)")
    res.rule("C19.b", "every dequeued node enqueues both successor families (consume next required symbol; insert each candidate) unless pruned by the depth limit or an empty candidate set")
    res.rule("C19.c", "soundness: the only return of a sequence is under `nothing remains and all matchers complete`; matchers are deep-copied before being advanced; successors extend the prefix by exactly the symbol matched")
    res.rule("C19.d", "depth limit: reset to the configured limit on the consume branch, decremented on the insert branch, tested before inserting; the default limit is the documented one")
    res.rule("C19.g", "candidates for insertion are those every pattern allows: starting from {wildcard}, each matcher's next symbols (end-of-sequence discarded) are combined by the four-case table (wildcard on both sides: union; only the accumulated set has the wildcard: replace by the matcher's set; only the matcher has it: unchanged; neither: intersection), decided for each of the four cases from the guards of the if-chain; and the matchers themselves step as C18.c requires (symbol and wildcard steps of every current state, no state change on failure), since the search does not test match_symbol's result on the insert branch")
    res.rule("C19.f", "history independence: symbol_re and the encoder's sequence builder keep no state between calls; no swapped same-named arguments")
    res.rule("C19.e", "encoder.make_sequence passes the generic pattern and the level's own table cell and uses the result unchanged")

    m, fn = repo.func("symbol_re:make_matching_sequence")
    where = "%s:make_matching_sequence" % m.rel
    loop = None
    qname = None
    for s in fn.body:
        if isinstance(s, ast.Assign) and isinstance(s.value, ast.Call) and dotted(s.value.func) == "deque":
            qname = dotted(s.targets[0])
        if isinstance(s, ast.While) and qname and dotted(s.test) == qname:
            loop = s
    if loop is None:
        raise AnalysisError("make_matching_sequence: `while <deque>:` loop not found")
    # C19.a
    uses = []
    for n in ast.walk(fn):
        if isinstance(n, ast.Attribute) and dotted(n.value) == qname:
            uses.append(n.attr)
        elif isinstance(n, ast.Name) and n.id == qname and isinstance(n.ctx, ast.Load):
            p = getattr(n, "_parent", None)
            if not isinstance(p, (ast.Attribute, ast.While)):
                uses.append("<other use: %s>" % short(p, 40))
    res.check(set(uses) <= {"append", "popleft"} and "popleft" in uses and "append" in uses, "C19.a", "queue:fifo", where, "the queue is used through %s" % sorted(set(uses)), by="deque with append()/popleft() only")
    first = loop.body[0]
    ok = isinstance(first, ast.Assign) and isinstance(first.value, ast.Call) and dotted(first.value.func) == "%s.popleft" % qname and isinstance(first.targets[0], ast.Tuple) and len(first.targets[0].elts) == 4
    if not ok:
        raise AnalysisError("make_matching_sequence: loop body does not start with `(so_far, remaining, matchers, depth) = queue.popleft()`")
    so_far, remaining, matchers, depth = [dotted(e) for e in first.targets[0].elts]

    # classify appends
    def classify_append(call):
        if not (dotted(call.func) == "%s.append" % qname and call.args and isinstance(call.args[0], ast.Tuple) and len(call.args[0].elts) == 4):
            return None
        a, b, c, d = call.args[0].elts
        bt = norm(b)
        if bt == "%s[1:]" % remaining:
            return ("consume", a, b, c, d)
        if bt == remaining:
            return ("insert", a, b, c, d)
        return ("other", a, b, c, d)

    events = []

    def on(node, st):
        if isinstance(node, ast.Call):
            c = classify_append(node)
            if c is not None:
                events.append(c)
                return st.add(c[0] + "_enqueued")
            return st
        if isinstance(node, ast.If):
            t = norm(node.test)
            if t.startswith(depth) and ("<= 0" in t or "< 1" in t or "== 0" in t):
                return st.add("depth_tested")
            return st
        if isinstance(node, ast.Continue):
            q = getattr(node, "_parent", None)
            while q is not None and not isinstance(q, (ast.For, ast.While)):
                q = getattr(q, "_parent", None)
            if q is not None and q not in body.body:
                return st  # continues an inner loop, not the search loop
            kind = "after-consume" if "consume_enqueued" in st.must and "insert_enqueued" not in st.may and "depth_tested" not in st.may else "prune"
            conts.append((kind, node, st))
            return st
        if isinstance(node, ast.Return):
            rets.append((node, st))
        return st

    conts, rets = [], []
    body = ast.FunctionDef(name="_iteration", args=fn.args, body=[ast.While(test=ast.Constant(value=True), body=loop.body[1:] + [ast.Break()], orelse=[])], decorator_list=[], lineno=loop.lineno, col_offset=0)
    ast.fix_missing_locations(body)
    for parent in ast.walk(body):
        for child in ast.iter_child_nodes(parent):
            if not hasattr(child, "_parent") or parent is body or isinstance(parent, ast.While) and parent in body.body:
                child._parent = parent
    mf = MustFlow(body, on, node_types=(ast.Call, ast.If, ast.Continue, ast.Return)).run()
    kinds = [e[0] for e in events]
    res.check("consume" in kinds and "insert" in kinds and "other" not in kinds, "C19.b", "successors:both-families-exist", where, "append() calls found: %s" % kinds, by="consume and insert successors are both generated")
    skipping = list({id(c[1]): c for c in conts if c[0] == "after-consume"}.values())
    res.check(not skipping, "C19.b", "make_matching_sequence:continue-after-consume", where, "after enqueueing the consume successor the iteration ends with `continue`, so the insert successors of the same node are never enqueued: the search is greedy, not breadth-first (not shortest, not complete)", by="the insert family is reached after the consume family")
    # closed list of pruning conditions: depth limit reached, no candidate symbol
    # (and the continue that follows the consume branch, judged above)
    cand_names = set()
    for n in ast.walk(loop):
        if isinstance(n, ast.For) and any(isinstance(c, ast.Call) and (classify_append(c) or (None,))[0] == "insert" for c in ast.walk(n)):
            work = [x.id for x in ast.walk(n.iter) if isinstance(x, ast.Name)]
            while work:
                v = work.pop()
                if v in cand_names or v in (so_far, remaining, matchers, depth):
                    continue
                cand_names.add(v)
                for a in ast.walk(loop):
                    if isinstance(a, ast.Assign) and any(isinstance(t, ast.Name) and t.id == v for t in a.targets):
                        work.extend(x.id for x in ast.walk(a.value) if isinstance(x, ast.Name) and not isinstance(getattr(x, "_parent", None), ast.Lambda))
    fn_params = set(a.arg for a in fn.args.args) | {"symbol_priority", "depth_limit", "matcher", "symbols"}
    consume_conts = set(id(c[1]) for c in conts if c[0] == "after-consume")
    prunes = list({id(c[1]): c for c in conts if c[0] == "prune" and id(c[1]) not in consume_conts}.values())
    n_sanctioned = 0
    for kind, node, st in prunes:
        p = getattr(node, "_parent", None)
        guard = norm(p.test) if isinstance(p, ast.If) and node in p.body else "<unconditional>"
        ok_guard = False
        if isinstance(p, ast.If) and node in p.body and isinstance(p.test, ast.Compare) and len(p.test.ops) == 1:
            l, op, r = p.test.left, p.test.ops[0], p.test.comparators[0]
            if dotted(l) == depth and isinstance(r, ast.Constant) and ((isinstance(op, ast.LtE) and r.value == 0) or (isinstance(op, ast.Lt) and r.value == 1) or (isinstance(op, ast.Eq) and r.value == 0)):
                ok_guard = True
            if isinstance(l, ast.Call) and dotted(l.func) == "len" and l.args and isinstance(l.args[0], ast.Name) and l.args[0].id in cand_names and isinstance(op, ast.Eq) and isinstance(r, ast.Constant) and r.value == 0:
                ok_guard = True
        if isinstance(p, ast.If) and node in p.body and isinstance(p.test, ast.UnaryOp) and isinstance(p.test.op, ast.Not) and isinstance(p.test.operand, ast.Name) and p.test.operand.id in cand_names:
            ok_guard = True
        if ok_guard:
            n_sanctioned += 1
            res.ok("C19.b", "prune:%s" % guard, where, by="sanctioned pruning condition (depth limit / no candidate symbol)")
        else:
            res.bad("C19.b", "prune:%s" % guard, where, "a dequeued search node is abandoned under `%s`, which is neither the depth limit nor an empty candidate set: successors that may lead to the only (or the shortest) matching sequence are never explored" % guard)
    # the insert family covers every candidate: the append sits in a for over the candidate collection
    ins_ok = False
    for n in ast.walk(loop):
        if isinstance(n, ast.For):
            for c in ast.walk(n):
                if isinstance(c, ast.Call) and (classify_append(c) or (None,))[0] == "insert":
                    cls = classify_append(c)
                    sym = dotted(n.target)
                    ins_ok = norm(cls[1]) == "%s + [%s]" % (so_far, sym)
                    early = [x for x in ast.walk(n) if isinstance(x, (ast.Break, ast.Return))]
                    ins_ok = ins_ok and not early
    res.check(ins_ok, "C19.b", "successors:every-candidate-inserted", where, "the insert successors must be enqueued for every candidate symbol (no early exit from the candidate loop)", by="for candidate in candidates: queue.append(so_far + [candidate], ...)")
    # C19.c soundness
    seq_returns = list({id(r): r for r, st in rets}.values())
    ok = len(seq_returns) == 1 and dotted(seq_returns[0].value) == so_far
    guard_ok = False
    if ok:
        r = seq_returns[0]
        tests = []
        p = getattr(r, "_parent", None)
        c = r
        while p is not None and p is not body:
            if isinstance(p, ast.If) and any(c is x for x in p.body):
                tests.append(norm(p.test))
            c = p
            p = getattr(p, "_parent", None)
        t = " and ".join(tests)
        guard_ok = ("len(%s) == 0" % remaining in t or "not %s" % remaining in t) and "is_complete()" in t and "all(" in t
    res.check(ok and guard_ok, "C19.c", "return:only-when-complete", where, "the sequence must be returned only under `len(remaining) == 0 and all(m.is_complete() ...)`", by="single guarded return of the prefix")
    copies = 0
    advanced_uncopied = []
    for n in ast.walk(loop):
        if isinstance(n, ast.Assign) and isinstance(n.value, ast.Call) and dotted(n.value.func) in ("deepcopy", "copy.deepcopy") and dotted(n.value.args[0]) == matchers:
            copies += 1
        if isinstance(n, ast.For) and dotted(n.iter) == matchers:
            for c in ast.walk(n):
                if isinstance(c, ast.Call) and isinstance(c.func, ast.Attribute) and c.func.attr == "match_symbol":
                    advanced_uncopied.append(short(c))
    res.check(copies >= 2 and not advanced_uncopied, "C19.c", "matchers:copied-before-advance", where, "matchers of the dequeued node are advanced in place: %s" % advanced_uncopied if advanced_uncopied else "deepcopy(matchers) found %d time(s)" % copies, by="deepcopy before match_symbol on both branches")
    # the root node: empty prefix, all required symbols, one *fresh, distinct* matcher per pattern, full depth
    root_ok = False
    fresh_ok = False
    detail = "deque([...]) initialiser not recognised"
    for s_ in fn.body:
        if isinstance(s_, ast.Assign) and isinstance(s_.value, ast.Call) and dotted(s_.value.func) == "deque" and s_.value.args and isinstance(s_.value.args[0], (ast.List, ast.Tuple)) and len(s_.value.args[0].elts) == 1 and isinstance(s_.value.args[0].elts[0], ast.Tuple) and len(s_.value.args[0].elts[0].elts) == 4:
            a, b, c, d = s_.value.args[0].elts[0].elts
            root_ok = isinstance(a, ast.List) and not a.elts and isinstance(b, ast.Name) and b.id == fn.args.args[0].arg and dotted(d) == "depth_limit"
            detail = "root node is %s" % short(s_.value.args[0].elts[0], 100)
            src = c
            if isinstance(c, ast.Name):
                defs = [x for x in fn.body if isinstance(x, ast.Assign) and dotted(x.targets[0]) == c.id]
                src = defs[-1].value if len(defs) == 1 else None
            if isinstance(src, ast.ListComp) and len(src.generators) == 1 and not src.generators[0].ifs and dotted(src.generators[0].iter) == (fn.args.vararg.arg if fn.args.vararg else None):
                fresh_ok = _fresh_matcher(repo, m, src.elt)
                if not fresh_ok:
                    detail = "initial matchers are built by `%s`, which does not construct a new Matcher per pattern: equal patterns (or later calls) would share one matcher object, which deepcopy keeps aliased and match_symbol advances twice" % short(src.elt, 60)
    res.check(root_ok and fresh_ok, "C19.c", "root:fresh-matcher-per-pattern", where, detail, by="([], initial_sequence, [Matcher(p) for p in patterns], depth_limit)")
    cons = [e for e in events if e[0] == "consume"]
    ok = bool(cons) and all(norm(e[1]) == "%s + [%s[0]]" % (so_far, remaining) for e in cons)
    res.check(ok, "C19.c", "consume:prefix-extended-by-required-symbol", where, "the consume successor must extend the prefix by remaining[0]", by="so_far + [remaining[0]]")
    # the symbol fed to the copied matchers equals the symbol appended
    # C19.d depth
    ok = bool(cons) and all(dotted(e[4]) == "depth_limit" for e in cons)
    ins = [e for e in events if e[0] == "insert"]
    ok2 = bool(ins) and all(norm(e[4]) == "%s - 1" % depth for e in ins)
    tested = any(isinstance(n, ast.If) and norm(n.test) in ("%s <= 0" % depth, "%s < 1" % depth) and any(isinstance(b, ast.Continue) for b in n.body) for n in loop.body)
    # the permitted number of consecutive insertions a caller relies on is the documented default
    coded = [n_ for n_ in ast.walk(fn) if isinstance(n_, ast.Call) and isinstance(n_.func, ast.Attribute) and n_.func.attr == "pop" and n_.args and const_str(n_.args[0]) == "depth_limit" and len(n_.args) == 2]
    doc = ast.get_docstring(fn) or ""
    import re as _re

    md = _re.search(r"depth_limit\s*:.*?Defaults to (\d+)", doc, _re.S)
    if coded and md:
        cv = coded[0].args[1].value if isinstance(coded[0].args[1], ast.Constant) else None
        res.check(cv == int(md.group(1)), "C19.d", "depth:default-as-documented", where, "the documented default number of consecutive insertions is %s but the code uses %r: with default arguments impossibility is reported although a sequence with %s consecutive insertions exists" % (md.group(1), cv, md.group(1)), by="kwargs.pop('depth_limit', N) with the N of the docstring")
    res.check(ok and ok2 and tested, "C19.d", "depth:bookkeeping", where, "consume successors must carry the configured depth_limit, insert successors depth - 1, and depth <= 0 must prune before inserting", by="reset / decrement / test")
    res.check(any(isinstance(s, ast.Raise) and isinstance(s.exc, ast.Call) and dotted(s.exc.func) == "ImpossibleSequenceError" for s in fn.body[fn.body.index(loop) + 1 :]), "C19.c", "exhaustion:raises", where, "an exhausted search must raise ImpossibleSequenceError", by="raise after the loop")
    rule_e(repo, res)
    from .. import globals_state, lints

    globals_state.rule(repo, res, "C19.f", ["symbol_re", "encoder.sequence"], what="the sequence found for one call (a later call could be answered from an earlier one's matchers or search state)")
    lints.rule(repo, res, "C19.f", ["symbol_re", "encoder.sequence"])
    rule_g(repo, res, fn, where)
    res.floor("C19.g", 10)
    res.floor("C19.f", 5)
    res.floor("C19.a", 1)
    res.floor("C19.b", 5)
    res.floor("C19.c", 5)
    res.floor("C19.d", 1)
    res.floor("C19.e", 3)
    res.assumptions = ["the matcher itself is C18's subject", "candidate-set computation (intersection over matchers) is not decided"]
    res.trusted = ["collections.deque FIFO semantics"]
    return res


def _fresh_matcher(repo, m, e, depth=0):
    """e evaluates to a newly constructed Matcher on every evaluation."""
    if not isinstance(e, ast.Call) or depth > 2:
        return False
    tgt = repo.resolve_expr(m.name, e.func)
    if tgt is None:
        return False
    if getattr(tgt, "kind", None) == "class":
        return tgt.name == "Matcher" and tgt.mod.endswith("symbol_re")
    if getattr(tgt, "kind", None) == "func":
        tm, tf = repo.func("%s:%s" % (tgt.mod, tgt.name)) if False else (repo.mod(tgt.mod), tgt.node)
        rets = [n for n in ast.walk(tf) if isinstance(n, ast.Return)]
        return bool(rets) and all(r.value is not None and _fresh_matcher(repo, tm, r.value, depth + 1) for r in rets)
    return False


def rule_e(repo, res):
    m, fn = repo.func("encoder.sequence:make_sequence")
    where = "%s:make_sequence" % m.rel
    call = None
    for n in ast.walk(fn):
        if isinstance(n, ast.Call) and dotted(n.func) == "make_matching_sequence":
            call = n
    if call is None:
        raise AnalysisError("make_sequence no longer calls make_matching_sequence")
    lits = [const_str(a) for a in call.args if const_str(a) is not None]
    from .. import a1 as a1mod

    _, _, _, generic = a1mod.generic_pattern(repo)
    res.check(generic is not None and any(" ".join(l.split()) == " ".join(generic.split()) for l in lits), "C19.e", "patterns:generic", where, "the encoder's literal pattern(s) %s do not include the validator's generic pattern %r" % (lits, generic), by="same literal as decoder.stream.parse_sequence")
    cell = [a for a in call.args if isinstance(a, ast.Attribute) and a.attr == "sequence_restriction_regex" and isinstance(a.value, ast.Subscript) and dotted(a.value.value) == "LEVEL_SEQUENCE_RESTRICTIONS" and norm(a.value.slice) == "codec_features['level']"]
    res.check(len(cell) == 1, "C19.e", "patterns:level-cell", where, "the level pattern must be LEVEL_SEQUENCE_RESTRICTIONS[codec_features['level']].sequence_restriction_regex (the cell the validator reads)", by="same table cell as the validator")
    # result used unchanged to pick the data-unit makers
    var = None
    for n in ast.walk(fn):
        if isinstance(n, ast.Assign) and n.value is call:
            var = dotted(n.targets[0])
    stores = [n for n in ast.walk(fn) if isinstance(n, ast.Assign) and dotted(n.targets[0]) == var] + [n for n in ast.walk(fn) if isinstance(n, ast.Call) and isinstance(n.func, ast.Attribute) and dotted(n.func.value) == var]
    iterated = any(isinstance(n, ast.comprehension) and dotted(n.iter) == var for n in ast.walk(fn)) or any(isinstance(n, ast.For) and dotted(n.iter) == var for n in ast.walk(fn))
    res.check(var is not None and len(stores) == 1 and iterated, "C19.e", "result:used-unchanged", where, "the generated symbol list must feed the data-unit makers unmodified", by="iterated directly")
    # no value leaves make_sequence without the search: every `return` comes after the call in the function body
    stmt = call
    while getattr(stmt, "_parent", None) is not fn:
        stmt = stmt._parent
    early = [r for b in fn.body[: fn.body.index(stmt)] for r in ast.walk(b) if isinstance(r, ast.Return)]
    res.check(not early, "C19.e", "result:every-return-follows-the-search", where, "make_sequence returns at line(s) %s before make_matching_sequence has been called: for that input neither the level's ordering pattern nor the caller's patterns are consulted" % [r.lineno for r in early], by="no return statement before the call")
    # first positional argument: names of the picture data units, in order
    a0 = call.args[0]
    ok = isinstance(a0, ast.Name)
    res.check(ok, "C19.e", "required:picture-names", where, "the required symbols must be the picture data units' parse-code names", by="list built from the picture data units")


def _bool_eval(test, env):
    """value of a boolean combination of the atoms in env (norm text -> bool); None if another atom occurs"""
    t = norm(test)
    if t in env:
        return env[t]
    if isinstance(test, ast.UnaryOp) and isinstance(test.op, ast.Not):
        v = _bool_eval(test.operand, env)
        return None if v is None else not v
    if isinstance(test, ast.BoolOp):
        vs = [_bool_eval(v, env) for v in test.values]
        if None in vs:
            return None
        return all(vs) if isinstance(test.op, ast.And) else any(vs)
    if isinstance(test, ast.Compare) and len(test.ops) == 1 and isinstance(test.ops[0], ast.NotIn):
        pos = norm(ast.Compare(left=test.left, ops=[ast.In()], comparators=test.comparators))
        if pos in env:
            return not env[pos]
    return None


def rule_g(repo, res, fn, where):
    from ..core import pfind, pmatch
    from ..report import Ob
    from . import c18

    n, e = pfind("for X_m in X_ms:\n    X_s = X_m.valid_next_symbols()\n    STMTS_", fn)
    if n is None:
        res.check(False, "C19.g", "candidates:loop-over-matchers", where, "loop `for matcher in matchers: symbols = matcher.valid_next_symbols(); ...` not found", by="")
        return
    sv = e["X_s"]
    # the accumulated set: initialised to {WILDCARD} immediately before the loop
    cand = None
    blk = getattr(n, "_parent", None)
    for field in ("body", "orelse"):
        b = getattr(blk, field, None)
        if isinstance(b, list) and n in b and b.index(n) > 0:
            prev = b[b.index(n) - 1]
            for form in ("X_c = set([WILDCARD])", "X_c = {WILDCARD}"):
                e2 = pmatch(form, prev)
                if e2 is not None:
                    cand = e2["X_c"]
    res.check(cand is not None, "C19.g", "candidates:start-from-wildcard", where, "the accumulated candidate set must start as {WILDCARD} right before the loop over the matchers", by="candidates = {WILDCARD}")
    if cand is None:
        return
    body = n.body[1:]
    disc = [s for s in body if pmatch("%s.discard(END_OF_SEQUENCE)" % sv, s) is not None]
    chain = [s for s in body if isinstance(s, ast.If)]
    res.check(len(disc) == 1 and len(chain) == 1 and len(body) == 2 and body.index(disc[0]) < body.index(chain[0]), "C19.g", "candidates:eos-discarded-then-combined", where, "the loop body must discard END_OF_SEQUENCE from the matcher's symbols and then combine them in one if-chain", by="discard, then one if-chain")
    if len(chain) != 1:
        return
    atoms = ("WILDCARD in %s" % sv, "WILDCARD in %s" % cand)
    want = {(True, True): "union", (False, True): "replace", (True, False): "keep", (False, False): "intersect"}

    def action(stmts):
        stmts = [x for x in stmts if not isinstance(x, ast.Pass)]
        if not stmts:
            return "keep"
        if len(stmts) != 1:
            return "?"
        x = stmts[0]
        if pmatch("%s.update(%s)" % (cand, sv), x) is not None or pmatch("%s |= %s" % (cand, sv), x) is not None:
            return "union"
        if pmatch("%s = %s" % (cand, sv), x) is not None or pmatch("%s = set(%s)" % (cand, sv), x) is not None:
            return "replace"
        if pmatch("%s.intersection_update(%s)" % (cand, sv), x) is not None or pmatch("%s &= %s" % (cand, sv), x) is not None:
            return "intersect"
        return "?"

    for (ws, wc), expected in sorted(want.items()):
        env = {atoms[0]: ws, atoms[1]: wc}
        node = chain[0]
        got = None
        while True:
            v = _bool_eval(node.test, env)
            if v is None:
                got = "guard not over the two wildcard tests: %s" % short(node.test, 60)
                break
            if v:
                got = action(node.body)
                break
            if len(node.orelse) == 1 and isinstance(node.orelse[0], ast.If):
                node = node.orelse[0]
                continue
            got = action(node.orelse)
            break
        res.check(got == expected, "C19.g", "candidates:case(wildcard in matcher's=%s, in accumulated=%s)" % (ws, wc), where, "in this case the accumulated candidates must be combined by `%s` but the if-chain does `%s`: a symbol that an earlier pattern forbids can come back (the result then fails that pattern), or allowed symbols are lost" % (expected, got), by=expected)
    # after the loop over the matchers nothing may be *added* to the candidates unless the wildcard is among them (the
    # priority symbols stand in for the wildcard; offered without it they are symbols some pattern forbids here, and the
    # search does not test match_symbol's result on the insert branch)
    adders = []
    for x in ast.walk(fn):
        if getattr(x, "lineno", 0) <= n.end_lineno:
            continue
        tgt = None
        if isinstance(x, ast.Call) and isinstance(x.func, ast.Attribute) and dotted(x.func.value) == cand and x.func.attr in ("update", "add"):
            tgt = x
        elif isinstance(x, ast.AugAssign) and dotted(x.target) == cand and isinstance(x.op, (ast.BitOr, ast.Add)):
            tgt = x
        elif isinstance(x, ast.Assign) and any(dotted(t) == cand for t in x.targets):
            tgt = x
        if tgt is None:
            continue
        guarded = False
        a = getattr(tgt, "_parent", None)
        child = tgt
        while a is not None and a is not fn:
            if isinstance(a, ast.If) and any(child is b or child in ast.walk(b) for b in a.body):
                terms = a.test.values if isinstance(a.test, ast.BoolOp) and isinstance(a.test.op, ast.And) else [a.test]
                if any(norm(t) == "WILDCARD in %s" % cand for t in terms):
                    guarded = True
            child = a
            a = getattr(a, "_parent", None)
        adders.append((tgt, guarded))
    for tgt, guarded in adders:
        res.check(guarded, "C19.g", "candidates:additions-only-in-place-of-the-wildcard@%s" % short(tgt, 50), where, "`%s` adds symbols to the jointly allowed candidates without the test `WILDCARD in %s`: where some pattern pins a concrete symbol the added ones are forbidden by it, and the returned sequence then fails that pattern" % (short(tgt, 60), cand), by="dominated by `WILDCARD in candidates`")
    res.check(len(adders) >= 1, "C19.g", "candidates:priority-substitution-present", where, "no statement substitutes concrete symbols for the wildcard any more", by="%d adding statement(s)" % len(adders))
    sm = repo.mod("symbol_re")
    sub = Result("C18")
    c18.simulation_shape(repo, sub, sm)
    for o in sub.obs:
        res._add(Ob("C19.g", "%s/%s" % (o.rule, o.key), o.where, o.status, o.detail, o.by, o.path))
