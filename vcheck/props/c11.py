"""C11 Forward and inverse wavelet transforms reconstruct exactly (structural
inversion check).

The synthesis code is pinned to the standard; the analysis code is free.
Integer lifting is exactly invertible when the inverse applies the same
predictor to the same untouched samples with the opposite sign, in reverse
order -- all of which is syntax.  The check extracts operation lists from the
synthesis and analysis functions and requires the analysis list to be the
reversed synthesis list with each operation inverted, *including which state
key names the filter for each direction* (the tests only ever use
wavelet_index == wavelet_index_ho).
"""
import ast
from collections import OrderedDict

from ..core import AnalysisError, const_str, dotted, norm, short, subscript_key
from ..report import Result

DEC = "pseudocode.picture_decoding"
ENC = "pseudocode.picture_encoding"


def lin(e):
    """canonical text of a linear form (commutativity-insensitive); state['k'] -> k"""
    terms = {}

    def add(x, sign):
        if isinstance(x, ast.BinOp) and isinstance(x.op, ast.Add):
            add(x.left, sign)
            add(x.right, sign)
        elif isinstance(x, ast.BinOp) and isinstance(x.op, ast.Sub):
            add(x.left, sign)
            add(x.right, -sign)
        elif isinstance(x, ast.BinOp) and isinstance(x.op, ast.Mult) and isinstance(x.left, ast.Constant) and isinstance(x.left.value, int):
            sub = {}
            old = dict(terms)
            terms.clear()
            add(x.right, 1)
            cur = dict(terms)
            terms.clear()
            terms.update(old)
            for k, v in cur.items():
                terms[k] = terms.get(k, 0) + sign * x.left.value * v
        elif isinstance(x, ast.UnaryOp) and isinstance(x.op, ast.USub):
            add(x.operand, -sign)
        elif isinstance(x, ast.Constant) and isinstance(x.value, int) and not isinstance(x.value, bool):
            terms[""] = terms.get("", 0) + sign * x.value
        else:
            k = subscript_key(x, "state") or norm(x)
            terms[k] = terms.get(k, 0) + sign

    add(e, 1)
    return "+".join("%s*%d" % (k, v) if k else str(v) for k, v in sorted(terms.items()) if v) or "0"


def range_of(call):
    """range(n) / range(a, b) -> (lin(a), lin(b)); None if not a range."""
    if isinstance(call, ast.Call) and dotted(call.func) == "range" and 1 <= len(call.args) <= 2:
        if len(call.args) == 1:
            return ("0", lin(call.args[0]))
        return (lin(call.args[0]), lin(call.args[1]))
    return None


def loop_range(it):
    """(range, reversed?) for `range(..)`, `reversed(range(..))`, `range(b-1, a-1, -1)`."""
    if isinstance(it, ast.Call) and dotted(it.func) == "reversed" and len(it.args) == 1:
        r = range_of(it.args[0])
        if r:
            return r, True
    if isinstance(it, ast.Call) and dotted(it.func) == "range" and len(it.args) == 3 and isinstance(it.args[2], ast.UnaryOp) and isinstance(it.args[2].op, ast.USub) and isinstance(it.args[2].operand, ast.Constant) and it.args[2].operand.value == 1:
        # range(b - 1, a - 1, -1)  ==  reversed(range(a, b))
        a = ast.BinOp(left=it.args[1], op=ast.Add(), right=ast.Constant(value=1))
        b = ast.BinOp(left=it.args[0], op=ast.Add(), right=ast.Constant(value=1))
        return (lin(a), lin(b)), True
    r = range_of(it)
    if r:
        return r, False
    return None, None


def parity(e, ivar):
    """2*i -> 0 ; 2*i + 1 / (2*i)+1 -> 1 ; i -> None(identity)"""
    t = lin(e)
    if t == "%s*2" % ivar:
        return 0
    if t == "1+%s*2" % ivar:
        return 1
    if t == "%s*1" % ivar:
        return "id"
    return "?"


class Ops(object):
    def __init__(self, repo, m, fn):
        self.repo, self.m, self.fn = repo, m, fn
        self.ops = []
        self.arr = None
        self.maps = {}  # band name -> (row parity, col parity)
        self.allocs = {}
        self.ret = None
        self.shift_var = None
        self.shift_src = None
        self.run()

    def err(self, s):
        raise AnalysisError("%s:%s: statement not recognised by the transform mirror check: %s" % (self.m.rel, self.fn.name, short(s, 100)))

    def run(self):
        for s in self.fn.body:
            if isinstance(s, ast.Expr) and isinstance(s.value, ast.Constant):
                continue
            if isinstance(s, ast.Assign) and isinstance(s.value, ast.Call) and dotted(s.value.func) == "new_array":
                self.allocs[dotted(s.targets[0])] = [norm(a) for a in s.value.args]
                continue
            if isinstance(s, ast.Assign) and len(s.targets) == 1 and isinstance(s.targets[0], ast.Name) and "filter_bit_shift" in norm(s.value):
                # the amount of the accuracy shift: recorded, compared between synthesis and analysis in rule_c
                self.shift_var = dotted(s.targets[0])
                self.shift_src = norm(s.value)
                continue
            if isinstance(s, ast.If):
                self.shift_if(s)
                continue
            if isinstance(s, ast.For):
                self.loop(s)
                continue
            if isinstance(s, ast.Return):
                self.ret = [dotted(e) for e in s.value.elts] if isinstance(s.value, ast.Tuple) else [dotted(s.value)]
                continue
            self.err(s)

    def filter_key_of(self, e):
        """filter-index argument that is not literally state[k]: a helper with a single
        `return state[k]` is the same thing; anything else is reported as the expression
        itself (and then cannot equal the synthesis side's key)."""
        if isinstance(e, ast.Call) and isinstance(e.func, ast.Name) and e.func.id in self.m.funcs:
            h = self.m.funcs[e.func.id]
            body = [b for b in h.body if not (isinstance(b, ast.Expr) and isinstance(b.value, ast.Constant))]
            if len(body) == 1 and isinstance(body[0], ast.Return) and body[0].value is not None and h.args.args:
                k = subscript_key(body[0].value, h.args.args[0].arg)
                if k is not None:
                    return k
                return "<%s() = %s>" % (e.func.id, norm(body[0].value))
        return "<%s>" % norm(e)

    def shift_if(self, s):
        t = s.test
        if not (isinstance(t, ast.Compare) and dotted(t.left) == self.shift_var and isinstance(t.ops[0], ast.Gt) and isinstance(t.comparators[0], ast.Constant) and t.comparators[0].value == 0 and not s.orelse and len(s.body) == 1):
            self.err(s)
        inner = self.innermost(s.body[0], 2)
        if inner is None or len(inner) != 1 or not isinstance(inner[0], ast.Assign):
            self.err(s)
        a = inner[0]
        tgt = a.targets[0]
        arr = dotted(tgt.value.value) if isinstance(tgt, ast.Subscript) and isinstance(tgt.value, ast.Subscript) else None
        v = a.value
        cell = norm(tgt)
        sv = self.shift_var
        if isinstance(v, ast.BinOp) and isinstance(v.op, ast.LShift) and norm(v.left) == cell and dotted(v.right) == sv:
            self.ops.append(("shift-left", arr))
        elif isinstance(v, ast.BinOp) and isinstance(v.op, ast.RShift) and dotted(v.right) == sv and isinstance(v.left, ast.BinOp) and isinstance(v.left.op, ast.Add) and norm(v.left.left) == cell and norm(v.left.right) in ("1 << %s - 1" % sv,):
            self.ops.append(("shift-right-rounded", arr))
        else:
            self.err(a)

    def innermost(self, s, depth):
        """body of a `depth`-deep for nest over full ranges; None otherwise."""
        cur = s
        for _ in range(depth):
            if not (isinstance(cur, ast.For) and len(cur.body) >= 1 and not cur.orelse):
                return None
            body = cur.body
            if _ < depth - 1:
                if len(body) != 1:
                    return None
                cur = body[0]
        return body

    def loop(self, s):
        # 1-D filtering loop: for k in range(..): oned_X(row|column(arr, k), state[key])
        if len(s.body) == 1 and isinstance(s.body[0], ast.Expr) and isinstance(s.body[0].value, ast.Call):
            c = s.body[0].value
            f = dotted(c.func)
            if f in ("oned_synthesis", "oned_analysis") and len(c.args) == 2 and isinstance(c.args[0], ast.Call):
                view = dotted(c.args[0].func)
                arr = dotted(c.args[0].args[0])
                idx = dotted(c.args[0].args[1])
                key = subscript_key(c.args[1], "state")
                if key is None:
                    key = self.filter_key_of(c.args[1])
                r, rev = loop_range(s.iter)
                if view not in ("row", "column") or idx != dotted(s.target) or key is None or r is None:
                    self.err(s)
                # the loop must cover every row / column of the array
                want = "height(%s)*1" % arr if view == "row" else "width(%s)*1" % arr
                if r != ("0", want):
                    self.err(s)
                self.ops.append(("V" if view == "column" else "H", f, key, arr))
                return
        # (de)interleave nest
        body = self.innermost(s, 2)
        if body is None:
            self.err(s)
        yv = dotted(s.target)
        xv = dotted(s.body[0].target)
        entries = {}
        direction = None
        for a in body:
            if not (isinstance(a, ast.Assign) and len(a.targets) == 1):
                self.err(s)
            l, r = a.targets[0], a.value

            def cell(e):
                if isinstance(e, ast.Subscript) and isinstance(e.value, ast.Subscript):
                    return dotted(e.value.value), e.value.slice, e.slice
                return None

            cl, cr = cell(l), cell(r)
            if cl is None or cr is None:
                self.err(a)
            pl = (parity(cl[1], yv), parity(cl[2], xv))
            pr = (parity(cr[1], yv), parity(cr[2], xv))
            if pr == ("id", "id") and "?" not in pl:
                # big[2y+a][2x+b] = band[y][x]   (interleave)
                d, big, band, par = "interleave", cl[0], cr[0], pl
            elif pl == ("id", "id") and "?" not in pr:
                d, big, band, par = "deinterleave", cr[0], cl[0], pr
            else:
                self.err(a)
            if direction not in (None, d):
                self.err(a)
            direction = d
            entries[band] = par
            self.arr = big
        self.maps = entries
        self.ops.append((direction, tuple(sorted(entries.items(), key=lambda kv: str(kv[1])))))


def lift_table(repo, res):
    """lift1..lift4 (pinned): (written parity, read parity, sign)."""
    m = repo.mod(DEC)
    out = {}
    for name in ("lift1", "lift2", "lift3", "lift4"):
        fn = m.funcs.get(name)
        if fn is None:
            raise AnalysisError("anchor vanished: %s" % name)
        A = fn.args.args[0].arg
        written = read = sign = None
        for n in ast.walk(fn):
            if isinstance(n, ast.AugAssign) and isinstance(n.target, ast.Subscript) and dotted(n.target.value) == A:
                written = parity(n.target.slice, "n")
                sign = "+" if isinstance(n.op, ast.Add) else "-" if isinstance(n.op, ast.Sub) else "?"
            if isinstance(n, ast.Assign) and dotted(n.targets[0]) == "pos" and isinstance(n.value, ast.BinOp):
                t = lin(n.value)
                if t == "i*2+n*2":
                    read = 0
                elif t == "-1+i*2+n*2":
                    read = 1
        if written not in (0, 1) or read not in (0, 1) or sign not in ("+", "-"):
            raise AnalysisError("lifting function %s: shape not recognised (written=%s read=%s sign=%s)" % (name, written, read, sign))
        out[name] = (written, read, sign)
    return out


def table_entries(repo, modspec, name):
    """{LiftingFilterTypes value: function name} for the SYNTHESIS table literal."""
    m, v = repo.assign("%s:%s" % (modspec, name))
    lt = repo.ext.enums["LiftingFilterTypes"]

    def enum_val(e):
        if isinstance(e, ast.Call) and dotted(e.func) == "LiftingFilterTypes" and isinstance(e.args[0], ast.Constant):
            return e.args[0].value
        if isinstance(e, ast.Attribute) and dotted(e.value) == "LiftingFilterTypes":
            return lt.get(e.attr)
        return None

    return m, v, enum_val


def check(repo, tier="quick"):
    res = Result("C11")
    res.explanation = (
        "Mirror check of the analysis (forward) transform against the spec-pinned synthesis (inverse) transform: lifting-type "
        "table, stage order, per-level operation lists with the state key naming each direction's filter, level order and band "
        "naming, padding target. One arithmetic lemma is trusted: ((x << s) + (1 << (s-1))) >> s == x."
    )
    res.rule("C11.a", "ANALYSIS_LIFTING_FUNCTION_TYPES maps each lifting type to the synthesis function with the same written/read parities and the opposite sign")
    res.rule("C11.b", "oned_analysis applies the filter's stages in the reverse of oned_synthesis's order, with the same stage fields and table key")
    res.rule("C11.c", "vh_analysis / h_analysis operation list = reversed synthesis list with each operation inverted; same state key per direction; same interleave map; same shift")
    res.rule("C11.d", "dwt walks the levels in the reverse of idwt's order over the same ranges, with the same band names per level and the same level-0 naming condition")
    res.rule("C11.f", "history independence: the transform modules keep no state between pictures; no swapped same-named arguments (width/height, row/column)")
    res.rule("C11.e", "dwt_pad_addition pads every component to subband_width/height(state, dwt_depth + dwt_depth_ho + 1, c)")

    md, me = repo.mod(DEC), repo.mod(ENC)
    rule_a(repo, res, md, me)
    rule_b(repo, res, md, me)
    rule_c(repo, res, md, me)
    rule_d(repo, res, md, me)
    rule_e(repo, res, me)
    # ... and the padding is taken off again by helpers that cut at the requested index in the *matching* dimension (C09.g)
    from . import c09 as _c09
    from ..report import Result as _R, Ob as _Ob

    _sub = _R("C09")
    _c09.rule_g(repo, _sub)
    for _o in _sub.obs:
        res._add(_Ob("C11.e", "%s/%s" % (_o.rule, _o.key), _o.where, _o.status, _o.detail, _o.by, _o.path))
    from .. import globals_state, lints

    globals_state.rule(repo, res, "C11.f", ["pseudocode.picture_encoding", "pseudocode.picture_decoding", "pseudocode.arrays", "pseudocode.vc2_math"], what="the coefficients computed for one picture")
    lints.rule(repo, res, "C11.f", ["pseudocode.picture_encoding", "pseudocode.picture_decoding"])
    res.floor("C11.f", 6)
    res.floor("C11.a", 4)
    res.floor("C11.b", 4)
    res.floor("C11.c", 8)
    res.floor("C11.d", 6)
    res.floor("C11.e", 4)
    res.assumptions = [
        "lemma (trusted): for s > 0, ((x << s) + (1 << (s - 1))) >> s == x for every integer x",
        "the synthesis functions are as the standard's pseudocode (pinned by the repository's own equivalence test)",
        "value-level exactness of each lifting step follows from (same predictor on untouched samples, opposite sign)",
    ]
    res.trusted = ["vc2_data_tables LiftingFilterTypes values"]
    return res


def rule_a(repo, res, md, me):
    lifts = lift_table(repo, res)
    m, v, enum_val = table_entries(repo, DEC, "SYNTHESIS_LIFTING_FUNCTION_TYPES")
    if not isinstance(v, ast.Dict):
        raise AnalysisError("SYNTHESIS_LIFTING_FUNCTION_TYPES is not a dict literal")
    synth = {}
    for k, val in zip(v.keys, v.values):
        synth[enum_val(k)] = dotted(val)
    am, av = repo.assign(ENC + ":ANALYSIS_LIFTING_FUNCTION_TYPES")
    where = "%s:ANALYSIS_LIFTING_FUNCTION_TYPES" % am.rel
    ana = {}
    if isinstance(av, ast.DictComp) and len(av.generators) == 1 and isinstance(av.generators[0].iter, (ast.List, ast.Tuple)):
        g = av.generators[0]
        names = [dotted(e) for e in g.target.elts] if isinstance(g.target, ast.Tuple) else []
        kname = dotted(av.key)
        # value: SYNTHESIS_LIFTING_FUNCTION_TYPES[<other name>]
        if not (isinstance(av.value, ast.Subscript) and dotted(av.value.value) == "SYNTHESIS_LIFTING_FUNCTION_TYPES" and len(names) == 2 and kname in names):
            raise AnalysisError("ANALYSIS_LIFTING_FUNCTION_TYPES: comprehension shape not recognised")
        vname = dotted(av.value.slice)
        ki, vi = names.index(kname), names.index(vname)
        for e in g.iter.elts:
            ana[enum_val(e.elts[ki])] = synth.get(enum_val(e.elts[vi]))
    elif isinstance(av, ast.Dict):
        for k, val in zip(av.keys, av.values):
            if isinstance(val, ast.Subscript) and dotted(val.value) == "SYNTHESIS_LIFTING_FUNCTION_TYPES":
                ana[enum_val(k)] = synth.get(enum_val(val.slice))
            else:
                ana[enum_val(k)] = dotted(val)
    else:
        raise AnalysisError("ANALYSIS_LIFTING_FUNCTION_TYPES: shape not recognised")
    for t, sfn in sorted(synth.items()):
        afn = ana.get(t)
        ok = afn in lifts and sfn in lifts and lifts[afn][:2] == lifts[sfn][:2] and lifts[afn][2] != lifts[sfn][2]
        res.check(ok, "C11.a", "lift-type:%s" % t, where, "lifting type %s: synthesis uses %s %s, analysis uses %s %s -- the inverse must write/read the same parities with the opposite sign" % (t, sfn, lifts.get(sfn), afn, lifts.get(afn)), by="%s %s <-> %s %s" % (sfn, lifts.get(sfn), afn, lifts.get(afn)))


def stage_loop(fn):
    for n in ast.walk(fn):
        if isinstance(n, ast.For) and "stages" in norm(n.iter):
            it = n.iter
            rev = False
            if isinstance(it, ast.Call) and dotted(it.func) == "reversed":
                rev = True
                it = it.args[0]
            elif isinstance(it, ast.Subscript) and norm(it.slice) == "::-1":
                rev = True
                it = it.value
            table = None
            call = None
            for b in ast.walk(n):
                if isinstance(b, ast.Subscript) and dotted(b.value) and dotted(b.value).endswith("_LIFTING_FUNCTION_TYPES"):
                    table = (dotted(b.value), norm(b.slice))
                if isinstance(b, ast.Call) and dotted(b.func) == "lift_fn":
                    call = [norm(a) for a in b.args]
            return norm(it), rev, table, call
    return None


def rule_b(repo, res, md, me):
    s = stage_loop(md.funcs["oned_synthesis"]) if "oned_synthesis" in md.funcs else None
    a = stage_loop(me.funcs["oned_analysis"]) if "oned_analysis" in me.funcs else None
    where = "%s:oned_analysis" % me.rel
    if s is None or a is None:
        raise AnalysisError("oned_synthesis / oned_analysis stage loop not found")
    res.check(s[0] == a[0] and s[1] != a[1], "C11.b", "stages:reversed", where, "synthesis iterates %s%s, analysis iterates %s%s: the analysis must apply the same stages in reverse order" % (s[0], " reversed" if s[1] else "", a[0], " reversed" if a[1] else ""), by="reversed(%s)" % a[0])
    res.check(s[2] is not None and a[2] is not None and s[2][1] == a[2][1] and s[2][0] == "SYNTHESIS_LIFTING_FUNCTION_TYPES" and a[2][0] == "ANALYSIS_LIFTING_FUNCTION_TYPES", "C11.b", "stages:table", where, "tables/keys: synthesis %s analysis %s" % (s[2], a[2]), by="ANALYSIS table keyed by %s" % a[2][1] if a[2] else "")
    res.check(s[3] == a[3] and s[3] is not None and len(s[3]) == 5, "C11.b", "stages:fields", where, "stage fields passed to the lifting function differ: synthesis %s analysis %s" % (s[3], a[3]), by="(A, L, D, taps, S)")
    # both look the filter up in LIFTING_FILTERS[filter_index]
    t1, t2 = norm(md.funcs["oned_synthesis"]), norm(me.funcs["oned_analysis"])
    res.check("LIFTING_FILTERS[filter_index]" in t1 and "LIFTING_FILTERS[filter_index]" in t2, "C11.b", "stages:filter-lookup", where, "filter parameters must come from LIFTING_FILTERS[filter_index] on both sides", by="same lookup")


INVERSE = {"interleave": "deinterleave", "shift-right-rounded": "shift-left"}


def rule_c(repo, res, md, me):
    for sname, aname in (("vh_synthesis", "vh_analysis"), ("h_synthesis", "h_analysis")):
        if sname not in md.funcs or aname not in me.funcs:
            raise AnalysisError("anchor vanished: %s / %s" % (sname, aname))
        S = Ops(repo, md, md.funcs[sname])
        A = Ops(repo, me, me.funcs[aname])
        where = "%s:%s" % (me.rel, aname)
        # expected analysis list
        exp = []
        for op in reversed(S.ops):
            if op[0] in ("V", "H"):
                exp.append((op[0], "oned_analysis", op[2]))
            elif op[0] == "interleave":
                exp.append(("deinterleave",))
            elif op[0] == "shift-right-rounded":
                exp.append(("shift-left",))
            else:
                raise AnalysisError("%s: unexpected synthesis operation %s" % (sname, op))
        got = []
        for op in A.ops:
            if op[0] in ("V", "H"):
                got.append((op[0], op[1], op[2]))
            else:
                got.append((op[0],))
        res.check([g[0] for g in got] == [e[0] for e in exp], "C11.c", "%s:operation-order" % aname, where, "analysis performs %s; the reverse of %s is %s" % ([g[0] for g in got], sname, [e[0] for e in exp]), by=" ; ".join(g[0] for g in got))
        # filter key per direction
        for d in ("V", "H"):
            sk = [op[2] for op in S.ops if op[0] == d]
            ak = [op[2] for op in A.ops if op[0] == d]
            if sk or ak:
                res.check(sk == ak, "C11.c", "%s:%s-filter-key" % (aname, "vertical" if d == "V" else "horizontal"), where, "%s filtering uses state[%s] in %s but state[%s] in %s" % ("column" if d == "V" else "row", sk, sname, ak, aname), by="state[%r] on both sides" % (ak[0] if ak else None))
        res.check(S.shift_src == A.shift_src == "filter_bit_shift(state)", "C11.c", "%s:shift-amount" % aname, where, "synthesis shifts right by `%s`; analysis shifts left by `%s`: the accuracy bits added before analysis must be exactly those removed after synthesis" % (S.shift_src, A.shift_src), by="filter_bit_shift(state) on both sides")
        afn = [op[1] for op in A.ops if op[0] in ("V", "H")]
        res.check(all(f == "oned_analysis" for f in afn), "C11.c", "%s:uses-oned-analysis" % aname, where, "analysis must call oned_analysis, found %s" % afn, by="oned_analysis")
        # interleave maps: compare by position in the synthesis argument list / analysis return tuple
        sparams = [a.arg for a in md.funcs[sname].args.args][1:]
        smap = [S.maps.get(p) for p in sparams]
        amap = [A.maps.get(r) for r in (A.ret or [])]
        res.check(smap == amap and None not in smap and len(smap) in (2, 4), "C11.c", "%s:band-positions" % aname, where, "synthesis places its band arguments %s at parities %s; analysis returns %s taken from parities %s" % (sparams, smap, A.ret, amap), by="bands %s at (row, column) parities %s" % (A.ret, amap))
        # output band sizes: half in each transformed direction
        half_h = aname == "vh_analysis"
        ok = True
        for r in A.ret or []:
            dims = A.allocs.get(r)
            arr = A.arr
            want = ["height(%s) // 2" % arr if half_h else "height(%s)" % arr, "width(%s) // 2" % arr]
            ok = ok and dims == want
        res.check(ok and bool(A.ret), "C11.c", "%s:band-shapes" % aname, where, "output bands must be allocated with half the size in each transformed direction: %s" % A.allocs, by="halved allocation")


def level_loops(fn):
    """[(range, reversed, callee, bands written/read)] for the loops of dwt / idwt."""
    out = []
    for s in fn.body:
        if isinstance(s, ast.For):
            r, rev = loop_range(s.iter)
            callee = None
            bands = []
            for n in ast.walk(s):
                if isinstance(n, ast.Call) and dotted(n.func) in ("vh_analysis", "h_analysis", "vh_synthesis", "h_synthesis"):
                    callee = dotted(n.func)
                if isinstance(n, ast.Subscript) and isinstance(n.value, ast.Subscript) and dotted(n.value.slice) == dotted(s.target) and const_str(n.slice):
                    if const_str(n.slice) not in bands:
                        bands.append(const_str(n.slice))
            out.append((r, rev, callee, bands, s))
    return out


def rule_d(repo, res, md, me):
    if "idwt" not in md.funcs or "dwt" not in me.funcs:
        raise AnalysisError("anchor vanished: idwt / dwt")
    I = level_loops(md.funcs["idwt"])
    D = level_loops(me.funcs["dwt"])
    where = "%s:dwt" % me.rel
    res.check(len(I) == 2 and len(D) == 2, "C11.d", "levels:two-loops", where, "expected two level loops each (found idwt %d, dwt %d)" % (len(I), len(D)), by="2 + 2 loops")
    if len(I) != 2 or len(D) != 2:
        return
    pair = {"vh_synthesis": "vh_analysis", "h_synthesis": "h_analysis"}
    for i, (ir, irev, icallee, ibands, _) in enumerate(I):
        dr, drev, dcallee, dbands, dloop = D[1 - i]
        res.check(pair.get(icallee) == dcallee, "C11.d", "levels:loop%d-callee" % i, where, "idwt loop %d calls %s, the mirrored dwt loop calls %s" % (i, icallee, dcallee), by="%s <-> %s" % (icallee, dcallee))
        res.check(ir == dr and ir is not None, "C11.d", "levels:loop%d-range" % i, where, "level ranges differ: idwt %s, dwt %s" % (ir, dr), by="range %s" % (ir,))
        res.check(irev is False and drev is True, "C11.d", "levels:loop%d-direction" % i, where, "idwt must ascend and dwt descend (idwt reversed=%s, dwt reversed=%s)" % (irev, drev), by="ascending / descending")
        # band names, in the order of the synthesis call's arguments vs the analysis tuple
        res.check(ibands == dbands and bool(ibands), "C11.d", "levels:loop%d-bands" % i, where, "band names per level differ: idwt reads %s, dwt writes %s" % (ibands, dbands), by="bands %s" % ibands)
        # analysis tuple unpacking order = return order of the analysis function, DC first
        aret = Ops(repo, me, me.funcs[dcallee]).ret
        unpack = None
        carried = None
        store = {}
        dc = None
        for n in ast.walk(dloop):
            if isinstance(n, ast.Assign) and isinstance(n.value, ast.Call) and dotted(n.value.func) == dcallee and isinstance(n.targets[0], ast.Tuple):
                unpack = [dotted(e) for e in n.targets[0].elts]
                carried = dotted(n.value.args[1]) if len(n.value.args) > 1 else None
            if isinstance(n, ast.Assign) and isinstance(n.targets[0], ast.Subscript) and const_str(n.targets[0].slice) and isinstance(n.value, ast.Name):
                store[const_str(n.targets[0].slice)] = n.value.id

        ok = unpack is not None and aret is not None and len(unpack) == len(aret)
        if ok:
            for n in ast.walk(dloop):
                if isinstance(n, ast.Assign) and dotted(n.targets[0]) == carried and isinstance(n.value, ast.Name):
                    dc = n.value.id
            # name bands by position: position 0 is the low band fed to the next level
            ok = dc == unpack[0]
            # position k (k >= 1) must be stored under the band whose synthesis argument sits at k
            sparams = [a.arg for a in md.funcs[icallee].args.args][1:]
            # synthesis call: h/vh_synthesis(state, DC_band, coeff[n][B1], coeff[n][B2]...)
            for n in ast.walk(md.funcs["idwt"]):
                if isinstance(n, ast.Call) and dotted(n.func) == icallee:
                    argbands = [const_str(a.slice) if isinstance(a, ast.Subscript) else None for a in n.args[2:]]
                    for k, b in enumerate(argbands, start=1):
                        ok = ok and store.get(b) == unpack[k]
        res.check(bool(ok), "C11.d", "levels:loop%d-band-wiring" % i, where, "the k-th result of %s must be stored under the band that %s receives as its k-th band argument, and the first result must feed the next level" % (dcallee, icallee), by="positional wiring agrees")
    # level 0 naming
    def level0(fn):
        for s in ast.walk(fn):
            if isinstance(s, ast.If) and isinstance(s.test, ast.Compare) and subscript_key(s.test.left, "state") == "dwt_depth_ho" and isinstance(s.test.ops[0], ast.Eq) and isinstance(s.test.comparators[0], ast.Constant) and s.test.comparators[0].value == 0:
                t = [const_str(n.slice) for b in s.body for n in ast.walk(b) if isinstance(n, ast.Subscript) and const_str(n.slice)]
                f = [const_str(n.slice) for b in s.orelse for n in ast.walk(b) if isinstance(n, ast.Subscript) and const_str(n.slice)]
                return t, f
        return None

    li, ld = level0(md.funcs["idwt"]), level0(me.funcs["dwt"])
    res.check(li is not None and li == ld and li == (["LL"], ["L"]), "C11.d", "levels:level0-naming", where, "level 0 band naming: idwt %s, dwt %s" % (li, ld), by="LL when dwt_depth_ho == 0 else L")


def rule_e(repo, res, me):
    fn = me.funcs.get("dwt_pad_addition")
    if fn is None:
        raise AnalysisError("anchor vanished: dwt_pad_addition")
    where = "%s:dwt_pad_addition" % me.rel
    env = {}
    for s in fn.body:
        if isinstance(s, ast.Assign) and isinstance(s.targets[0], ast.Name):
            env[s.targets[0].id] = s.value
    comp = fn.args.args[2].arg if len(fn.args.args) > 2 else None

    def dim(name, callee):
        v = env.get(name)
        if isinstance(v, ast.Call) and dotted(v.func) == callee and len(v.args) == 3:
            lvl = v.args[1]
            if isinstance(lvl, ast.Name) and lvl.id in env:
                lvl = env[lvl.id]
            return dotted(v.args[0]) == "state" and lin(lvl) == "1+dwt_depth*1+dwt_depth_ho*1" and dotted(v.args[2]) == comp
        return False

    res.check(dim("width", "subband_width"), "C11.e", "pad:width-target", where, "rows must be padded to subband_width(state, dwt_depth + dwt_depth_ho + 1, c)", by="subband_width at the top level")
    res.check(dim("height", "subband_height"), "C11.e", "pad:height-target", where, "columns must be padded to subband_height(state, dwt_depth + dwt_depth_ho + 1, c)", by="subband_height at the top level")
    pic = fn.args.args[1].arg
    # rows extended to `width`, picture extended to `height`: while-append or extend forms
    def count_expr_ok(e, target, seq):
        """e == target - len(seq)"""
        return lin(e) == lin(ast.parse("%s - len(%s)" % (target, seq), mode="eval").body)

    rows_ok = pic_ok = False
    for n in ast.walk(fn):
        if isinstance(n, ast.While) and isinstance(n.test, ast.Compare) and isinstance(n.test.ops[0], ast.Lt):
            l, r = norm(n.test.left), norm(n.test.comparators[0])
            if r == "width" and l.startswith("len(") and l != "len(%s)" % pic:
                rows_ok = True
            if r == "height" and l == "len(%s)" % pic:
                pic_ok = True
        if isinstance(n, ast.Call) and isinstance(n.func, ast.Attribute) and n.func.attr == "extend" and n.args:
            seq = norm(n.func.value)
            a = n.args[0]
            cnt = None
            if isinstance(a, ast.BinOp) and isinstance(a.op, ast.Mult):
                cnt = a.right if isinstance(a.left, ast.List) else a.left
            elif isinstance(a, (ast.ListComp, ast.GeneratorExp)) and len(a.generators) == 1 and isinstance(a.generators[0].iter, ast.Call) and dotted(a.generators[0].iter.func) == "range" and len(a.generators[0].iter.args) == 1:
                cnt = a.generators[0].iter.args[0]
            if cnt is not None:
                if seq == pic and count_expr_ok(cnt, "height", pic):
                    pic_ok = True
                elif seq != pic and count_expr_ok(cnt, "width", seq):
                    rows_ok = True
    res.check(rows_ok and pic_ok, "C11.e", "pad:extends-to-target", where, "each row must be extended to `width` and the picture to `height` (rows: %s, picture: %s)" % (rows_ok, pic_ok), by="rows to width, then picture to height")
    # the padding is unconditional: the spec-pinned idwt_pad_removal removes it for every configuration
    # (when nothing needs adding the loops simply do not iterate), so no path may skip it
    exits = [short(x, 50) for x in ast.walk(fn) if isinstance(x, (ast.Return, ast.Raise, ast.Break, ast.Continue))]
    conds = []
    for x in ast.walk(fn):
        if isinstance(x, (ast.If, ast.IfExp)):
            conds.append("if %s" % short(x.test, 40))
    res.check(not exits and not conds, "C11.e", "pad:unconditional", where, "dwt_pad_addition can skip the padding (%s): for the configurations concerned the analysis then works on an unpadded component, drops the samples beyond the last complete group and the round trip is not exact" % "; ".join(exits + conds), by="no early exit, no conditional around the padding loops")
    # padding rows must be distinct objects: the transform works in place
    aliased = []
    for n in ast.walk(fn):
        if isinstance(n, ast.BinOp) and isinstance(n.op, ast.Mult):
            lst = n.left if isinstance(n.left, ast.List) else n.right if isinstance(n.right, ast.List) else None
            if lst is not None and len(lst.elts) == 1:
                e = lst.elts[0]
                rowlike = (isinstance(e, ast.Subscript) and isinstance(e.slice, ast.Slice)) or (isinstance(e, ast.Call) and dotted(e.func) in ("list", "copy", "deepcopy")) or (isinstance(e, ast.Subscript) and dotted(e.value) == pic) or isinstance(e, (ast.List, ast.ListComp))
                if rowlike:
                    aliased.append(short(n, 60))
        if isinstance(n, ast.Call) and isinstance(n.func, ast.Attribute) and n.func.attr == "append" and norm(n.func.value) == pic and n.args:
            e = n.args[0]
            if isinstance(e, ast.Subscript) and dotted(e.value) == pic and not isinstance(e.slice, ast.Slice):
                aliased.append(short(n, 60))
    res.check(not aliased, "C11.e", "pad:rows-are-distinct-objects", where, "padding rows share one list object (%s): the in-place analysis then filters the shared row several times and the round trip fails whenever two or more rows are added" % aliased, by="every added row is a fresh copy")
    # forward_wavelet_transform pads all three components before transforming
    fw = me.funcs.get("forward_wavelet_transform")
    ok = False
    if fw is not None:
        from ..core import pfind

        pp = [a.arg for a in fw.args.args]
        n_pad, e_pad = pfind("for X_c in ['Y', 'C1', 'C2']:\n    dwt_pad_addition(%s, %s[X_c], X_c)" % (pp[0], pp[1]), fw)
        dwts = [c for c in ast.walk(fw) if isinstance(c, ast.Call) and dotted(c.func) == "dwt"]
        ok = n_pad is not None and bool(dwts) and all(c.lineno > n_pad.end_lineno for c in dwts) and n_pad in fw.body
    res.check(ok, "C11.e", "pad:before-transform", "%s:forward_wavelet_transform" % me.rel, "every component must be padded before dwt() is applied", by="padding precedes dwt for Y, C1, C2")
