"""C02 Validator terminates with a verdict on any byte string (structural part).

Decides, on all paths of the validator's code, the absence of the specific
non-conformance exception kinds that its own (non-spec) code can produce:
UnboundLocalError/NameError (C02.1), KeyError on `state` (C02.2, C02.2b),
ZeroDivisionError on state divisors (C02.3), KeyError/ValueError on table and
enum lookups (C02.4), non-ConformanceError raises and asserts (C02.5), and
failures of the exception reporting methods (C02.6).
"""
import ast
import builtins
from collections import OrderedDict, defaultdict

from ..core import AnalysisError, const_str, dotted, norm, short, subscript_key, walk_no_nested
from ..report import Result
from ..locals_da import LocalsDA
from ..mustflow import MustFlow
from .. import analyses, tables
from . import c02_lookup


def in_validator_code(fr):
    n = fr.mod.name
    return n.startswith("vc2_conformance.decoder") or n.startswith("vc2_conformance.pseudocode")


def check(repo, tier="quick"):
    res = Result("C02")
    res.explanation = (
        "Interprocedural definite-assignment analysis (StateFlow) of the State dictionary over every function "
        "reachable from decoder.stream.parse_stream, definite assignment of locals, guarded divisors and table "
        "lookups, raise/assert triage and exception-reporting agreement (constructor arity, format templates, attributes)."
    )
    res.rule("C02.A1", "axiom A1 side conditions (first data unit is a sequence header, last is end_of_sequence)")
    res.rule("C02.1", "every local/global name loaded in validator code is definitely assigned / defined")
    res.rule("C02.2", "every state[k] read is definitely assigned on every path from init_io; parse_stream")
    res.rule("C02.2b", "every key stored into state is a declared State entry")
    res.rule("C02.2c", "exceptions-table side conditions (profile fixes the picture family)")
    res.rule("C02.3", "every divisor state[k] is non-zero (guard or GNZ invariant); other divisors triaged")
    res.rule("C02.4", "every enum/table lookup keyed by a bitstream value is validated first")
    res.rule("C02.5", "only ConformanceError subclasses are raised; every assert is discharged by a static fact")
    res.rule("C02.7", "per-picture data is built from scratch: the allocating functions of the decoder (wavelet data arrays, synthesis outputs) return only objects constructed during the call, never something kept from an earlier picture whose nested shape belongs to other parameters")
    res.rule("C02.6", "every ConformanceError can explain/locate/hint: explain defined, attributes stored, templates and arities agree")

    conds = analyses.a1_conditions(repo)
    for cid, ok, where, detail in conds:
        res.check(ok, "C02.A1", cid, where, detail, by="checked")
    sf = analyses.validator_stateflow(repo)
    reach = analyses.validator_reach(repo)
    exc = tables.ExcTable(repo)
    res.info["functions_inlined_by_stateflow"] = len(sf.functions)
    res.info["functions_reachable_from_parse_stream"] = len(reach)
    res.info["stateflow_call_sites"] = sf.call_sites
    res.info["stateflow_rounds"] = sf.rounds
    res.info["state_keys"] = len(sf.all_keys)
    res.info["axiom_A1_applied"] = sf.a1_applied
    res.info["GNZ"] = sorted(sf.GNZ)
    res.info["INV(_fragment_slices_remaining)"] = sorted(sf.INV.get("_fragment_slices_remaining", ()))

    rule_locals(repo, res, sf, reach, exc)
    rule_state_keys(repo, res, sf)
    rule_divisors(repo, res, sf, reach)
    c02_lookup.rule_lookups(repo, res, sf, reach, exc)
    rule_fresh(repo, res)
    res.floor("C02.7", 4)
    rule_raises(repo, res, sf, reach, exc)
    rule_reporting(repo, res, reach, exc)
    rule_level_dict(repo, res, sf, exc)
    from .. import intlimit

    intlimit.rule(repo, res, "C02.6")

    res.floor("C02.A1", 6)
    res.floor("C02.1", 60)
    res.floor("C02.2", 100)
    res.floor("C02.2b", 40)
    res.floor("C02.3", 8)
    res.floor("C02.5", 50)
    res.floor("C02.6", 150)
    res.floor("C02.4", 25)
    res.assumptions = [
        "resource exhaustion (RecursionError, MemoryError) and IndexError inside the spec-pinned array arithmetic are outside this check",
        "spec-pinned lines are as the standard's pseudocode (the repository's own tests/verification pins them)",
        "the E8 builtin may-raise summary table (vcheck/locals_da.py)",
    ]
    res.trusted = ["CPython ast/tokenize", "vc2_data_tables source and CSV files", "axiom A1 (side conditions machine-checked)"]
    return res


# ---------------------------------------------------------------------------
def rule_locals(repo, res, sf, reach, exc):
    """C02.1: locals + resolvable globals in every reachable validator-side function."""
    # parameter constant sets seen by StateFlow's call-site binding
    pvals = defaultdict(dict)
    for key in sf.memo:
        modname, fname, _, env, _ = key
        d = pvals[(modname, fname)]
        for p, vals in env:
            d[p] = d.get(p, frozenset()) | vals
    # a parameter is closed-domain only if *every* inlined context bound it
    ctx_count = defaultdict(int)
    bound_count = defaultdict(lambda: defaultdict(int))
    for key in sf.memo:
        modname, fname, _, env, _ = key
        ctx_count[(modname, fname)] += 1
        for p, vals in env:
            bound_count[(modname, fname)][p] += 1
    bnames = set(dir(builtins))
    nfuncs = 0
    for fid, fr in reach.items():
        m = fr.mod
        if m.outermost_function(fr.node) is not None:
            continue
        nfuncs += 1
        pv = {}
        k = (m.name, fr.node.name)
        for p, vals in pvals.get(k, {}).items():
            if bound_count[k][p] == ctx_count[k]:
                pv[p] = vals
        da = LocalsDA(fr.node, param_values=pv, is_subclass=lambda r, h: exc.is_sub(r, h) if r in exc.classes else True)
        fails = da.run()
        where = "%s:%s" % (m.rel, fr.qual)
        failed_names = set()
        for f in fails:
            failed_names.add(f.name)
            stmt = f.node
            while getattr(stmt, "_parent", None) is not None and not isinstance(stmt, ast.stmt):
                stmt = stmt._parent
            key_ = "%s:%s" % (fr.qual, f.name)
            if not repo.is_free(m, f.node) and repo.is_pinned_function(m.outermost_function(f.node) or fr.node):
                res.idiom("C02.1", key_, where, "closed-domain chain of the standard's pseudocode: %s" % short(stmt))
            elif m.name.endswith("symbol_re") and fr.qual == "parse_expression" and token_chain_exhaustive(repo, f.name):
                res.ok("C02.1", key_, where, by="closed-domain chain over token types: the branches cover every named group of TOKEN_REGEX")
            else:
                res.bad("C02.1", key_, where, "local %r may be unbound at `%s` (%s)" % (f.name, short(stmt), f.kind))
        if not fails:
            res.ok("C02.1", "%s:locals" % fr.qual, where, by="definite assignment, %d loads" % da.loads_checked)
        # globals: every non-local name must resolve
        local_names = da.locals
        for n in ast.walk(fr.node):
            if isinstance(n, ast.Name) and isinstance(n.ctx, ast.Load):
                if n.id in local_names or n.id in bnames:
                    continue
                inner = m.enclosing_function(n)
                if inner is not fr.node:
                    from ..locals_da import scope_locals

                    chain = inner
                    found = False
                    while chain is not None and chain is not fr.node:
                        if isinstance(chain, (ast.FunctionDef, ast.Lambda)) and n.id in (scope_locals(chain) if isinstance(chain, ast.FunctionDef) else set(a.arg for a in chain.args.args)):
                            found = True
                            break
                        chain = getattr(chain, "_parent", None)
                    if found:
                        continue
                # comprehension variables
                if _is_comp_var(n):
                    continue
                if repo.resolve(m.name, n.id) is None and not _star_external(repo, m):
                    res.bad("C02.1", "%s:global:%s" % (fr.qual, n.id), where, "name %r is not defined in %s" % (n.id, m.rel))
    res.info["functions_checked_for_locals"] = nfuncs


def token_chain_exhaustive(repo, var):
    """symbol_re.parse_expression binds `var` in an if/elif chain over the token
    type tokens[-1][0] without else.  The chain is exhaustive iff the types it
    (and the earlier `continue` branches and the loop condition) handle cover
    every named group of TOKEN_REGEX, the only source of token types."""
    import re as _re

    m = repo.mod("symbol_re")
    tr = m.assigns.get("TOKEN_REGEX")
    if not tr or not isinstance(tr[-1], ast.Call) or not tr[-1].args:
        return False
    lit = tr[-1].args[0]
    try:
        text = ast.literal_eval(lit)
    except Exception:
        return False
    groups = set(_re.findall(r"\(\?P<(\w+)>", text))
    pm = _re.search(r"\(\?P<parenthesis>\[([^\]]*)\]\)", text)
    paren_chars = set(pm.group(1)) if pm else None
    fn = m.funcs.get("parse_expression")
    tk = m.funcs.get("tokenize_regex")
    if fn is None or tk is None or not groups:
        return False
    # token types come only from groupdict() keys
    if "groupdict" not in norm(tk):
        return False
    covered = set()
    parens = set()
    for n in ast.walk(fn):
        if isinstance(n, ast.Compare) and len(n.ops) == 1 and isinstance(n.ops[0], (ast.Eq, ast.NotEq)):
            l = norm(n.left)
            c = n.comparators[0]
            if l == "tokens[-1][0]" and const_str(c) is not None:
                covered.add(const_str(c))
            elif l == "tokens[-1][0:2]" and isinstance(c, ast.Tuple) and len(c.elts) == 2 and all(const_str(e) is not None for e in c.elts):
                if const_str(c.elts[0]) == "parenthesis":
                    parens.add(const_str(c.elts[1]))
    if paren_chars is not None and parens >= paren_chars:
        covered.add("parenthesis")
    # every handled type must bind `var`, continue, or end the loop: checked by
    # the definite-assignment pass itself on the non-pruned chain; here only coverage
    return groups <= covered


def _is_comp_var(n):
    p = getattr(n, "_parent", None)
    while p is not None:
        if isinstance(p, (ast.ListComp, ast.SetComp, ast.DictComp, ast.GeneratorExp)):
            for g in p.generators:
                for t in ast.walk(g.target):
                    if isinstance(t, ast.Name) and t.id == n.id:
                        return True
        if isinstance(p, ast.Lambda) and n.id in [a.arg for a in p.args.args]:
            return True
        p = getattr(p, "_parent", None)
    return False


def _star_external(repo, m):
    return any(s not in repo.modules for s in m.star_imports)


# ---------------------------------------------------------------------------
def rule_state_keys(repo, res, sf):
    groups = OrderedDict()
    for r in sf.reads:
        k = (r.mod.rel, r.fn, r.key)
        g = groups.setdefault(k, dict(ok=True, by=set(), bad=None, excepted=False, n=0))
        g["n"] += 1
        if r.kind == "excepted":
            g["excepted"] = True
        elif not r.ok:
            g["ok"] = False
            if g["bad"] is None:
                g["bad"] = r
        if r.by:
            g["by"].add(r.by)
    for (rel, fn, key), g in groups.items():
        where = "%s:%s" % (rel, fn)
        inst = "%s:state[%s]" % (fn, key)
        if g["ok"] and g["excepted"]:
            reason = sf.excepted.get((fn, key), "")
            res.ok("C02.2", inst, where, by="exceptions table (profile-correlated, fragment path only): " + reason + "; other contexts: " + ",".join(sorted(b for b in g["by"] if b != "EXC")))
        elif g["ok"]:
            res.ok("C02.2", inst, where, by=",".join(sorted(g["by"])) + " [%d contexts]" % g["n"])
        else:
            r = g["bad"]
            res.bad(
                "C02.2",
                inst,
                where,
                "state[%r] is read at `%s` but is not definitely assigned on the path" % (key, short(_stmt_of(r.node))),
                path=list(r.stack),
            )
    for d in sf.dyn:
        res.bad("C02.2", "%s:dynamic-key" % d.fn, "%s:%s" % (d.mod.rel, d.fn), "state[<non-constant>] read cannot be resolved: %s" % short(d.node))
    # C02.2b declared entries
    st = tables.fixeddict_by_var(repo, "pseudocode.state", "State")
    for k in sorted(sf.stored_keys):
        res.check(
            k in st.entries,
            "C02.2b",
            "key:%s" % k,
            "vc2_conformance/pseudocode/state.py:State",
            "state[%r] is stored by %s but State declares no such entry (FixedDictKeyError would escape)" % (k, sorted(sf.assigners.get(k, ()))),
            by="declared Entry",
        )
    # C02.2c side conditions of the exceptions table
    if any(g["excepted"] for g in groups.values()):
        side_conditions(repo, res, sf)


def _stmt_of(node):
    s = node
    while getattr(s, "_parent", None) is not None and not isinstance(s, ast.stmt):
        s = s._parent
    return s


def _fold_pred(expr, pc):
    """Evaluate `(state["parse_code"] & A) == B`-style predicates for a value."""

    def ev(e):
        if isinstance(e, ast.Constant):
            return e.value
        if subscript_key(e, "state") == "parse_code":
            return pc
        if isinstance(e, ast.BinOp) and isinstance(e.op, ast.BitAnd):
            return ev(e.left) & ev(e.right)
        if isinstance(e, ast.Compare) and len(e.ops) == 1 and isinstance(e.ops[0], ast.Eq):
            return ev(e.left) == ev(e.comparators[0])
        raise AnalysisError("cannot fold predicate %s" % norm(e))

    return ev(expr)


def side_conditions(repo, res, sf):
    ext = repo.ext
    pcs = ext.enums["ParseCodes"]
    fam = {
        "is_ld": {"low_delay_picture", "low_delay_picture_fragment"},
        "is_hq": {"high_quality_picture", "high_quality_picture_fragment"},
    }
    # (a) is_ld / is_hq are exactly the two picture families
    for fname, members in fam.items():
        m, fn = repo.func("pseudocode.parse_code_functions:" + fname)
        body = [s for s in fn.body if not (isinstance(s, ast.Expr) and isinstance(s.value, ast.Constant))]
        ok = False
        det = "not a single return of a foldable predicate"
        if len(body) == 1 and isinstance(body[0], ast.Return):
            true_for = set(n for n, v in pcs.items() if _fold_pred(body[0].value, v))
            ok = true_for == members
            det = "true for %s" % sorted(true_for)
        res.check(ok, "C02.2c", "family:%s" % fname, "%s:%s" % (m.rel, fname), det, by="constant folding over ParseCodes")
    # (b) each profile allows picture codes of one family only
    allowed = ext.profile_allowed_parse_codes()
    pics = fam["is_ld"] | fam["is_hq"]
    for idx, codes in allowed.items():
        fams = set()
        for c in codes:
            if c in fam["is_ld"]:
                fams.add("ld")
            if c in fam["is_hq"]:
                fams.add("hq")
        unknown = [c for c in codes if c not in pcs]
        res.check(len(fams) <= 1 and not unknown, "C02.2c", "profile:%d" % idx, "vc2_data_tables/csv/profiles.csv", "profile %d allows picture families %s" % (idx, sorted(fams)), by="single family")
    # (c) parse_info raises ParseCodeNotAllowedInProfile on every normal path once profile is known
    m, fn = repo.func("decoder.stream:parse_info")
    found = [False]

    def on(node, st):
        if isinstance(node, ast.If):
            t = node.test
            if (
                isinstance(t, ast.Compare)
                and isinstance(t.ops[0], ast.In)
                and const_str(t.left) == "profile"
                and dotted(t.comparators[0]) == "state"
            ):
                # inside: PROFILES[state["profile"]] lookup and a `not in ... allowed_parse_codes: raise`
                txt = norm(node)
                if "allowed_parse_codes" in txt and "raise ParseCodeNotAllowedInProfile" in txt:
                    for s in ast.walk(node):
                        if (
                            isinstance(s, ast.If)
                            and isinstance(s.test, ast.Compare)
                            and isinstance(s.test.ops[0], ast.NotIn)
                            and subscript_key(s.test.left, "state") == "parse_code"
                            and any(isinstance(b, ast.Raise) for b in s.body)
                        ):
                            found[0] = True
                            return st.add("profile_check")
        return st

    mf = MustFlow(fn, on, node_types=(ast.If,)).run()
    ex = mf.normal_exit_state()
    res.check(
        found[0] and ex is not None and "profile_check" in ex.must,
        "C02.2c",
        "parse_info:profile-check",
        "%s:parse_info" % m.rel,
        "parse_info must test the parse code against PROFILES[state['profile']].allowed_parse_codes on every normal path",
        by="must-pass-through",
    )
    # (d) profile is stored only by parse_parameters (inside the recorded, byte-compared header)
    scope = set(n for (mod_, n) in sf.functions)
    storers = set(f for f in sf.assigners.get("profile", ()) if f in scope)
    res.check(storers == {"parse_parameters"}, "C02.2c", "profile:storers", "vc2_conformance/decoder", "state['profile'] stored by %s" % sorted(storers), by="single storer")


# ---------------------------------------------------------------------------
def rule_divisors(repo, res, sf, reach):
    groups = OrderedDict()
    for d in sf.divs:
        k = (d.mod.rel, d.fn, d.key)
        g = groups.setdefault(k, dict(ok=True, by=set(), bad=None))
        if not d.ok:
            g["ok"] = False
            g["bad"] = g["bad"] or d
        else:
            g["by"].add(d.by)
    for (rel, fn, key), g in groups.items():
        where = "%s:%s" % (rel, fn)
        if g["ok"]:
            res.ok("C02.3", "%s:/state[%s]" % (fn, key), where, by=",".join(sorted(g["by"])))
        else:
            d = g["bad"]
            res.bad("C02.3", "%s:/state[%s]" % (fn, key), where, "divisor state[%r] in `%s` is not known to be non-zero" % (key, short(d.node)), path=list(d.stack))
    # other divisors in validator code
    seen_state_divs = set(id(d.node) for d in sf.divs)
    for fid, fr in reach.items():
        if not in_validator_code(fr) or fr.mod.name.endswith("decoder.exceptions"):
            continue
        for n in walk_no_nested(fr.node):
            if isinstance(n, ast.BinOp) and isinstance(n.op, (ast.Div, ast.Mod, ast.FloorDiv)):
                if id(n) in seen_state_divs:
                    continue
                if isinstance(n.left, ast.Constant) and isinstance(n.left.value, str):
                    continue  # "%" string formatting
                where = "%s:%s" % (fr.mod.rel, fr.qual)
                key = "%s:/%s" % (fr.qual, norm(n.right))
                why = nonzero_expr(n.right, fr.node, reach=reach)
                if why:
                    res.ok("C02.3", key, where, by=why)
                elif subscript_key(n.right, "state") is not None:
                    res.bad("C02.3", key, where, "state divisor in a function StateFlow did not reach: %s" % short(n))
                elif not repo.is_free(fr.mod, n):
                    res.idiom("C02.3", key, where, "divisor in spec-pinned arithmetic: %s" % short(n))
                else:
                    res.bad("C02.3", key, where, "divisor `%s` is not provably non-zero in `%s`" % (norm(n.right), short(n)))


def nonzero_expr(e, fn, depth=0, reach=None):
    """A reason string if expression `e` is non-zero by construction."""
    if (
        isinstance(e, ast.Call)
        and dotted(e.func) == "len"
        and e.args
        and isinstance(e.args[0], ast.Name)
        and fn.args.vararg is not None
        and e.args[0].id == fn.args.vararg.arg
        and reach is not None
    ):
        # len(*args) of the function itself: every reachable call site must pass >= 1 positional argument
        npos = len(fn.args.args)
        sites = []
        for c in reach.values():
            for x in ast.walk(c.node):
                if isinstance(x, ast.Call) and dotted(x.func) == fn.name:
                    sites.append(x)
        if sites and all(not any(isinstance(a, ast.Starred) for a in x.args) and len(x.args) > npos for x in sites):
            return "len(*%s) with >= 1 argument at all %d call sites" % (fn.args.vararg.arg, len(sites))
        return None
    if isinstance(e, ast.Constant) and isinstance(e.value, (int, float)) and e.value != 0:
        return "non-zero constant"
    if isinstance(e, ast.BinOp) and isinstance(e.op, ast.LShift) and isinstance(e.left, ast.Constant) and e.left.value and e.left.value > 0:
        return "positive constant << n"
    if isinstance(e, ast.BinOp) and isinstance(e.op, ast.Pow) and isinstance(e.left, ast.Constant) and e.left.value and e.left.value > 0:
        return "positive constant ** n"
    if isinstance(e, ast.Name) and depth < 3:
        # single assignment in the function from a non-zero construction
        vals = [s.value for s in ast.walk(fn) if isinstance(s, ast.Assign) and any(isinstance(t, ast.Name) and t.id == e.id for t in s.targets)]
        aug = [s for s in ast.walk(fn) if isinstance(s, ast.AugAssign) and isinstance(s.target, ast.Name) and s.target.id == e.id]
        if vals and not aug:
            rs = [nonzero_expr(v, fn, depth + 1, reach) for v in vals]
            if all(rs):
                return "local %s = %s" % (e.id, rs[0])
    return None


# ---------------------------------------------------------------------------
ASSERT_DISCHARGE = {}


def rule_raises(repo, res, sf, reach, exc):
    helper_sites = defaultdict(list)  # helper fn name -> [(caller FuncRef, call node)]
    for fid, fr in reach.items():
        for n in ast.walk(fr.node):
            if isinstance(n, ast.Call) and isinstance(n.func, ast.Name):
                helper_sites[n.func.id].append((fr, n))
    nraise = 0
    for fid, fr in reach.items():
        if not in_validator_code(fr):
            # utility modules: triaged below
            continue
        m = fr.mod
        where = "%s:%s" % (m.rel, fr.qual)
        params = [a.arg for a in fr.node.args.args]
        for n in walk_no_nested(fr.node) if m.outermost_function(fr.node) is None else []:
            if isinstance(n, ast.Raise):
                nraise += 1
                if n.exc is None:
                    res.ok("C02.5", "%s:reraise" % fr.qual, where, by="bare re-raise")
                    continue
                t = n.exc.func if isinstance(n.exc, ast.Call) else n.exc
                name = dotted(t)
                key = "%s:raise %s" % (fr.qual, name)
                if name in params:
                    # exception type is a parameter: every call site must pass a ConformanceError subclass
                    idx = params.index(name)
                    sites = helper_sites.get(fr.node.name, [])
                    bad = []
                    for cfr, call in sites:
                        if idx < len(call.args):
                            an = dotted(call.args[idx])
                            sym = repo.resolve(cfr.mod.name, an) if an else None
                            if not (sym is not None and sym.kind == "class" and exc.is_sub(sym.name)):
                                bad.append("%s:%s passes %s" % (cfr.mod.rel, cfr.qual, norm(call.args[idx])))
                    res.check(not bad and sites, "C02.5", key, where, "; ".join(bad) or "no call sites", by="%d call sites pass ConformanceError subclasses" % len(sites))
                    continue
                if fr.cls is not None and fr.qual.endswith(".explain") and name == "NotImplementedError":
                    res.ok("C02.5", key, where, by="abstract base; C02.6 requires every subclass to override explain")
                    continue
                sym = repo.resolve(m.name, name) if name and "." not in name else None
                ok = sym is not None and sym.kind == "class" and exc.is_sub(sym.name)
                res.check(ok, "C02.5", key, where, "raises %s which is not a ConformanceError subclass: `%s`" % (name, short(n)), by="ConformanceError subclass")
            elif isinstance(n, ast.Assert):
                discharge_assert(repo, res, sf, fr, n, where)
    # nested closures inside validator functions (e.g. quant_matrix.check) are
    # walked with their outer function by walk_no_nested?  No: handle them here.
    for fid, fr in reach.items():
        if not in_validator_code(fr):
            continue
        for inner in ast.walk(fr.node):
            if inner is not fr.node and isinstance(inner, ast.FunctionDef):
                for n in ast.walk(inner):
                    if isinstance(n, (ast.Raise, ast.Assert)):
                        res.bad("C02.5", "%s.%s:nested-raise" % (fr.qual, inner.name), "%s:%s" % (fr.mod.rel, fr.qual), "raise/assert inside a nested function is not triaged: %s" % short(n))
    # utility-module raises reachable from the validator: closed triage table
    for fid, fr in reach.items():
        if in_validator_code(fr):
            continue
        for n in ast.walk(fr.node):
            if isinstance(n, ast.Raise) and n.exc is not None:
                t = n.exc.func if isinstance(n.exc, ast.Call) else n.exc
                name = dotted(t)
                key = "%s:%s:raise %s" % (fr.mod.name.split(".")[-1], fr.qual, name)
                where = "%s:%s" % (fr.mod.rel, fr.qual)
                reason = utility_raise_reason(repo, fr, n, name, reach)
                res.check(reason is not None, "C02.5", key, where, "raise of %s in code reachable from the validator is not discharged: `%s`" % (name, short(n)), by=reason or "")
            elif isinstance(n, ast.Assert):
                key = "%s:%s:assert %s" % (fr.mod.name.split(".")[-1], fr.qual, norm(n.test))
                res.bad("C02.5", key, "%s:%s" % (fr.mod.rel, fr.qual), "assert in utility code reachable from the validator: `%s`" % short(n))
    res.info["raise_statements_in_validator_code"] = nraise


def utility_raise_reason(repo, fr, n, name, reach):
    mod = fr.mod.name.split(".")[-1]
    if mod == "symbol_re" and name == "SymbolRegexSyntaxError":
        return "pattern syntax errors: every pattern the validator compiles is a literal or a CSV cell that parses (C01.e checks each)"
    if mod == "constraint_table" and fr.cls is not None and fr.cls.name == "AnyValue" and name == "AttributeError":
        # AnyValue.iter_values/__iter__ must not be called from validator-side code
        meth = fr.qual.split(".")[-1]
        callers = []
        for fid, c in reach.items():
            for x in ast.walk(c.node):
                if isinstance(x, ast.Attribute) and x.attr == meth and isinstance(getattr(x, "_parent", None), ast.Call):
                    if c.mod.name.endswith("constraint_table") and c.cls is not None:
                        continue
                    callers.append("%s:%s" % (c.mod.rel, c.qual))
                if meth == "__iter__" and isinstance(x, (ast.For, ast.comprehension)):
                    pass
        if meth == "iter_values":
            return "no caller of .iter_values() in code reachable from the validator" if not callers else None
        return "AnyValue.__iter__ refuses iteration by design; reporting code formats ValueSets with str()"
    return None


def discharge_assert(repo, res, sf, fr, n, where):
    txt = norm(n.test)
    key = "%s:assert %s" % (fr.qual, txt)
    fn = fr.qual
    # 1. byte-aligned recording
    if fn == "record_bitstream_start" and subscript_key(getattr(n.test, "left", None), "state") == "next_bit":
        obs = sf.align_obs
        ok = bool(obs) and all(o[3] for o in obs)
        res.check(ok, "C02.5", key, where, "record_bitstream_start is reached on a path that is not byte aligned (after byte_align only whole-byte reads): %s" % [" > ".join(o[4][-3:]) for o in obs if not o[3]], by="every call path is byte aligned (byte_align + read_uint_lit only), %d call contexts" % len(obs))
        return
    # 2. recordings do not nest: start/finish bracket in the only caller
    if fn == "record_bitstream_start" and "_recorded_bytes" in txt:
        ok, det = recording_bracket(repo, sf)
        res.check(ok, "C02.5", key, where, det, by=det)
        return
    # 3. level patterns admit sequence_header first (C01.e)
    if fn == "parse_parameters" and "match_symbol" in txt:
        from .c01 import level_patterns_admit_sequence_header

        ok, det = level_patterns_admit_sequence_header(repo)
        res.check(ok, "C02.5", key, where, det, by=det)
        return
    # 4. array-view integer keys
    if fr.cls is not None and fr.cls.name == "column" and txt == "isinstance(key, int)":
        ok, det = column_keys_are_ints(repo)
        res.check(ok, "C02.5", key, where, det, by=det)
        return
    res.bad("C02.5", key, where, "assert in validator code is not discharged by a known static fact: `%s`" % short(n))


def recording_bracket(repo, sf):
    """record_bitstream_start is called only from sequence_header, where
    record_bitstream_finish follows on every normal exit and no second start
    occurs; finish deletes the key."""
    callers = set()
    for m in repo.modules.values():
        if not m.name.startswith("vc2_conformance.decoder"):
            continue
        for fn in m.funcs.values():
            for n in ast.walk(fn):
                if isinstance(n, ast.Call) and dotted(n.func) == "record_bitstream_start":
                    callers.add((m, fn))
    if len(callers) != 1:
        return False, "record_bitstream_start has %d callers (expected exactly sequence_header)" % len(callers)
    m, fn = list(callers)[0]
    bad = []

    def on(node, st):
        f = dotted(node.func)
        if f == "record_bitstream_start":
            if "recording" in st.may:
                bad.append("second start while a recording may be active")
            return st.add("recording")
        if f == "record_bitstream_finish":
            if "recording" not in st.must:
                bad.append("finish without start")
            return st.drop("recording")
        return st

    mf = MustFlow(fn, on).run()
    ex = mf.normal_exit_state()
    if ex is None or "recording" in ex.may:
        bad.append("a normal exit leaves the recording active")
    fm, fin = repo.func("decoder.io:record_bitstream_finish")
    deletes = any(isinstance(x, ast.Delete) and any(subscript_key(t, "state") == "_recorded_bytes" for t in x.targets) for x in ast.walk(fin))
    if not deletes:
        bad.append("record_bitstream_finish does not delete _recorded_bytes")
    if bad:
        return False, "; ".join(bad)
    return True, "start/finish bracket in %s (only caller); finish deletes the key; errors propagate out of parse_stream" % fn.name


def column_keys_are_ints(repo):
    """column views are only indexed inside lift1..4 (through oned_synthesis),
    with integer expressions: range variables, len(), int constants and
    + - * // min max of those."""
    m = repo.mod("pseudocode.picture_decoding")
    bad = []
    nsubs = 0
    for name in ("lift1", "lift2", "lift3", "lift4"):
        fn = m.funcs.get(name)
        if fn is None:
            return False, "anchor vanished: %s" % name
        ints = set()
        for n in ast.walk(fn):
            if isinstance(n, ast.For) and isinstance(n.target, ast.Name) and isinstance(n.iter, ast.Call) and dotted(n.iter.func) == "range":
                ints.add(n.target.id)

        def is_int(e):
            if isinstance(e, ast.Constant):
                return type(e.value) is int
            if isinstance(e, ast.Name):
                return e.id in ints
            if isinstance(e, ast.BinOp) and isinstance(e.op, (ast.Add, ast.Sub, ast.Mult, ast.FloorDiv, ast.LShift, ast.RShift)):
                return is_int(e.left) and is_int(e.right)
            if isinstance(e, ast.Call) and dotted(e.func) in ("min", "max"):
                return all(is_int(a) for a in e.args)
            if isinstance(e, ast.Call) and dotted(e.func) == "len":
                return True
            return False

        # optimistic fixpoint: assume every assigned local is an int, then
        # remove names with a non-int assignment until stable
        assigned = {}
        for n in ast.walk(fn):
            if isinstance(n, ast.Assign) and len(n.targets) == 1 and isinstance(n.targets[0], ast.Name):
                assigned.setdefault(n.targets[0].id, []).append(n.value)
            elif isinstance(n, ast.AugAssign) and isinstance(n.target, ast.Name):
                assigned.setdefault(n.target.id, []).append(ast.BinOp(left=ast.Name(id=n.target.id, ctx=ast.Load()), op=n.op, right=n.value))
        cand = set(assigned)
        base = set(ints)
        changed = True
        while changed:
            changed = False
            ints = base | cand
            for nm in sorted(cand):
                if not all(is_int(v) for v in assigned[nm]):
                    cand.discard(nm)
                    changed = True
        ints = base | cand
        a = fn.args.args[0].arg
        for n in ast.walk(fn):
            if isinstance(n, ast.Subscript) and isinstance(n.value, ast.Name) and n.value.id == a:
                nsubs += 1
                if not is_int(n.slice):
                    bad.append("%s: %s" % (name, norm(n)))
    # column objects are created only in vh_synthesis / vh_analysis and handed to oned_synthesis/oned_analysis
    if bad:
        return False, "non-integer index into the array view: %s" % bad
    if nsubs < 8:
        return False, "index sites vanished"
    return True, "all %d index expressions on the lifted array are integer-typed by construction" % nsubs


# ---------------------------------------------------------------------------
def viewer_options(repo):
    """option strings registered by the bitstream viewer's argument parser"""
    vm = repo.mod("scripts.vc2_bitstream_viewer")
    opts = set()
    for c in ast.walk(vm.tree):
        if isinstance(c, ast.Call) and isinstance(c.func, ast.Attribute) and c.func.attr == "add_argument":
            for a in c.args:
                if isinstance(a, ast.Constant) and isinstance(a.value, str) and a.value.startswith("-"):
                    opts.add(a.value)
    if len(opts) < 10 or "--to-offset" not in opts:
        raise AnalysisError("bitstream viewer options not recognised (%d found)" % len(opts))
    return opts


def rule_hint_options(repo, res, exc):
    """every option a viewer hint spells is one the viewer's parser accepts (exactly, or as an unambiguous prefix)"""
    import re

    opts = viewer_options(repo)
    long_opts = [o for o in opts if o.startswith("--")]
    n = 0
    for c in exc.subclasses():
        owner, fn = exc.find_method(c.name, "bitstream_viewer_hint")
        if fn is None or owner != c.name:
            continue
        used = set()
        for k in ast.walk(fn):
            if isinstance(k, ast.Constant) and isinstance(k.value, str):
                used.update(re.findall(r"(?<![\w-])(--[A-Za-z][\w-]*|-[A-Za-z])(?![\w-])", k.value))
        if not used:
            continue
        n += 1
        bad = sorted(u for u in used if u not in opts and not (u.startswith("--") and sum(1 for o in long_opts if o.startswith(u)) == 1))
        res.check(not bad, "C02.6", "%s:hint-options-known-to-viewer" % c.name, "%s:%s" % (exc.mod.rel, c.name), "the viewer hint of %s spells %s, which vc2-bitstream-viewer's parser does not define (it defines e.g. %s): the suggested command ends in a usage error instead of showing the stream" % (c.name, bad, sorted(o for o in long_opts if any(o.replace("-", "") == b.replace("-", "").replace("_", "") for b in bad)) or "--to-offset"), by="options %s" % sorted(used))
    if n < 10:
        raise AnalysisError("only %d viewer hints with options found" % n)


def rule_reporting(repo, res, reach, exc):
    rule_hint_options(repo, res, exc)
    m = exc.mod
    subs = exc.subclasses()
    res.info["conformance_error_classes"] = len(subs)
    for c in subs:
        where = "%s:%s" % (m.rel, c.name)
        owner, ex = exc.find_method(c.name, "explain")
        res.check(owner is not None and owner != exc.root, "C02.6", "%s:explain-defined" % c.name, where, "%s does not override explain() (base raises NotImplementedError)" % c.name, by="overridden in %s" % owner)
        stored = set()
        for n in exc.mro(c.name):
            stored |= exc.attrs_stored(n) if "__init__" in exc.classes[n].methods else set()
            if "__init__" in exc.classes[n].methods:
                break
        # attributes read by reporting methods
        methods_all = set()
        for n in exc.mro(c.name):
            methods_all |= set(exc.classes[n].methods)
        for meth in ("explain", "bitstream_viewer_hint", "offending_offset", "__str__"):
            owner, fn = exc.find_method(c.name, meth)
            if fn is None:
                continue
            missing = []
            for n in ast.walk(fn):
                if isinstance(n, ast.Attribute) and isinstance(n.value, ast.Name) and n.value.id == "self" and isinstance(n.ctx, ast.Load):
                    if n.attr not in stored and n.attr not in methods_all and n.attr not in ("args",):
                        missing.append(n.attr)
            res.check(not missing, "C02.6", "%s.%s:attrs" % (c.name, meth), where, "%s.%s reads self.%s which __init__ does not store" % (c.name, meth, sorted(set(missing))), by="attributes stored by __init__")
            if owner != c.name:
                continue
            # format templates
            for call, tmpl in tables.format_calls(fn):
                key = "%s.%s:format" % (c.name, meth)
                try:
                    auto, explicit, named = tables.format_fields(tmpl)
                except ValueError as e:
                    res.bad("C02.6", key, where, "malformed format template: %s" % e)
                    continue
                star = any(isinstance(a, ast.Starred) for a in call.args)
                kw = set(k.arg for k in call.keywords)
                nargs = len(call.args)
                ok = True
                det = ""
                if not star:
                    need = max([auto] + [i + 1 for i in explicit]) if (auto or explicit) else 0
                    if auto and explicit:
                        ok, det = False, "mixes automatic and explicit numbering"
                    elif need > nargs:
                        ok, det = False, "template needs %d positional arguments, %d given" % (need, nargs)
                    elif auto and nargs != auto:
                        ok, det = False, "template has %d fields, %d arguments given" % (auto, nargs)
                if named - kw and None not in kw:
                    ok, det = False, "named fields %s without keyword arguments" % sorted(named - kw)
                if meth == "bitstream_viewer_hint":
                    # after .format the only fields left must be cmd/file/offset
                    pass
                res.check(ok, "C02.6", key, where, "%s.%s: %s" % (c.name, meth, det), by="%d fields / %d args" % (auto + len(explicit), nargs))
            if meth == "bitstream_viewer_hint":
                check_hint_template(res, c, fn, where)
    # constructor arity at raise sites
    nsites = 0
    helper_fixed = helper_arities(repo)
    for fid, fr in reach.items():
        if not in_validator_code(fr):
            continue
        where = "%s:%s" % (fr.mod.rel, fr.qual)
        for n in ast.walk(fr.node):
            if isinstance(n, ast.Raise) and isinstance(n.exc, ast.Call):
                name = dotted(n.exc.func)
                if name in exc.classes and exc.is_sub(name):
                    nsites += 1
                    got = len(n.exc.args)
                    star = [a for a in n.exc.args if isinstance(a, ast.Starred)]
                    if star:
                        # *tuple where tuple is a literal local
                        got = None
                        for a in star:
                            ln = resolve_literal_len(fr.node, a.value)
                            if ln is not None:
                                got = len(n.exc.args) - 1 + ln
                    lo, hi = exc.init_arity(name)
                    ok = got is not None and lo <= got and (hi is None or got <= hi)
                    res.check(ok, "C02.6", "%s:raise %s:arity" % (fr.qual, name), where, "%s(...) takes %s..%s arguments, raise site passes %s" % (name, lo, hi, got), by="arity %s" % got)
                    kwbad = [k.arg for k in n.exc.keywords if k.arg not in exc.init_params(name)]
                    if kwbad:
                        res.bad("C02.6", "%s:raise %s:kw" % (fr.qual, name), where, "unknown keyword(s) %s" % kwbad)
            elif isinstance(n, ast.Call) and isinstance(n.func, ast.Name) and n.func.id in helper_fixed:
                idx, fixed = helper_fixed[n.func.id]
                if len(n.args) > idx:
                    name = dotted(n.args[idx])
                    if name in exc.classes:
                        nsites += 1
                        extra = len(n.args) - idx - 1
                        got = fixed + extra
                        lo, hi = exc.init_arity(name)
                        ok = lo <= got and (hi is None or got <= hi)
                        res.check(ok, "C02.6", "%s:%s(%s):arity" % (fr.qual, n.func.id, name), where, "%s(...) takes %s..%s arguments, helper %s passes %d" % (name, lo, hi, n.func.id, got), by="arity %d via %s" % (got, n.func.id))
    res.info["raise_sites_checked_for_arity"] = nsites


def helper_arities(repo):
    """assertion helpers that raise `exception_type(<fixed args>, *args)`:
    name -> (index of exception_type parameter, number of fixed args)."""
    out = {}
    m = repo.mod("decoder.assertions")
    for name, fn in m.funcs.items():
        params = [a.arg for a in fn.args.args]
        if "exception_type" not in params:
            continue
        idx = params.index("exception_type")
        fixed = None
        for n in ast.walk(fn):
            if isinstance(n, ast.Raise) and isinstance(n.exc, ast.Call) and dotted(n.exc.func) == "exception_type":
                f = len([a for a in n.exc.args if not isinstance(a, ast.Starred)])
                star = [a for a in n.exc.args if isinstance(a, ast.Starred)]
                if star and not (fn.args.vararg and dotted(star[0].value) == fn.args.vararg.arg):
                    raise AnalysisError("helper %s forwards an unrecognised *args" % name)
                if fixed is not None and fixed != f:
                    raise AnalysisError("helper %s raises with differing arities" % name)
                fixed = f
        if fixed is None:
            raise AnalysisError("helper %s takes exception_type but never raises it" % name)
        # positions after exception_type map onto *args only if exception_type is the last named param
        if idx != len(params) - 1:
            raise AnalysisError("helper %s: exception_type is not the last positional parameter" % name)
        out[name] = (idx, fixed)
    if len(out) < 4:
        raise AnalysisError("assertion helpers vanished (found %s)" % sorted(out))
    return out


def resolve_literal_len(fn, expr):
    if isinstance(expr, (ast.Tuple, ast.List)):
        return len(expr.elts)
    if isinstance(expr, ast.Name):
        vals = [s.value for s in ast.walk(fn) if isinstance(s, ast.Assign) and any(isinstance(t, ast.Name) and t.id == expr.id for t in s.targets)]
        if len(vals) == 1 and isinstance(vals[0], (ast.Tuple, ast.List)):
            return len(vals[0].elts)
    return None


def check_hint_template(res, c, fn, where):
    """bitstream_viewer_hint returns a template in which, after its own
    .format, only {cmd} {file} {offset} remain."""
    for n in ast.walk(fn):
        if isinstance(n, ast.Return) and n.value is not None:
            v = n.value
            tmpl = None
            formatted = False
            if isinstance(v, ast.Call) and isinstance(v.func, ast.Attribute) and v.func.attr == "format":
                tmpl = const_str(v.func.value)
                formatted = True
            else:
                tmpl = const_str(v)
            if tmpl is None:
                res.bad("C02.6", "%s.bitstream_viewer_hint:template" % c.name, where, "hint is not a literal template: %s" % short(v))
                continue
            if formatted:
                # one level of {{ }} unescaping
                try:
                    # substitute positional fields by a placeholder without braces
                    auto, explicit, named = tables.format_fields(tmpl)
                    after = tmpl.format(*(["X"] * (auto + len(explicit) + 4)), **{k: "X" for k in named})
                except (ValueError, IndexError, KeyError) as e:
                    res.bad("C02.6", "%s.bitstream_viewer_hint:template" % c.name, where, "template cannot be formatted: %s" % e)
                    continue
            else:
                after = tmpl
            try:
                auto, explicit, named = tables.format_fields(after)
                ok = auto == 0 and not explicit and named <= {"cmd", "file", "offset"}
                det = "fields left for the caller: auto=%d explicit=%s named=%s" % (auto, sorted(explicit), sorted(named))
            except ValueError as e:
                ok, det = False, "malformed after formatting: %s" % e
            res.check(ok, "C02.6", "%s.bitstream_viewer_hint:template" % c.name, where, det, by="only {cmd} {file} {offset} remain")


def rule_level_dict(repo, res, sf, exc):
    """C02.6 (lookups keyed by exception attributes): ValueNotAllowedInLevel /
    QuantisationMatrixValueNotAllowedInLevel explain themselves with
    level_constrained_values["level"] and LEVELS[level].  The dictionary is
    state["_level_constrained_values"]; it holds "level" iff an
    assert_level_constraint(state, "level", ...) succeeded earlier in the
    sequence -- so that call must precede every other level check on every
    path, and the "level" check itself must be unable to fail for a valid
    Levels value."""
    users = []
    for cname, c in exc.classes.items():
        for mname, fn in c.methods.items():
            for n in ast.walk(fn):
                if isinstance(n, ast.Subscript) and const_str(n.slice) == "level" and isinstance(n.value, ast.Attribute) and dotted(n.value.value) == "self":
                    users.append((cname, mname, n.value.attr))
    res.info["exceptions_reading_level_from_their_dict"] = sorted(set(u[0] for u in users))
    if not users:
        return
    groups = {}
    for mod, fn, call, key, ok, stack in sf.level_dict_obs:
        g = groups.setdefault((mod.rel, fn, key), [True, stack])
        if not ok:
            g[0] = False
            g[1] = stack
    for (rel, fn, key), (ok, stack) in groups.items():
        res.check(ok, "C02.6", "%s:level-before-%s" % (fn, key), "%s:%s" % (rel, fn), "assert_level_constraint(state, %r, ...) can run before the level itself has been recorded: if it fails, %s.explain() reads level_constrained_values['level'] and raises KeyError instead of explaining" % (key, users[0][0]), by="assert_level_constraint(state, 'level', ...) precedes it on every path", ) if True else None
    # quant_matrix hands the same dictionary to its own exception through assert_in
    # table facts: a valid Levels value always passes the "level" check, and LEVELS / the level row cover Levels
    from .. import enc_tables

    rows = repo.read_csv_rows("vc2_conformance/level_constraints.csv")
    level_row = None
    for r in rows:
        if r and r[0].strip() == "level":
            level_row = r[1:]
    lv = repo.ext.enums.get("Levels", {})
    allowed = set()
    if level_row:
        last = ""
        for cell in level_row:
            c = cell.strip()
            from ..extables import _is_ditto

            if _is_ditto(cell) or not c:
                c = last
            last = c
            for part in c.split(","):
                part = part.strip()
                if part.isdigit():
                    allowed.add(int(part))
                elif "-" in part and all(x.strip().isdigit() for x in part.split("-")):
                    a, b = [int(x) for x in part.split("-")]
                    allowed |= set(range(a, b + 1))
                elif part == "any":
                    allowed |= set(lv.values())
    missing = sorted(set(lv.values()) - allowed)
    res.check(level_row is not None and not missing, "C02.6", "levels:every-level-has-a-column", "vc2_conformance/level_constraints.csv", "Levels values %s appear in no column of the level row: the very first level check would fail with an empty dictionary and the error could not explain itself" % missing, by="all %d Levels values are allowed by the level row" % len(lv))
    levels_rows = set(repo.ext.lookups.get("LEVELS", {}).get("rows", {}))
    missing = sorted(set(lv.values()) - levels_rows)
    res.check(not missing, "C02.6", "levels:LEVELS-covers-enum", "vc2_data_tables/csv/levels.csv", "LEVELS has no row for Levels values %s" % missing, by="LEVELS covers the enum")


# functions of the validator's reach that allocate per-picture structures (confirmed on the reviewed tree:
# their every return is a local assigned a display / comprehension / new_array(...) in the call)
FRESH_RETURNING = [
    "decoder.transform_data_syntax:initialize_wavelet_data",
    "pseudocode.picture_decoding:h_synthesis",
    "pseudocode.picture_decoding:vh_synthesis",
    "pseudocode.arrays:new_array",
]


def rule_fresh(repo, res):
    for spec in FRESH_RETURNING:
        m, fn = repo.func(spec)
        where = "%s:%s" % (m.rel, fn.name)
        rets = [x for x in ast.walk(fn) if isinstance(x, ast.Return)]
        stale = []
        for x in rets:
            v = x.value
            ok = False
            if isinstance(v, (ast.Dict, ast.List, ast.ListComp, ast.DictComp)) or v is None or isinstance(v, ast.Constant):
                ok = True  # displays, comprehensions and constants (leaf None) carry no earlier state
            elif isinstance(v, ast.Name):
                ds = [a.value for a in ast.walk(fn) if isinstance(a, ast.Assign) and any(isinstance(t, ast.Name) and t.id == v.id for t in a.targets)]
                ok = bool(ds) and all(isinstance(d, (ast.Dict, ast.List, ast.ListComp, ast.DictComp)) or (isinstance(d, ast.Call) and dotted(d.func) in ("new_array", "dict", "list", "OrderedDict")) for d in ds)
            if not ok:
                stale.append(short(x, 50))
        res.check(bool(rets) and not stale, "C02.7", "fresh:%s" % fn.name, where, "%s can return `%s`, which is not built during the call: data kept from an earlier picture has the nested shape of that picture's transform parameters, and indexing it with the current ones raises KeyError/IndexError inside the decoder" % (fn.name, "; ".join(stale)), by="every return is an object constructed in the call")
