"""C27 Fixed-entry dictionaries never hold undeclared keys and pickle faithfully.

A fixeddict is a `dict` subclass assembled inside fixeddict().  A key can
enter the underlying dict only through one of dict's key-inserting methods, so
the invariant "only declared keys" holds for every operation sequence iff every
such method of the *running interpreter's* dict is overridden and every
override validates before (or right after) it touches the base class.
"""
import ast

from ..core import AnalysisError, const_str, dotted, norm, short
from ..report import Result
from ..mustflow import MustFlow
from .. import tables

# methods of dict through which a key that was absent can become present
KEY_INSERTING = ["__init__", "__setitem__", "setdefault", "update", "__ior__"]
# methods that return/produce another mapping (must not return a fixeddict with unchecked keys)
BASE_MUTATORS = {"__init__", "__setitem__", "setdefault", "update", "__ior__"}


def inner_functions(fn):
    return {s.name: s for s in fn.body if isinstance(s, ast.FunctionDef)}


def check(repo, tier="quick"):
    res = Result("C27")
    res.explanation = (
        "Exhaustiveness of the dict mutator overrides built by fixeddict() against the key-inserting methods of the running "
        "interpreter's dict, validation-before-base-call inside every override, pickling protocol shape, and name agreement of "
        "every fixeddict declaration in the package (so pickle can find the class)."
    )
    res.rule("C27.f", "bug patterns with zero expected instances in this property's modules: swapped same-named arguments, lower-bound guard followed by a decrement of the guarded value, presence of a dictionary entry decided by truthiness")
    res.rule("C27.a", "every key-inserting method of dict is overridden in the generated class")
    res.rule("C27.b", "every override reaches the base dict only after (or immediately before) validating keys against entry_objs")
    res.rule("C27.c", "pickling: __reduce__ = (type(self), (), state); __setstate__ and copy go through validated paths")
    res.rule("C27.d", "every fixeddict declaration is a module-level assignment whose variable name equals the class name, called directly from its module")

    m, fn = repo.func("fixeddict:fixeddict")
    where = "%s:fixeddict" % m.rel
    inner = inner_functions(fn)
    # names registered into the class namespace: __dict__["name"] = name
    registered = {}
    ns_var = None
    for s in fn.body:
        if isinstance(s, ast.Assign) and isinstance(s.targets[0], ast.Subscript) and isinstance(s.targets[0].value, ast.Name) and const_str(s.targets[0].slice):
            registered[const_str(s.targets[0].slice)] = s.value
            ns_var = s.targets[0].value.id
    # the namespace must be what type(name, (dict,), ns) receives
    type_call = None
    for n in ast.walk(fn):
        if isinstance(n, ast.Call) and dotted(n.func) == "type" and len(n.args) == 3:
            type_call = n
    if type_call is None or dotted(type_call.args[2]) != ns_var:
        raise AnalysisError("fixeddict(): class is no longer created by type(name, bases, <namespace dict>)")
    bases = [dotted(b) for b in type_call.args[1].elts] if isinstance(type_call.args[1], ast.Tuple) else []
    if bases != ["dict"]:
        raise AnalysisError("fixeddict(): base classes are %s, the rule is written for (dict,)" % bases)
    res.info["methods_registered"] = sorted(registered)

    present = [k for k in KEY_INSERTING if hasattr(dict, k)]
    res.info["dict_key_inserting_methods_in_this_interpreter"] = present
    for k in present:
        v = registered.get(k)
        ok = v is not None and isinstance(v, ast.Name) and v.id in inner
        res.check(ok, "C27.a", "override:%s" % k, where, "dict.%s is not overridden by the generated class: it inserts keys without consulting entry_objs (e.g. `d |= {'bogus': 1}`)" % k if k == "__ior__" else "dict.%s is not overridden by the generated class" % k, by="registered in the class namespace")

    # C27.b validation inside each override
    for name, val in registered.items():
        if not (isinstance(val, ast.Name) and val.id in inner):
            continue
        f = inner[val.id]
        check_override(res, f, name, where)

    # C27.c pickling
    red = inner.get("__reduce__") if isinstance(registered.get("__reduce__"), ast.Name) else None
    ok = False
    if red is not None:
        rets = [n for n in ast.walk(red) if isinstance(n, ast.Return)]
        if len(rets) == 1 and isinstance(rets[0].value, ast.Tuple) and len(rets[0].value.elts) == 3:
            a, b, c = rets[0].value.elts
            ok = norm(a) in ("type(self)", "self.__class__") and isinstance(b, ast.Tuple) and not b.elts and norm(c) in ("self.__getstate__()", "dict(self)")
    res.check(ok, "C27.c", "__reduce__:shape", where, "__reduce__ must return (type(self), (), <plain dict of the items>)", by="(type(self), (), self.__getstate__())")
    gs = inner.get("__getstate__")
    ok = gs is not None and any(isinstance(n, ast.Return) and norm(n.value) == "dict(self)" for n in ast.walk(gs)) if "__getstate__" in registered else norm(red) .find("dict(self)") >= 0 if red is not None else False
    res.check(bool(ok), "C27.c", "__getstate__:plain-dict", where, "__getstate__ must return dict(self)", by="dict(self)")
    ss = inner.get("__setstate__") if isinstance(registered.get("__setstate__"), ast.Name) else None
    ok = ss is not None and routes_through_validated(ss)
    res.check(ok, "C27.c", "__setstate__:validated", where, "__setstate__ must restore items through update()/item assignment (validated), not through dict.update", by="self.update(state)")
    cp = inner.get("copy") if isinstance(registered.get("copy"), ast.Name) else None
    ok = cp is not None and any(isinstance(n, ast.Return) and norm(n.value) in ("self.__class__(self)", "type(self)(self)") for n in ast.walk(cp))
    res.check(ok, "C27.c", "copy:same-type", where, "copy() must build self.__class__(self)", by="self.__class__(self)")
    # module attribution for pickle: __module__ from the caller's frame or the module= keyword
    txt = norm(fn)
    ok = "sys._getframe(1).f_globals['__name__']" in txt and "setattr(cls, '__module__', module)" in txt
    res.check(ok, "C27.c", "__module__:callers-module", where, "the generated class's __module__ is no longer set from the calling module", by="sys._getframe(1) / module= keyword")

    # C27.d declarations
    n_decl = 0
    for fd in tables.fixeddicts(repo):
        n_decl += 1
        w = "%s:%s" % (fd.mod.rel, fd.var or "?")
        top = fd.node in fd.mod.tree.body
        explicit_module = any(kw.arg == "module" for kw in fd.node.value.keywords)
        res.check(
            fd.var == fd.name and (top or explicit_module),
            "C27.d",
            "decl:%s.%s" % (fd.mod.name.split(".")[-1], fd.name),
            w,
            "fixeddict(%r) is bound to %r%s: pickle looks the class up as <module>.%s" % (fd.name, fd.var, "" if top else " (not at module level)", fd.name),
            by="module-level, name agrees",
        )
    res.info["fixeddict_declarations"] = n_decl
    from .. import lints as _lints

    _lints.rule(repo, res, "C27.f", ['fixeddict'])
    res.floor("C27.f", 2)
    res.floor("C27.a", 4)
    res.floor("C27.b", 4)
    res.floor("C27.c", 5)
    res.floor("C27.d", 30)
    res.assumptions = [
        "dict's C implementation routes fromkeys() on a subclass through the subclass's __setitem__, and __or__/__ror__ return plain dicts",
        "no code pokes dict.__setitem__(fixeddict_instance, ...) from outside fixeddict.py (checked for the package by C27.b's package scan)",
    ]
    res.trusted = ["dir(dict) of the interpreter that runs the repository (/venv/bin/python)"]
    # package-wide: nobody bypasses the overrides with dict.<mutator>(obj, ...)
    bypass = []
    for mod in repo.modules.values():
        if mod is m:
            continue
        for n in ast.walk(mod.tree):
            if isinstance(n, ast.Call) and dotted(n.func) in ("dict.__setitem__", "dict.update", "dict.setdefault", "dict.__ior__"):
                bypass.append("%s: %s" % (mod.rel, short(n)))
    res.check(not bypass, "C27.b", "package:no-bypass", "vc2_conformance/**", "unbound dict mutators used outside fixeddict.py: %s" % bypass[:3], by="no dict.<mutator>(obj, ...) call in the package")
    return res


def routes_through_validated(f):
    """the function inserts items only via self[...] = / self.update(...) / self.setdefault(...)."""
    ok = False
    for n in ast.walk(f):
        if isinstance(n, ast.Call):
            d = dotted(n.func)
            if d and d.startswith("dict."):
                return False
            if d in ("self.update", "self.setdefault", "self.__setitem__"):
                ok = True
        if isinstance(n, (ast.Assign, ast.AugAssign)):
            tg = n.targets if isinstance(n, ast.Assign) else [n.target]
            for t in tg:
                if isinstance(t, ast.Subscript) and dotted(t.value) == "self":
                    ok = True
    return ok


def check_override(res, f, name, where):
    """Every base-class mutation `dict.X(self, k, ...)` in f is dominated by a
    positive `k in entry_objs` test, or (bulk forms) followed on every normal
    exit by a loop that raises for any key not in entry_objs."""
    params = [a.arg for a in f.args.args]
    base_calls = []
    problems = []

    def key_guard(test):
        # returns the guarded name for `k in entry_objs`
        if isinstance(test, ast.Compare) and len(test.ops) == 1 and isinstance(test.ops[0], ast.In) and dotted(test.comparators[0]) == "entry_objs":
            return dotted(test.left)
        return None

    # collect guards enclosing each base call
    for n in ast.walk(f):
        if isinstance(n, ast.Call):
            d = dotted(n.func)
            is_base = bool(d) and (d.startswith("dict.") and d.split(".")[1] in BASE_MUTATORS)
            if isinstance(n.func, ast.Attribute) and isinstance(n.func.value, ast.Call) and dotted(n.func.value.func) == "super" and n.func.attr in BASE_MUTATORS:
                is_base = True
            if not is_base:
                continue
            base_calls.append(n)
            meth = n.func.attr
            args = n.args[1:] if d and d.startswith("dict.") else n.args
            if meth in ("__setitem__", "setdefault"):
                k = dotted(args[0]) if args else None
                guarded = False
                p = n
                while getattr(p, "_parent", None) is not None and p is not f:
                    par = p._parent
                    if isinstance(par, ast.If) and p in par.body and key_guard(par.test) == k and k is not None:
                        guarded = True
                    p = par
                if not guarded:
                    problems.append("dict.%s(self, %s, ...) is not under `%s in entry_objs`" % (meth, k, k))
            else:
                # bulk insertion.  In a constructor it may be post-validated on every normal
                # exit (a failed construction yields no object).  In a mutator of an existing
                # object it is a violation: the undeclared key is already in the dictionary
                # when the validation raises, and stays there.
                if name != "__init__":
                    problems.append("bulk dict.%s(self, ...) inserts the keys before they are validated: a rejected %s leaves the undeclared key in the dictionary" % (meth, name))
                    continue

                def rejecting_loop(node):
                    # for k in self(.keys()): if k not in entry_objs: raise
                    if not isinstance(node, ast.For):
                        return False
                    it = norm(node.iter)
                    if it not in ("self.keys()", "self", "list(self)", "list(self.keys())"):
                        return False
                    v = dotted(node.target)
                    for i in node.body:
                        if isinstance(i, ast.If) and isinstance(i.test, ast.Compare) and isinstance(i.test.ops[0], ast.NotIn) and dotted(i.test.left) == v and dotted(i.test.comparators[0]) == "entry_objs" and any(isinstance(b, ast.Raise) for b in i.body):
                            return True
                    return False

                outer = getattr(f, "_parent", None)
                helpers = set()
                for h in (outer.body if isinstance(outer, ast.FunctionDef) else []):
                    if isinstance(h, ast.FunctionDef) and h is not f and len(h.args.args) == 1 and h.args.args[0].arg == "self" and any(rejecting_loop(b) for b in h.body) and not any(isinstance(x, ast.Return) and x.value is not None for x in ast.walk(h)):
                        top = [b for b in h.body if not (isinstance(b, ast.Expr) and isinstance(b.value, ast.Constant))]
                        if all(rejecting_loop(b) for b in top):
                            helpers.add(h.name)

                def on(node, st):
                    if node is n:
                        return st.add("bulk")
                    if "bulk" in st.must and rejecting_loop(node):
                        return st.add("validated")
                    if "bulk" in st.must and isinstance(node, ast.Call) and isinstance(node.func, ast.Name) and node.func.id in helpers and len(node.args) == 1 and dotted(node.args[0]) == "self":
                        return st.add("validated")
                    return st

                mf = MustFlow(f, on, node_types=(ast.Call, ast.For)).run()
                ex = mf.normal_exit_state()
                if ex is None or "validated" not in ex.must:
                    problems.append("bulk dict.%s(self, ...) is not followed on every normal exit by a loop rejecting keys not in entry_objs" % meth)
    key = "override:%s:validates" % name
    if name in BASE_MUTATORS or base_calls:
        if not base_calls and not routes_through_validated(f) and name in BASE_MUTATORS:
            problems.append("%s neither validates nor delegates to a validated method" % name)
        res.check(not problems, "C27.b", key, where, "; ".join(problems), by="%d base call(s) validated" % len(base_calls) if base_calls else "delegates to item assignment / update")
