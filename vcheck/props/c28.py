"""C28 Codec-features CSV reading either succeeds in-domain or explains.

(a) exception-escape analysis of read_codec_features_csv: only
    InvalidCodecFeaturesError may reach the caller;
(b) parser / declaration table agreement: what a successful return contains.
"""
import ast
from collections import OrderedDict

from ..core import AnalysisError, const_str, dotted, norm, short, subscript_key
from ..report import Result
from ..mustflow import MustFlow
from ..mayraise import MayRaise, ANY
from .. import tables

ALLOWED = "InvalidCodecFeaturesError"


def check(repo, tier="quick"):
    res = Result("C28")
    res.explanation = (
        "Exception-escape analysis (explicit raises + builtin summary table + resolved callees incl. partial()/callable "
        "parameters, minus try/except) of read_codec_features_csv, and agreement between its (field, parser) tables, the "
        "CodecFeatures/VideoParameters declarations, set_source_defaults, the validator's zero-rejections and the decoder's "
        "quantisation-matrix layout."
    )
    res.rule("C28.g", "bug patterns with zero expected instances in this property's modules: swapped same-named arguments, lower-bound guard followed by a decrement of the guarded value, presence of a dictionary entry decided by truthiness")
    res.rule("C28.a", "only InvalidCodecFeaturesError can escape read_codec_features_csv (modelled exception sources)")
    res.rule("C28.b", "every CodecFeatures entry is stored on every normal path of a column; stored keys are declared entries")
    res.rule("C28.c", "each (field, parser) pair: enum fields use parse_int_enum with the declared enum; integers use parse_int_at_least (never bare int); flags use parse_bool; fields the validator rejects at zero have minimum >= 1")
    res.rule("C28.d", "picture_bytes is None exactly on the lossless arm; name uniqueness precedes insertion; leftover rows raise; defaulted fields exist in set_source_defaults' result")
    res.rule("C28.f", "index safety of the CSV table reader (IndexError is outside the escape model): every out[i] with i an enumerate index is preceded, unconditionally in the same iteration, by `if i >= len(out): out.append(...)`, so len(out) > i by induction on i")
    res.rule("C28.e", "parse_quantization_matrix produces the level/orientation layout the decoder's quant_matrix reads")

    m, fn = repo.func("codec_features:read_codec_features_csv")
    where = "%s:read_codec_features_csv" % m.rel
    rule_a(repo, res, m, fn, where)
    loop = column_loop(fn)
    fields = field_tables(loop)
    rule_b(repo, res, m, fn, loop, fields, where)
    rule_c(repo, res, m, fields, where)
    rule_d(repo, res, m, fn, loop, fields, where)
    rule_e(repo, res, m)
    from .. import lints as _lints

    _lints.rule(repo, res, "C28.g", ['codec_features'])
    res.floor("C28.g", 2)
    res.floor("C28.a", 2)
    res.floor("C28.b", 15)
    res.floor("C28.c", 30)
    res.floor("C28.d", 4)
    res.floor("C28.e", 4)
    rule_f(repo, res)
    res.floor("C28.f", 1)
    res.assumptions = [
        "KeyError/IndexError from subscripts on plain local lists/dicts, and TypeError/AttributeError from ill-typed values, are not modelled by the escape analysis",
        "csvfile iteration itself (I/O errors of the caller's file object) is outside the function's contract",
    ]
    res.trusted = ["builtin may-raise summary table in vcheck/mayraise.py", "vc2_data_tables enum list"]
    return res


def rule_a(repo, res, m, fn, where):
    mr = MayRaise(repo, enum_names=set(repo.ext.enums))
    esc = mr.function(m, fn)
    n = 0
    for name, origin in esc.items():
        n += 1
        key = "escape:%s" % name
        if name == ALLOWED or mr.h.is_sub(name, ALLOWED):
            res.ok("C28.a", key, where, by="the documented error")
            continue
        if name == "AssertionError" and "assert len(default_)" in origin:
            ok, det = assert_arity(fn)
            res.check(ok, "C28.a", key, where, det, by=det)
            continue
        if name == ANY:
            res.bad("C28.a", "escape:unknown-callee", where, "call to an unresolved callable, anything may escape: %s" % origin)
            continue
        res.bad("C28.a", key, where, "%s can escape read_codec_features_csv: raised at %s" % (name, origin))
    res.check(ALLOWED in esc, "C28.a", "raises-documented-error", where, "the function no longer raises %s at all" % ALLOWED, by="present")
    res.info["escape_set"] = sorted(esc)
    res.info["unresolved_calls"] = mr.unknown_calls[:5]


def assert_arity(fn):
    """`assert len(default_) in (0, 1)` in the closure pop(field_name, parser,
    *default_): every call site passes 2 or 3 positional arguments."""
    pop = None
    for n in ast.walk(fn):
        if isinstance(n, ast.FunctionDef) and n is not fn and n.args.vararg is not None:
            pop = n
    if pop is None:
        return False, "closure with *args not found"
    allowed = None
    for n in ast.walk(pop):
        if isinstance(n, ast.Assert) and isinstance(n.test, ast.Compare) and isinstance(n.test.ops[0], ast.In) and norm(n.test.left) == "len(%s)" % pop.args.vararg.arg:
            try:
                allowed = set(ast.literal_eval(n.test.comparators[0]))
            except Exception:
                return False, "assert domain is not a literal"
    if allowed is None:
        return False, "assert on len(*args) not found"
    npos = len(pop.args.args)
    sites = [c for c in ast.walk(fn) if isinstance(c, ast.Call) and dotted(c.func) == pop.name]
    bad = [short(c, 50) for c in sites if any(isinstance(a, ast.Starred) for a in c.args) or (len(c.args) - npos) not in allowed or c.keywords]
    if bad or not sites:
        return False, "call sites of %s with an extra-argument count outside %s: %s" % (pop.name, sorted(allowed), bad[:3])
    return True, "all %d call sites of %s pass %s extra positional argument(s)" % (len(sites), pop.name, sorted(allowed))


def column_loop(fn):
    for s in fn.body:
        if isinstance(s, ast.For) and "csv_columns" in norm(s.iter):
            return s
    raise AnalysisError("read_codec_features_csv: per-column loop not found")


def classify_parser(e):
    """-> ('enum', EnumName) | ('int', minimum) | ('bool',) | ('quant',) | ('other', text)"""
    if isinstance(e, ast.Call) and dotted(e.func) == "partial" and e.args:
        f = dotted(e.args[0])
        if f == "parse_int_enum" and len(e.args) == 2:
            return ("enum", dotted(e.args[1]))
        if f == "parse_int_at_least" and len(e.args) == 2 and isinstance(e.args[1], ast.Constant):
            return ("int", e.args[1].value)
        if f == "parse_quantization_matrix":
            return ("quant",)
    if dotted(e) == "parse_bool":
        return ("bool",)
    return ("other", norm(e))


def field_tables(loop):
    """[(target kind 'features'|'video_parameters', field, parser classification, has_default)]"""
    out = []
    for s in ast.walk(loop):
        if isinstance(s, ast.For) and isinstance(s.iter, (ast.List, ast.Tuple)) and isinstance(s.target, ast.Tuple):
            tgt = None
            has_default = False
            for b in s.body:
                if isinstance(b, ast.Assign) and isinstance(b.value, ast.Call) and dotted(b.value.func) == "pop":
                    t = norm(b.targets[0])
                    if t.startswith("features['video_parameters']["):
                        tgt = "video_parameters"
                    elif t.startswith("features["):
                        tgt = "features"
                    has_default = len(b.value.args) > 2
            if tgt is None:
                continue
            for e in s.iter.elts:
                if isinstance(e, ast.Tuple) and len(e.elts) == 2 and const_str(e.elts[0]):
                    out.append((tgt, const_str(e.elts[0]), classify_parser(e.elts[1]), has_default))
        elif isinstance(s, ast.Assign) and isinstance(s.value, ast.Call) and dotted(s.value.func) == "pop" and const_str(s.value.args[0]) if isinstance(s, ast.Assign) and isinstance(s.value, ast.Call) and s.value.args else False:
            k = subscript_key(s.targets[0], "features")
            if k:
                out.append(("features", k, classify_parser(s.value.args[1]), len(s.value.args) > 2))
    return out


def rule_b(repo, res, m, fn, loop, fields, where):
    cf = tables.fixeddict_by_var(repo, "codec_features", "CodecFeatures")
    vp = tables.fixeddict_by_var(repo, "pseudocode.video_parameters", "VideoParameters")
    def enclosing_literal_loop(node, var):
        p = getattr(node, "_parent", None)
        while p is not None and p is not loop:
            if isinstance(p, ast.For) and isinstance(p.iter, (ast.List, ast.Tuple)) and isinstance(p.target, ast.Tuple) and isinstance(p.target.elts[0], ast.Name) and p.target.elts[0].id == var:
                return [const_str(e.elts[0]) for e in p.iter.elts if isinstance(e, ast.Tuple) and const_str(e.elts[0])]
            p = getattr(p, "_parent", None)
        return None

    orig = {}

    def keys_of_target(t):
        t = orig.get(id(t), t)
        if isinstance(t, ast.Subscript) and dotted(t.value) == "features":
            k = const_str(t.slice)
            if k is not None:
                return [k]
            if isinstance(t.slice, ast.Name):
                vals = enclosing_literal_loop(t, t.slice.id)
                if vals:
                    return vals
        return []

    def on(node, st):
        if isinstance(node, ast.Assign):
            for t in node.targets:
                ks = keys_of_target(t)
                # a store inside `for name, parser in [literal list]` happens for every listed name
                if ks:
                    st = st.add(*["stored:" + k for k in ks])
        return st

    body = ast.FunctionDef(name="_column", args=fn.args, body=_continue_to_return(loop.body), decorator_list=[], lineno=loop.lineno, col_offset=0)
    ast.fix_missing_locations(body)
    originals = {}
    for n in ast.walk(loop):
        if isinstance(n, ast.Subscript):
            originals[(n.lineno, n.col_offset, n.end_col_offset)] = n
    for n in ast.walk(body):
        if isinstance(n, ast.Subscript) and (n.lineno, n.col_offset, n.end_col_offset) in originals:
            orig[id(n)] = originals[(n.lineno, n.col_offset, n.end_col_offset)]
    # stores inside the literal-list loops execute once per element (the lists are non-empty literals):
    # MustFlow's loop join would lose them, so count them on loop entry
    mf = MustFlow(body, lambda n, s: on_with_loops(n, s, on, keys_of_target), node_types=(ast.Assign, ast.For)).run()
    falls = [st for kind, node, st in mf.exits if kind == "fallthrough"]
    if not falls:
        raise AnalysisError("column loop body has no fall-through exit")
    must = falls[0].must
    for f in falls[1:]:
        must = must & f.must
    for k in cf.entries:
        res.check("stored:" + k in must, "C28.b", "entry:%s" % k, where, "CodecFeatures[%r] is not stored on every normal path of a column" % k, by="stored on all paths")
    # declared keys
    for s in ast.walk(loop):
        if isinstance(s, ast.Assign):
            for t in s.targets:
                for k in keys_of_target(t):
                    res.check(k in cf.entries, "C28.b", "declared:%s" % k, where, "features[%r] is not a declared CodecFeatures entry (FixedDictKeyError, a KeyError, would escape)" % k, by="declared")
    for tgt, field, cls, has_default in fields:
        if tgt == "video_parameters":
            res.check(field in vp.entries, "C28.b", "vp-declared:%s" % field, where, "video_parameters[%r] is not a declared VideoParameters entry" % field, by="declared")


def on_with_loops(node, st, on, keys_of_target):
    if isinstance(node, ast.For) and isinstance(node.iter, (ast.List, ast.Tuple)) and node.iter.elts:
        # non-empty literal list: the body runs at least once for every element
        for b in node.body:
            if isinstance(b, ast.Assign):
                st = on(b, st)
        return st
    if isinstance(node, ast.Assign):
        return on(node, st)
    return st


def _continue_to_return(stmts):
    import copy

    out = copy.deepcopy(stmts)

    class T(ast.NodeTransformer):
        def __init__(self):
            self.depth = 0

        def visit_For(self, node):
            self.depth += 1
            self.generic_visit(node)
            self.depth -= 1
            return node

        visit_While = visit_For

        def visit_Continue(self, node):
            if self.depth == 0:
                return ast.copy_location(ast.Return(value=None), node)
            return node

        def visit_FunctionDef(self, node):
            return node

    t = T()
    return [t.visit(s) for s in out]


def zero_rejected_keys(repo):
    """keys k such that the validator raises when video_parameters[k] / state[k]
    is 0 (== 0 or < 1 tests guarding a raise) in the header/picture syntax."""
    out = {}
    for spec in ("decoder.sequence_header", "decoder.picture_syntax"):
        m = repo.mod(spec)
        for fn in m.funcs.values():
            for n in ast.walk(fn):
                if isinstance(n, ast.If) and any(isinstance(b, ast.Raise) for b in n.body):
                    for c in ast.walk(n.test):
                        if isinstance(c, ast.Compare) and len(c.ops) == 1 and isinstance(c.comparators[0], ast.Constant):
                            k = subscript_key(c.left, "video_parameters") or subscript_key(c.left, "state")
                            v = c.comparators[0].value
                            if k and ((isinstance(c.ops[0], ast.Eq) and v == 0) or (isinstance(c.ops[0], ast.Lt) and v == 1)):
                                out[k] = "%s:%s" % (m.rel, fn.name)
    return out


def rule_c(repo, res, m, fields, where):
    cf = tables.fixeddict_by_var(repo, "codec_features", "CodecFeatures")
    vp = tables.fixeddict_by_var(repo, "pseudocode.video_parameters", "VideoParameters")
    zero = zero_rejected_keys(repo)
    if len(zero) < 6:
        raise AnalysisError("validator zero-rejections not recognised (found %s)" % sorted(zero))
    seen = set()
    for tgt, field, cls, has_default in fields:
        decl = (cf if tgt == "features" else vp).entries.get(field)
        key = "%s.%s" % (tgt, field)
        seen.add(field)
        if decl is None:
            continue
        if decl.enum:
            res.check(cls == ("enum", decl.enum), "C28.c", "parser:%s" % key, where, "%s is declared with enum=%s but parsed with %s" % (key, decl.enum, cls), by="parse_int_enum(%s)" % decl.enum)
        elif cls[0] == "int":
            need = 1 if field in zero else None
            ok = need is None or cls[1] >= need
            res.check(ok, "C28.c", "parser:%s" % key, where, "%s accepts %d but the validator rejects 0 (%s)" % (key, cls[1], zero.get(field)), by="parse_int_at_least(%s)%s" % (cls[1], " (validator rejects 0)" if need else ""))
        elif cls[0] in ("bool", "quant"):
            res.ok("C28.c", "parser:%s" % key, where, by=cls[0])
        else:
            res.bad("C28.c", "parser:%s" % key, where, "%s is parsed with %s: integers must use parse_int_at_least, enums parse_int_enum, flags parse_bool" % (key, cls))
    for k in zero:
        if k in cf.entries or k in vp.entries:
            res.check(k in seen, "C28.c", "zero-rejected-covered:%s" % k, where, "the validator rejects %s == 0 but the CSV reader has no parser entry for it" % k, by="has a parser")


def _guards_of(node, top):
    out = []
    c, p = node, getattr(node, "_parent", None)
    while p is not None and p is not top:
        if isinstance(p, ast.If):
            if any(c is x for x in p.body):
                out.append((p.test, True))
            elif any(c is x for x in p.orelse):
                out.append((p.test, False))
        c, p = p, getattr(p, "_parent", None)
    return out


def rule_d(repo, res, m, fn, loop, fields, where):
    # picture_bytes
    ok = False
    for s in loop.body:
        if isinstance(s, ast.If) and subscript_key(s.test, "features") == "lossless":
            t_none = any(isinstance(b, ast.Assign) and subscript_key(b.targets[0], "features") == "picture_bytes" and isinstance(b.value, ast.Constant) and b.value.value is None for b in s.body)
            t_raise = any(isinstance(b, ast.If) and "picture_bytes" in norm(b.test) and any(isinstance(x, ast.Raise) for x in b.body) for b in s.body)
            f_parse = any(isinstance(b, ast.Assign) and subscript_key(b.targets[0], "features") == "picture_bytes" and isinstance(b.value, ast.Call) and dotted(b.value.func) == "pop" and classify_parser(b.value.args[1])[0] == "int" and classify_parser(b.value.args[1])[1] >= 1 and len(b.value.args) == 2 for b in s.orelse)
            ok = t_none and t_raise and f_parse
    res.check(ok, "C28.d", "picture_bytes:lossless-arm", where, "picture_bytes must be None (and its presence rejected) exactly when lossless, and a parsed integer >= 1 (no default) otherwise", by="None/raise on the lossless arm, parse_int_at_least(1) on the other")
    # the word "default" is accepted only where a default was supplied
    pop = None
    for n in ast.walk(fn):
        if isinstance(n, ast.FunctionDef) and n is not fn and n.name == "pop":
            pop = n
    ok = False
    detail = "closure pop(field_name, parser, <default>) not found"
    if pop is not None:
        dname = pop.args.vararg.arg if pop.args.vararg is not None else (pop.args.args[2].arg if len(pop.args.args) > 2 else None)
        is_var = pop.args.vararg is not None
        rets = [r for r in ast.walk(pop) if isinstance(r, ast.Return) and r.value is not None and dname is not None and any(isinstance(x, ast.Name) and x.id == dname for x in ast.walk(r.value))]
        good = bool(rets)
        for r in rets:
            terms = []
            for t, pol in _guards_of(r, pop):
                if pol:
                    terms.extend(t.values if isinstance(t, ast.BoolOp) and isinstance(t.op, ast.And) else [t])
            tn = [norm(t) for t in terms]
            says_default = any(x.endswith(".lower() == 'default'") or x.endswith(" == 'default'") for x in tn)
            if is_var:
                supplied = any(x in (dname, "len(%s) > 0" % dname, "len(%s) == 1" % dname, "len(%s) != 0" % dname) for x in tn)
            else:
                supplied = any(x.startswith("%s is not " % dname) and not x.endswith(" None") for x in tn)
            good = good and says_default and supplied
        ok = good
        detail = "returns of the default found: %d" % len(rets)
    res.check(ok, "C28.d", "default:only-where-supplied", where, "the cell text 'default' may be replaced by a default only when the caller supplied one for that row (a test that the default was given must guard the return, e.g. `if default_ and value.lower() == \"default\"`): otherwise rows without a default (level, profile, wavelet_index, slices_x, ...) accept the word and yield None or a missing value instead of the documented error (%s)" % detail, by="return of the default guarded by `supplied and cell == 'default'`")
    # uniqueness precedes insertion
    problems = []

    def on(node, st):
        if isinstance(node, ast.If):
            t = node.test
            if isinstance(t, ast.Compare) and isinstance(t.ops[0], ast.In) and dotted(t.left) == "name" and dotted(t.comparators[0]) == "out" and any(isinstance(b, ast.Raise) for b in node.body):
                return st.add("unique")
        elif isinstance(node, ast.Assign):
            if any(isinstance(t, ast.Subscript) and dotted(t.value) == "out" and dotted(t.slice) == "name" for t in node.targets):
                if "unique" not in st.must:
                    problems.append("out[name] = ... not dominated by the `name in out` check")
                return st.add("inserted")
        return st

    body = ast.FunctionDef(name="_column", args=fn.args, body=_continue_to_return(loop.body), decorator_list=[], lineno=loop.lineno, col_offset=0)
    ast.fix_missing_locations(body)
    mf = MustFlow(body, on, node_types=(ast.If, ast.Assign)).run()
    falls = [st for kind, node, st in mf.exits if kind == "fallthrough"]
    res.check(not problems and falls and all("inserted" in f.must for f in falls), "C28.d", "name:unique-before-insert", where, "; ".join(problems) or "column not inserted on a normal path", by="dominance")
    # leftover rows raise: last statement of the loop body
    last = loop.body[-1]
    ok = isinstance(last, ast.If) and dotted(last.test) == "column" and any(isinstance(b, ast.Raise) and isinstance(b.exc, ast.Call) and dotted(b.exc.func) == ALLOWED for b in last.body)
    res.check(ok, "C28.d", "leftover-rows-raise", where, "unrecognised rows left in the column must raise %s at the end of the column" % ALLOWED, by="final `if column: raise`")
    # defaulted fields exist in set_source_defaults' result
    sm, ssd = repo.func("pseudocode.video_parameters:set_source_defaults")
    kws = set()
    for n in ast.walk(ssd):
        if isinstance(n, ast.Return) and isinstance(n.value, ast.Call) and dotted(n.value.func) == "VideoParameters":
            kws = set(k.arg for k in n.value.keywords)
    missing = [f for tgt, f, cls, d in fields if tgt == "video_parameters" and d and f not in kws]
    nvp = len([1 for tgt, f, cls, d in fields if tgt == "video_parameters"])
    res.check(not missing and nvp >= 10, "C28.d", "defaults:present-in-source-defaults", where, "fields defaulted from features['video_parameters'][field] that set_source_defaults does not set: %s" % missing, by="%d defaulted fields are keyword arguments of VideoParameters(...)" % nvp)


def matrix_layout(fn, depth_ho, depth, container_pred):
    """Symbolic layout: list of (branch, level text, orientation) in program order."""
    out = []

    def lin(e):
        """linear form over names -> canonical text (commutativity-insensitive)."""
        terms = {}

        def add(x, sign):
            if isinstance(x, ast.BinOp) and isinstance(x.op, ast.Add):
                add(x.left, sign)
                add(x.right, sign)
            elif isinstance(x, ast.BinOp) and isinstance(x.op, ast.Sub):
                add(x.left, sign)
                add(x.right, -sign)
            elif isinstance(x, ast.Constant) and isinstance(x.value, int):
                terms[""] = terms.get("", 0) + sign * x.value
            else:
                k = subscript_key(x, "state") or norm(x)
                terms[k] = terms.get(k, 0) + sign

        add(e, 1)
        return "+".join("%s*%d" % (k, v) if k else str(v) for k, v in sorted(terms.items()) if v)

    def level_text(e):
        if isinstance(e, ast.Call) and dotted(e.func) == "range":
            return "range(%s)" % ", ".join(lin(a) for a in e.args)
        if isinstance(e, ast.Compare) and len(e.ops) == 1:
            return "%s %s %s" % (lin(e.left), type(e.ops[0]).__name__, lin(e.comparators[0]))
        return norm(e).replace("state['dwt_depth_ho']", "dwt_depth_ho").replace("state['dwt_depth']", "dwt_depth")

    def walk(stmts, branch, level):
        for s in stmts:
            if isinstance(s, ast.If):
                t = level_text(s.test)
                walk(s.body, branch + (t,), level)
                walk(s.orelse, branch + ("not " + t,), level)
            elif isinstance(s, ast.For):
                walk(s.body, branch, level_text(s.iter))
            elif isinstance(s, ast.Try):
                walk(s.body, branch, level)
            elif isinstance(s, ast.Assign):
                t = s.targets[0]
                # container[<level>] = {"O": ..., ...}
                if isinstance(t, ast.Subscript) and container_pred(t.value) and isinstance(s.value, ast.Dict):
                    lv = level if not isinstance(t.slice, ast.Constant) else str(t.slice.value)
                    for k in s.value.keys:
                        if const_str(k):
                            out.append((branch, lv, const_str(k)))
                # container[<level>]["O"] = ...
                elif isinstance(t, ast.Subscript) and isinstance(t.value, ast.Subscript) and container_pred(t.value.value) and const_str(t.slice):
                    lv = level if not isinstance(t.value.slice, ast.Constant) else str(t.value.slice.value)
                    out.append((branch, lv, const_str(t.slice)))

    walk(fn.body, (), None)
    return out


def rule_e(repo, res, m):
    pm, pq = repo.func("codec_features:parse_quantization_matrix")
    dm, dq = repo.func("decoder.picture_syntax:quant_matrix")
    where = "%s:parse_quantization_matrix" % pm.rel
    a = matrix_layout(pq, None, None, lambda e: dotted(e) == "out")
    b_all = matrix_layout(dq, None, None, lambda e: subscript_key(e, "state") == "quant_matrix")
    # the decoder's layout sits under `if custom_quant_matrix:`; strip that outer branch
    b = [(br[1:], lv, o) for br, lv, o in b_all if br and br[0] == "custom_quant_matrix"]
    res.check(len(a) >= 6 and len(b) >= 6, "C28.e", "layout:extracted", where, "could not extract the level/orientation layout (csv reader %d, decoder %d entries)" % (len(a), len(b)), by="%d entries each" % len(a))
    res.check(a == b, "C28.e", "layout:agrees-with-decoder", where, "quantisation matrix layout differs from decoder.picture_syntax.quant_matrix: csv=%s decoder=%s" % ([x for x in a if x not in b][:3], [x for x in b if x not in a][:3]), by="same (branch, level range, orientation) sequence")
    # every value is an int(next(values)); exhaustion and surplus both raise ValueError
    txt = norm(pq)
    n_int = sum(1 for n in ast.walk(pq) if isinstance(n, ast.Call) and dotted(n.func) == "int" and n.args and norm(n.args[0]) == "next(values)")
    res.check(n_int == len(a), "C28.e", "values:int-per-entry", where, "%d entries but %d int(next(values)) conversions" % (len(a), n_int), by="one integer per entry")
    handlers = [h for n in ast.walk(pq) if isinstance(n, ast.Try) for h in n.handlers]
    stop_to_value = any(dotted(h.type) == "StopIteration" and any(isinstance(x, ast.Raise) and isinstance(x.exc, ast.Call) and dotted(x.exc.func) == "ValueError" for x in h.body) for h in handlers)
    surplus = any(isinstance(n, ast.Try) and any(isinstance(x, ast.Raise) and isinstance(x.exc, ast.Call) and dotted(x.exc.func) == "ValueError" for x in n.body) and any(dotted(h.type) == "StopIteration" for h in n.handlers) for n in ast.walk(pq))
    res.check(stop_to_value and surplus, "C28.e", "values:count-enforced", where, "too few / too many values must both raise ValueError (converted to the documented error by pop)", by="StopIteration -> ValueError; surplus -> ValueError")


def rule_f(repo, res):
    """grow-before-index in read_dict_list_csv (and any other reader-side function of codec_features
    that indexes a local list with an enumerate counter)"""
    m = repo.mod("codec_features")
    n_sites = 0
    for fname, fn in m.funcs.items():
        lists = set(dotted(a.targets[0]) for a in ast.walk(fn) if isinstance(a, ast.Assign) and isinstance(a.value, ast.List) and not a.value.elts and isinstance(a.targets[0], ast.Name))
        for sub in ast.walk(fn):
            if not (isinstance(sub, ast.Subscript) and isinstance(sub.value, ast.Name) and sub.value.id in lists and isinstance(sub.slice, ast.Name)):
                continue
            L, i = sub.value.id, sub.slice.id
            # enclosing enumerate loop binding i as its counter
            loop = None
            p = getattr(sub, "_parent", None)
            while p is not None and p is not fn:
                if isinstance(p, ast.For) and isinstance(p.iter, ast.Call) and dotted(p.iter.func) == "enumerate" and isinstance(p.target, ast.Tuple) and dotted(p.target.elts[0]) == i and len(p.iter.args) == 1:
                    loop = p
                p = getattr(p, "_parent", None)
            if loop is None:
                continue
            n_sites += 1
            # the statement containing the subscript, at the loop's top level or nested
            stmt_path = []
            q = sub
            while q is not loop:
                if isinstance(q, ast.stmt):
                    stmt_path.append(q)
                q = q._parent
            top = stmt_path[-1]
            idx = loop.body.index(top)
            grown = False
            for prev in loop.body[:idx]:
                if isinstance(prev, ast.If) and not prev.orelse and isinstance(prev.test, ast.Compare) and len(prev.test.ops) == 1:
                    t = prev.test
                    ok_test = (isinstance(t.ops[0], ast.GtE) and dotted(t.left) == i and norm(t.comparators[0]) == "len(%s)" % L) or (isinstance(t.ops[0], ast.LtE) and norm(t.left) == "len(%s)" % L and dotted(t.comparators[0]) == i) or (isinstance(t.ops[0], ast.Eq) and {norm(t.left), norm(t.comparators[0])} == {i, "len(%s)" % L})
                    if ok_test and len(prev.body) == 1 and isinstance(prev.body[0], ast.Expr) and isinstance(prev.body[0].value, ast.Call) and norm(prev.body[0].value.func) == "%s.append" % L:
                        grown = True
            # nothing in the loop may skip an iteration's growth (continue/break before it) or shrink the list
            skips = [x for s_ in loop.body[:idx] for x in ast.walk(s_) if isinstance(x, (ast.Continue, ast.Break))]
            shrinks = [x for x in ast.walk(fn) if isinstance(x, ast.Call) and isinstance(x.func, ast.Attribute) and dotted(x.func.value) == L and x.func.attr in ("pop", "remove", "clear")] + [x for x in ast.walk(fn) if isinstance(x, ast.Delete)]
            res.check(grown and not skips and not shrinks, "C28.f", "%s:%s[%s]" % (fname, L, i), "%s:%s" % (m.rel, fname), "`%s[%s]` is not preceded, unconditionally in every iteration of the enumerate loop, by `if %s >= len(%s): %s.append(...)`: a column whose earlier cells were skipped makes the index run past the end of the list and IndexError escapes the reader (it is not an InvalidCodecFeaturesError)" % (L, i, i, L, L), by="list grown to i + 1 at the top of every iteration")
    if n_sites == 0:
        raise AnalysisError("codec_features: no enumerate-indexed list access found (read_dict_list_csv changed shape)")
