"""C09 Every decoded picture is well-formed (thin structural part).

Everything but the output callback is spec-pinned pseudocode.  Decided: the
picture handed to the callback has passed the inverse transform, clipping and
offsetting, in that order, on every path; the callback is invoked exactly once
per picture_decode with (picture, video parameters, coding mode); the picture
number is the one read from the stream; picture_decode runs exactly once per
picture data unit and once per completed fragmented picture.
"""
import ast

from ..core import AnalysisError, const_str, dotted, norm, short, subscript_key
from ..report import Result
from ..mustflow import MustFlow

CB = "_output_picture_callback"


def check(repo, tier="quick"):
    res = Result("C09")
    res.explanation = (
        "Must/may event flow over picture_decode (order of inverse transform, clip, offset before the output callback; single "
        "invocation; argument wiring; picture number provenance) and over parse_sequence (where picture_decode is called)."
    )
    res.rule("C09.a", "on every path that invokes the output callback: inverse_wavelet_transform, then clip_picture, then offset_picture have run, in that order, on state['current_picture']")
    res.rule("C09.b", "the callback is invoked at most once, with (current_picture, video_parameters, picture_coding_mode), only when present")
    res.rule("C09.c", "current_picture['pic_num'] is stored from state['picture_number'] and not overwritten")
    res.rule("C09.d", "parse_sequence calls picture_decode exactly after picture_parse and under fragmented_picture_done after fragment_parse; fragmented_picture_done is set exactly when the received slice count reaches slices_x * slices_y")

    m, fn = repo.func("pseudocode.picture_decoding:picture_decode")
    where = "%s:picture_decode" % m.rel
    problems = []
    invoked = [0]
    args_ok = [False]

    def on(node, st):
        if isinstance(node, ast.Call):
            d = dotted(node.func)
            if d == "inverse_wavelet_transform":
                return st.add("iwt")
            if d == "clip_picture":
                if "iwt" not in st.must:
                    problems.append("clip_picture before the inverse transform")
                if "offset" in st.may:
                    problems.append("clip_picture after offset_picture")
                if len(node.args) < 2 or subscript_key(node.args[1], "state") != "current_picture":
                    problems.append("clip_picture not applied to state['current_picture']")
                return st.add("clip")
            if d == "offset_picture":
                if "clip" not in st.must:
                    problems.append("offset_picture without a preceding clip_picture on every path")
                if len(node.args) < 2 or subscript_key(node.args[1], "state") != "current_picture":
                    problems.append("offset_picture not applied to state['current_picture']")
                return st.add("offset")
            if isinstance(node.func, ast.Subscript) and subscript_key(node.func, "state") == CB:
                invoked[0] += 1
                if not {"iwt", "clip", "offset"} <= st.must:
                    problems.append("callback invoked before %s" % sorted({"iwt", "clip", "offset"} - st.must))
                if "called" in st.may:
                    problems.append("callback may be invoked twice")
                a = [subscript_key(x, "state") for x in node.args]
                args_ok[0] = a == ["current_picture", "video_parameters", "picture_coding_mode"] and not node.keywords
                return st.add("called")
        return st

    MustFlow(fn, on).run()
    res.check(not [p for p in problems if "twice" not in p] and invoked[0] >= 1, "C09.a", "picture_decode:order-before-output", where, "; ".join(sorted(set(problems))) or "callback invocation not found", by="inverse transform, clip, offset dominate the callback in that order")
    res.check(not [p for p in problems if "twice" in p] and invoked[0] >= 1, "C09.b", "picture_decode:single-invocation", where, "the callback may be invoked more than once per decoded picture", by="one invocation site, not in a loop")
    res.check(args_ok[0], "C09.b", "picture_decode:callback-arguments", where, "the callback must receive (state['current_picture'], state['video_parameters'], state['picture_coding_mode'])", by="(current_picture, video_parameters, picture_coding_mode)")
    guarded = False
    for n in ast.walk(fn):
        if isinstance(n, ast.If) and isinstance(n.test, ast.Compare) and isinstance(n.test.ops[0], ast.In) and const_str(n.test.left) == CB and dotted(n.test.comparators[0]) == "state":
            guarded = any(isinstance(c, ast.Call) and isinstance(c.func, ast.Subscript) and subscript_key(c.func, "state") == CB for c in ast.walk(n))
    res.check(guarded, "C09.b", "picture_decode:callback-optional", where, "the callback must be invoked under `if '%s' in state`" % CB, by="guarded by presence")
    # pic_num
    stores = [n for n in ast.walk(fn) if isinstance(n, ast.Assign) and isinstance(n.targets[0], ast.Subscript) and const_str(n.targets[0].slice) == "pic_num"]
    ok = len(stores) == 1 and subscript_key(stores[0].targets[0].value, "state") == "current_picture" and subscript_key(stores[0].value, "state") == "picture_number"
    res.check(ok, "C09.c", "picture_decode:pic_num", where, "state['current_picture']['pic_num'] must be stored exactly once, from state['picture_number']", by="pic_num = state['picture_number']")
    # the picture dict is created fresh for every picture
    fresh = any(isinstance(n, ast.Assign) and subscript_key(n.targets[0], "state") == "current_picture" and isinstance(n.value, ast.Dict) and not n.value.keys for n in fn.body)
    res.check(fresh, "C09.c", "picture_decode:fresh-picture", where, "state['current_picture'] must be a fresh dictionary for every decoded picture", by="state['current_picture'] = {}")
    # parse_sequence
    sm, seq = repo.func("decoder.stream:parse_sequence")
    w2 = "%s:parse_sequence" % sm.rel
    calls = [n for n in ast.walk(seq) if isinstance(n, ast.Call) and dotted(n.func) == "picture_decode"]
    after_pic = after_frag = 0
    for c in calls:
        stmt = c
        while not isinstance(stmt, ast.stmt):
            stmt = stmt._parent
        blk_owner = stmt._parent
        for field in ("body", "orelse"):
            blk = getattr(blk_owner, field, None)
            if isinstance(blk, list) and stmt in blk:
                i = blk.index(stmt)
                prev = blk[i - 1] if i > 0 else None
                if prev is not None and isinstance(prev, ast.Expr) and isinstance(prev.value, ast.Call) and dotted(prev.value.func) == "picture_parse":
                    after_pic += 1
                if isinstance(blk_owner, ast.If) and subscript_key(blk_owner.test, "state") == "fragmented_picture_done" and field == "body":
                    # the if must directly follow fragment_parse
                    p2 = blk_owner._parent
                    for f2 in ("body", "orelse"):
                        b2 = getattr(p2, f2, None)
                        if isinstance(b2, list) and blk_owner in b2:
                            j = b2.index(blk_owner)
                            if j > 0 and isinstance(b2[j - 1], ast.Expr) and isinstance(b2[j - 1].value, ast.Call) and dotted(b2[j - 1].value.func) == "fragment_parse":
                                after_frag += 1
    res.check(len(calls) == 2 and after_pic == 1 and after_frag == 1, "C09.d", "parse_sequence:decode-sites", w2, "picture_decode must be called exactly twice: right after picture_parse, and under `if state['fragmented_picture_done']` right after fragment_parse (found %d calls, %d after picture_parse, %d after fragment_parse)" % (len(calls), after_pic, after_frag), by="one per picture data unit, one per completed fragmented picture")
    fm, fd = repo.func("decoder.fragment_syntax:fragment_data")
    ok = False
    for n in ast.walk(fd):
        if isinstance(n, ast.If) and isinstance(n.test, ast.Compare) and isinstance(n.test.ops[0], ast.Eq) and subscript_key(n.test.left, "state") == "fragment_slices_received":
            r = n.test.comparators[0]
            prod = isinstance(r, ast.BinOp) and isinstance(r.op, ast.Mult) and {subscript_key(r.left, "state"), subscript_key(r.right, "state")} == {"slices_x", "slices_y"}
            sets = any(isinstance(b, ast.Assign) and subscript_key(b.targets[0], "state") == "fragmented_picture_done" and isinstance(b.value, ast.Constant) and b.value.value is True for b in n.body)
            ok = prod and sets
    others = [n for n in ast.walk(fd) if isinstance(n, ast.Assign) and subscript_key(n.targets[0], "state") == "fragmented_picture_done"]
    res.check(ok and len(others) == 1, "C09.d", "fragment_data:done-flag", "%s:fragment_data" % fm.rel, "fragmented_picture_done must become True exactly when fragment_slices_received == slices_x * slices_y", by="set under the completion test only")
    im, ifs = repo.func("decoder.fragment_syntax:initialize_fragment_state")
    ok = any(isinstance(n, ast.Assign) and subscript_key(n.targets[0], "state") == "fragmented_picture_done" and isinstance(n.value, ast.Constant) and n.value.value is False for n in ifs.body)
    res.check(ok, "C09.d", "initialize_fragment_state:done-flag-cleared", "%s:initialize_fragment_state" % im.rel, "a new fragmented picture must clear fragmented_picture_done (else the next slice-bearing fragment outputs a second picture)", by="cleared for each new fragmented picture")
    res.floor("C09.a", 1)
    res.floor("C09.b", 3)
    res.floor("C09.c", 2)
    res.floor("C09.d", 3)
    res.assumptions = ["dimensions and sample ranges of the output follow from spec-pinned arithmetic (clip_picture, idwt_pad_removal) and are not decided here"]
    res.trusted = ["spec-pinned lines equal the standard"]
    return res
