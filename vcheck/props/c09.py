"""C09 Every decoded picture is well-formed (thin structural part).

Everything but the output callback is spec-pinned pseudocode.  Decided: the
picture handed to the callback has passed the inverse transform, clipping and
offsetting, in that order, on every path; the callback is invoked exactly once
per picture_decode with (picture, video parameters, coding mode); the picture
number is the one read from the stream; picture_decode runs exactly once per
picture data unit and once per completed fragmented picture.
"""
import ast

from ..core import AnalysisError, const_str, dotted, norm, short, subscript_key
from ..report import Result
from ..mustflow import MustFlow

CB = "_output_picture_callback"


def check(repo, tier="quick"):
    res = Result("C09")
    res.explanation = (
        "Must/may event flow over picture_decode (order of inverse transform, clip, offset before the output callback; single "
        "invocation; argument wiring; picture number provenance) and over parse_sequence (where picture_decode is called)."
    )
    res.rule("C09.a", "on every path that invokes the output callback: inverse_wavelet_transform, then clip_picture, then offset_picture have run, in that order, on state['current_picture']")
    res.rule("C09.b", "the callback is invoked at most once, with (current_picture, video_parameters, picture_coding_mode), only when present")
    res.rule("C09.c", "current_picture['pic_num'] is stored from state['picture_number'] and not overwritten")
    res.rule("C09.e", "component dimensions: subband_width/subband_height (not pinned to a listing) describe a dyadic pyramid: the padding unit equals the level-0 divisor, level 1 has the DC band's size, each further level halves the divisor in the directions its transform acts in, and the horizontal-only / 2D split is at dwt_depth_ho")
    res.rule("C09.g", "padding removal: delete_rows_after(a, k) deletes a[k:] and delete_columns_after(a, k) deletes row[k:] of every row, unconditionally or behind a guard on the matching dimension only (height / len(a) for rows, width / len(a[0]) for columns)")
    res.rule("C09.h", "the pinned pseudocode is nothing but the pseudocode: functions of vc2_conformance.pseudocode.* that are pinned to the standard contain no not-in-spec statement at all, except the reviewed invocation of the output callback at the end of picture_decode -- a shortcut added inside a `## Begin not in spec` region of clip, idwt, offset, ... escapes the repository's equivalence test and changes decoded sizes or values for the inputs it short-cuts")
    res.rule("C09.i", "bug patterns with zero expected instances in the decoder's reach (truthiness of optional values such as the end-of-stream sentinel, swapped same-named arguments, last-iteration leaks, ...): a stream position that reads as 'end of stream' because the byte there is 0 silently drops every later picture")
    res.rule("C09.f", "sample ranges: every function in the decoder's reach computes with exact integers (no true division, math.*, float(), round() or float constants), so bit depths and clipping bounds are exact at any signal range")
    res.rule("C09.d", "parse_sequence calls picture_decode exactly after picture_parse and under fragmented_picture_done after fragment_parse; fragmented_picture_done is set exactly when the received slice count reaches slices_x * slices_y")

    m, fn = repo.func("pseudocode.picture_decoding:picture_decode")
    where = "%s:picture_decode" % m.rel
    problems = []
    invoked = [0]
    args_ok = [False]

    def on(node, st):
        if isinstance(node, ast.Call):
            d = dotted(node.func)
            if d == "inverse_wavelet_transform":
                return st.add("iwt")
            if d == "clip_picture":
                if "iwt" not in st.must:
                    problems.append("clip_picture before the inverse transform")
                if "offset" in st.may:
                    problems.append("clip_picture after offset_picture")
                if len(node.args) < 2 or subscript_key(node.args[1], "state") != "current_picture":
                    problems.append("clip_picture not applied to state['current_picture']")
                return st.add("clip")
            if d == "offset_picture":
                if "clip" not in st.must:
                    problems.append("offset_picture without a preceding clip_picture on every path")
                if len(node.args) < 2 or subscript_key(node.args[1], "state") != "current_picture":
                    problems.append("offset_picture not applied to state['current_picture']")
                return st.add("offset")
            if isinstance(node.func, ast.Subscript) and subscript_key(node.func, "state") == CB:
                invoked[0] += 1
                if not {"iwt", "clip", "offset"} <= st.must:
                    problems.append("callback invoked before %s" % sorted({"iwt", "clip", "offset"} - st.must))
                if "called" in st.may:
                    problems.append("callback may be invoked twice")
                a = [subscript_key(x, "state") for x in node.args]
                args_ok[0] = a == ["current_picture", "video_parameters", "picture_coding_mode"] and not node.keywords
                return st.add("called")
        return st

    MustFlow(fn, on).run()
    res.check(not [p for p in problems if "twice" not in p] and invoked[0] >= 1, "C09.a", "picture_decode:order-before-output", where, "; ".join(sorted(set(problems))) or "callback invocation not found", by="inverse transform, clip, offset dominate the callback in that order")
    res.check(not [p for p in problems if "twice" in p] and invoked[0] >= 1, "C09.b", "picture_decode:single-invocation", where, "the callback may be invoked more than once per decoded picture", by="one invocation site, not in a loop")
    res.check(args_ok[0], "C09.b", "picture_decode:callback-arguments", where, "the callback must receive (state['current_picture'], state['video_parameters'], state['picture_coding_mode'])", by="(current_picture, video_parameters, picture_coding_mode)")
    guarded = False
    for n in ast.walk(fn):
        if isinstance(n, ast.If) and isinstance(n.test, ast.Compare) and isinstance(n.test.ops[0], ast.In) and const_str(n.test.left) == CB and dotted(n.test.comparators[0]) == "state":
            guarded = any(isinstance(c, ast.Call) and isinstance(c.func, ast.Subscript) and subscript_key(c.func, "state") == CB for c in ast.walk(n))
    res.check(guarded, "C09.b", "picture_decode:callback-optional", where, "the callback must be invoked under `if '%s' in state`" % CB, by="guarded by presence")
    # pic_num
    stores = [n for n in ast.walk(fn) if isinstance(n, ast.Assign) and isinstance(n.targets[0], ast.Subscript) and const_str(n.targets[0].slice) == "pic_num"]
    ok = len(stores) == 1 and subscript_key(stores[0].targets[0].value, "state") == "current_picture" and subscript_key(stores[0].value, "state") == "picture_number"
    res.check(ok, "C09.c", "picture_decode:pic_num", where, "state['current_picture']['pic_num'] must be stored exactly once, from state['picture_number']", by="pic_num = state['picture_number']")
    # the picture dict is created fresh for every picture
    fresh = any(isinstance(n, ast.Assign) and subscript_key(n.targets[0], "state") == "current_picture" and isinstance(n.value, ast.Dict) and not n.value.keys for n in fn.body)
    res.check(fresh, "C09.c", "picture_decode:fresh-picture", where, "state['current_picture'] must be a fresh dictionary for every decoded picture", by="state['current_picture'] = {}")
    # parse_sequence
    sm, seq = repo.func("decoder.stream:parse_sequence")
    w2 = "%s:parse_sequence" % sm.rel
    calls = [n for n in ast.walk(seq) if isinstance(n, ast.Call) and dotted(n.func) == "picture_decode"]
    after_pic = after_frag = 0
    for c in calls:
        stmt = c
        while not isinstance(stmt, ast.stmt):
            stmt = stmt._parent
        blk_owner = stmt._parent
        for field in ("body", "orelse"):
            blk = getattr(blk_owner, field, None)
            if isinstance(blk, list) and stmt in blk:
                i = blk.index(stmt)
                prev = blk[i - 1] if i > 0 else None
                if prev is not None and isinstance(prev, ast.Expr) and isinstance(prev.value, ast.Call) and dotted(prev.value.func) == "picture_parse":
                    after_pic += 1
                if isinstance(blk_owner, ast.If) and subscript_key(blk_owner.test, "state") == "fragmented_picture_done" and field == "body":
                    # the if must directly follow fragment_parse
                    p2 = blk_owner._parent
                    for f2 in ("body", "orelse"):
                        b2 = getattr(p2, f2, None)
                        if isinstance(b2, list) and blk_owner in b2:
                            j = b2.index(blk_owner)
                            if j > 0 and isinstance(b2[j - 1], ast.Expr) and isinstance(b2[j - 1].value, ast.Call) and dotted(b2[j - 1].value.func) == "fragment_parse":
                                after_frag += 1
    res.check(len(calls) == 2 and after_pic == 1 and after_frag == 1, "C09.d", "parse_sequence:decode-sites", w2, "picture_decode must be called exactly twice: right after picture_parse, and under `if state['fragmented_picture_done']` right after fragment_parse (found %d calls, %d after picture_parse, %d after fragment_parse)" % (len(calls), after_pic, after_frag), by="one per picture data unit, one per completed fragmented picture")
    fm, fd = repo.func("decoder.fragment_syntax:fragment_data")
    ok = False
    for n in ast.walk(fd):
        if isinstance(n, ast.If) and isinstance(n.test, ast.Compare) and isinstance(n.test.ops[0], ast.Eq) and subscript_key(n.test.left, "state") == "fragment_slices_received":
            r = n.test.comparators[0]
            prod = isinstance(r, ast.BinOp) and isinstance(r.op, ast.Mult) and {subscript_key(r.left, "state"), subscript_key(r.right, "state")} == {"slices_x", "slices_y"}
            sets = any(isinstance(b, ast.Assign) and subscript_key(b.targets[0], "state") == "fragmented_picture_done" and isinstance(b.value, ast.Constant) and b.value.value is True for b in n.body)
            ok = prod and sets
    others = [n for n in ast.walk(fd) if isinstance(n, ast.Assign) and subscript_key(n.targets[0], "state") == "fragmented_picture_done"]
    res.check(ok and len(others) == 1, "C09.d", "fragment_data:done-flag", "%s:fragment_data" % fm.rel, "fragmented_picture_done must become True exactly when fragment_slices_received == slices_x * slices_y", by="set under the completion test only")
    im, ifs = repo.func("decoder.fragment_syntax:initialize_fragment_state")
    ok = any(isinstance(n, ast.Assign) and subscript_key(n.targets[0], "state") == "fragmented_picture_done" and isinstance(n.value, ast.Constant) and n.value.value is False for n in ifs.body)
    res.check(ok, "C09.d", "initialize_fragment_state:done-flag-cleared", "%s:initialize_fragment_state" % im.rel, "a new fragmented picture must clear fragmented_picture_done (else the next slice-bearing fragment outputs a second picture)", by="cleared for each new fragmented picture")
    rule_e(repo, res)
    rule_f(repo, res)
    rule_g(repo, res)
    res.floor("C09.g", 2)
    rule_h(repo, res, "C09.h")
    res.floor("C09.h", 30)
    from .. import lints as _lints

    _lints.rule(repo, res, "C09.i", ["decoder.io", "decoder.stream", "decoder.picture_syntax", "decoder.fragment_syntax", "decoder.transform_data_syntax", "pseudocode.picture_decoding", "pseudocode.arrays", "pseudocode.offsetting"])
    res.floor("C09.i", 8)
    res.floor("C09.e", 10)
    res.floor("C09.f", 50)
    res.floor("C09.a", 1)
    res.floor("C09.b", 3)
    res.floor("C09.c", 2)
    res.floor("C09.d", 3)
    res.assumptions = ["values of decoded samples are arithmetic on runtime data and are not decided; decided are the shape of the dimension formulas (C09.e) and the exactness of the arithmetic (C09.f)"]
    res.trusted = ["spec-pinned lines equal the standard"]
    return res


def _shift_exp(e):
    """e == (1 << X) or X-free power of two: returns X (ast) or None"""
    if isinstance(e, ast.BinOp) and isinstance(e.op, ast.LShift) and isinstance(e.left, ast.Constant) and e.left.value == 1:
        return e.right
    return None


def _lin(e, subst=None):
    """linear form over state keys / names: {term: coeff}; None if not linear"""
    subst = subst or {}
    out = {}

    def add(x, c):
        if isinstance(x, ast.BinOp) and isinstance(x.op, ast.Add):
            return add(x.left, c) and add(x.right, c)
        if isinstance(x, ast.BinOp) and isinstance(x.op, ast.Sub):
            return add(x.left, c) and add(x.right, -c)
        if isinstance(x, ast.Constant) and isinstance(x.value, int):
            out[""] = out.get("", 0) + c * x.value
            return True
        k = subscript_key(x, "state") or (x.id if isinstance(x, ast.Name) else None)
        if k is None:
            return False
        if k in subst:
            out[""] = out.get("", 0) + c * subst[k] if isinstance(subst[k], int) else out.get("", 0)
            if not isinstance(subst[k], int):
                for kk, vv in subst[k].items():
                    out[kk] = out.get(kk, 0) + c * vv
            return True
        out[k] = out.get(k, 0) + c
        return True

    if not add(e, 1):
        return None
    return {k: v for k, v in out.items() if v != 0}


def rule_e(repo, res):
    m = repo.mod("pseudocode.slice_sizes")
    HO, D = "dwt_depth_ho", "dwt_depth"
    spec = {
        # function: (exponent at level 0, exponent for 1 <= level <= ho, exponent for level > ho) as linear forms in ho, d, level
        "subband_width": ({HO: 1, D: 1}, {HO: 1, D: 1, "level": -1, "": 1}, {HO: 1, D: 1, "level": -1, "": 1}),
        "subband_height": ({D: 1}, {D: 1}, {HO: 1, D: 1, "level": -1, "": 1}),
    }
    for fname, (e0, e_ho, e_2d) in spec.items():
        fn = m.funcs.get(fname)
        if fn is None:
            raise AnalysisError("anchor vanished: slice_sizes.%s" % fname)
        where = "%s:%s" % (m.rel, fname)
        lvl = fn.args.args[1].arg
        # padding unit
        scale = padded = None
        for a in fn.body:
            if isinstance(a, ast.Assign) and isinstance(a.targets[0], ast.Name) and _shift_exp(a.value) is not None:
                scale = (a.targets[0].id, _lin(_shift_exp(a.value)))
            if isinstance(a, ast.Assign) and isinstance(a.targets[0], ast.Name) and scale and isinstance(a.value, ast.BinOp) and isinstance(a.value.op, ast.Mult) and dotted(a.value.left) == scale[0]:
                r = a.value.right
                # scale * ((x + scale - 1) // scale)
                ok_round = isinstance(r, ast.BinOp) and isinstance(r.op, ast.FloorDiv) and dotted(r.right) == scale[0] and isinstance(r.left, ast.BinOp) and norm(r.left).replace(" ", "").endswith("+%s-1" % scale[0])
                padded = (a.targets[0].id, ok_round)
        res.check(scale is not None and padded is not None and padded[1], "C09.e", "%s:padded-to-multiple-of-scale" % fname, where, "the padded size must be scale * ((size + scale - 1) // scale) with scale = 1 << (...)", by="rounded up to a multiple of the scale")
        # branches on level: collect (kind, exponent)
        exps = {}
        node = None
        for a in fn.body:
            if isinstance(a, ast.If) and isinstance(a.test, ast.Compare) and dotted(a.test.left) == lvl:
                node = a
        chain = []
        while isinstance(node, ast.If):
            chain.append(node)
            node = node.orelse[0] if len(node.orelse) == 1 and isinstance(node.orelse[0], ast.If) else None
        for br in chain:
            t = br.test
            op = t.ops[0]
            cmp_ = t.comparators[0]
            kind = None
            if isinstance(op, ast.Eq) and isinstance(cmp_, ast.Constant) and cmp_.value == 0:
                kind = "zero"
            elif isinstance(op, ast.LtE) and subscript_key(cmp_, "state") == HO:
                kind = "ho"
            elif isinstance(op, ast.Gt) and subscript_key(cmp_, "state") == HO:
                kind = "2d"
            ret = [r for r in br.body if isinstance(r, ast.Return)]
            if kind and len(ret) == 1 and isinstance(ret[0].value, ast.BinOp) and isinstance(ret[0].value.op, ast.FloorDiv) and padded and dotted(ret[0].value.left) == padded[0]:
                ex = _shift_exp(ret[0].value.right)
                exps[kind] = _lin(ex) if ex is not None else None
        res.check(set(exps) == {"zero", "ho", "2d"} and None not in exps.values(), "C09.e", "%s:three-level-ranges" % fname, where, "the divisor must be given as padded // (1 << e) for level == 0, level <= dwt_depth_ho and level > dwt_depth_ho (found %s)" % sorted(exps), by="level 0 / horizontal-only levels / 2D levels")
        if set(exps) != {"zero", "ho", "2d"} or None in exps.values():
            continue
        # a function of the current parameters only: reads nothing of the state but the sizes and depths, and has no
        # exit other than the three level ranges (no memo, no shortcut)
        st = fn.args.args[0].arg
        reads = set()
        opaque = []
        for n in ast.walk(fn):
            if isinstance(n, ast.Subscript) and dotted(n.value) == st:
                reads.add(const_str(n.slice) or "?")
            elif isinstance(n, ast.Attribute) and dotted(n.value) == st:
                opaque.append("%s.%s" % (st, n.attr))
            elif isinstance(n, ast.Compare) and any(isinstance(o, (ast.In, ast.NotIn)) for o in n.ops) and any(dotted(c) == st for c in n.comparators):
                opaque.append("membership test on %s" % st)
            elif isinstance(n, ast.Call) and any(isinstance(a, ast.Name) and a.id == st for a in n.args) and dotted(n.func) not in ("subband_width", "subband_height"):
                opaque.append("%s passed to %s" % (st, dotted(n.func) or "a call"))
        allowed = {"luma_width", "color_diff_width", HO, D} if fname == "subband_width" else {"luma_height", "color_diff_height", HO, D}
        res.check(reads <= allowed and not opaque, "C09.e", "%s:reads-only-sizes-and-depths" % fname, where, "%s must be a function of the current picture size and transform depths only; it also reads %s: a value remembered from an earlier picture would give a later picture (other depths) the earlier one's dimensions" % (fname, sorted(reads - allowed) + opaque), by="reads %s" % sorted(reads))
        n_ret = sum(1 for n in ast.walk(fn) if isinstance(n, ast.Return))
        res.check(n_ret == 3, "C09.e", "%s:no-other-exit" % fname, where, "%s has %d return statements; only the three level ranges may return" % (fname, n_ret), by="3 returns, one per level range")
        rename = lambda d: {("level" if k == lvl else k): v for k, v in d.items()}
        got0, got_ho, got_2d = rename(exps["zero"]), rename(exps["ho"]), rename(exps["2d"])
        res.check(scale[1] is not None and rename(scale[1]) == got0, "C09.e", "%s:scale-equals-level-0-divisor" % fname, where, "the padding unit is 1 << (%s) but the level-0 band divides by 1 << (%s): the padded size is then not a multiple of the divisor and the decoded component comes out with the wrong size" % (scale[1], got0), by="padding unit = level-0 divisor")
        res.check(got0 == e0 and got_ho == e_ho and got_2d == e_2d, "C09.e", "%s:dyadic-exponents" % fname, where, "shift exponents are level 0: %s, horizontal-only: %s, 2D: %s; a dyadic pyramid over dwt_depth_ho horizontal-only and dwt_depth 2D levels needs %s / %s / %s" % (got0, got_ho, got_2d, e0, e_ho, e_2d), by="level 0: %s; 1..ho: %s; >ho: %s" % (e0, e_ho, e_2d))


FLOAT_CALLS = {"float", "round", "math.log", "math.log2", "math.log10", "math.ceil", "math.floor", "math.sqrt", "math.pow", "math.exp", "pow", "divmod"}


def float_ops(fn):
    out = []
    for n in ast.walk(fn):
        if isinstance(n, ast.BinOp) and isinstance(n.op, ast.Div):
            out.append((n, "true division"))
        if isinstance(n, ast.AugAssign) and isinstance(n.op, ast.Div):
            out.append((n, "true division"))
        if isinstance(n, ast.Call) and ((dotted(n.func) or "") in FLOAT_CALLS and dotted(n.func) not in ("pow", "divmod") or (dotted(n.func) or "").startswith("math.") or (dotted(n.func) or "").startswith("np.") or (dotted(n.func) or "").startswith("numpy.")):
            out.append((n, "call of %s" % dotted(n.func)))
        if isinstance(n, ast.Constant) and isinstance(n.value, float):
            out.append((n, "float constant %r" % n.value))
        if isinstance(n, ast.BinOp) and isinstance(n.op, ast.Pow) and not (isinstance(n.left, ast.Constant) and isinstance(n.left.value, int)):
            out.append((n, "power with a non-constant base (negative exponents give floats)"))
    return out


def rule_f(repo, res):
    from .. import analyses

    # positive fixture (expected count on the repository is zero)
    fx = ast.parse("def f(n):\n    import math\n    a = n / 2\n    b = int(math.ceil(math.log(n, 2)))\n    return a + b + 0.5 + float(n)\n").body[0]
    if len(float_ops(fx)) < 5:
        raise AnalysisError("float-operation scan no longer recognises its positive fixture")
    res.ok("C09.f", "float-ops:fixture", "vcheck/props/c09.py", by="scan finds the 5 float operations of its positive fixture")
    reach = analyses.validator_reach(repo)
    for q in sorted(reach):
        modn, fname = q.split(":")
        m = repo.modules.get(modn)
        if m is None or modn.endswith("decoder.exceptions"):
            continue  # reporting text, not decoded values
        fn = None
        if "." in fname:
            cn, mn = fname.split(".", 1)
            cls = m.classes.get(cn)
            for f in (cls.body if cls is not None else []):
                if isinstance(f, ast.FunctionDef) and f.name == mn:
                    fn = f
        else:
            fn = m.funcs.get(fname)
        if fn is None:
            continue
        ops = float_ops(fn)
        res.check(not ops, "C09.f", "integer-only:%s" % fname, "%s:%s" % (m.rel, fname), "%s computes with floating point (%s): bit depths, clipping bounds or dimensions derived from it are inexact for large values" % (fname, "; ".join("%s at line %d" % (w, n.lineno) for n, w in ops[:3])), by="exact integer arithmetic only")


def rule_g(repo, res):
    from ..core import pmatch

    m = repo.mod("pseudocode.arrays")
    spec = {
        "delete_rows_after": ("del %(a)s[%(k)s:]", ("height(%(a)s) <= %(k)s", "len(%(a)s) <= %(k)s", "%(k)s >= height(%(a)s)", "%(k)s >= len(%(a)s)", "height(%(a)s) == %(k)s", "len(%(a)s) == %(k)s", "%(k)s == height(%(a)s)", "%(k)s == len(%(a)s)")),
        "delete_columns_after": ("for X_row in %(a)s:\n    del X_row[%(k)s:]", ("width(%(a)s) <= %(k)s", "len(%(a)s[0]) <= %(k)s", "%(k)s >= width(%(a)s)", "%(k)s >= len(%(a)s[0])", "width(%(a)s) == %(k)s", "len(%(a)s[0]) == %(k)s", "%(k)s == width(%(a)s)", "%(k)s == len(%(a)s[0])")),
    }
    for fname, (core_pat, guards) in spec.items():
        fn = m.funcs.get(fname)
        if fn is None:
            raise AnalysisError("anchor vanished: pseudocode.arrays.%s" % fname)
        a, k = [x.arg for x in fn.args.args[:2]]
        env = {"a": a, "k": k}
        body = [s for s in fn.body if not (isinstance(s, ast.Expr) and isinstance(s.value, ast.Constant))]
        ok = bool(body) and pmatch(core_pat % env, body[-1]) is not None
        for s in body[:-1]:
            g = isinstance(s, ast.If) and not s.orelse and len(s.body) == 1 and isinstance(s.body[0], ast.Return) and s.body[0].value is None and norm(s.test) in [norm(ast.parse(x % env).body[0].value) for x in guards]
            ok = ok and g
        res.check(ok, "C09.g", "%s:deletes-from-k" % fname, "%s:%s" % (m.rel, fname), "%s must end with `%s`, preceded at most by an early return when the *matching* dimension is already <= %s (found: %s)" % (fname, (core_pat % env).replace("\n    ", " "), k, "; ".join(short(x, 50) for x in body)), by="deletes from index %s on, no guard on the other dimension" % k)


PSEUDOCODE_FREE_SANCTIONED = {
    ("picture_decode", "if '_output_picture_callback' in state: state['_output_picture_callback'](state['current_picture'], state['video_parameters'], state['picture_coding_mode'])"): "hands the finished picture to the caller; reads only, after all decoding steps (order decided by C09.a)",
}


def rule_h(repo, res, rid):
    n = 0
    for name, m in sorted(repo.modules.items()):
        if not name.startswith("vc2_conformance.pseudocode."):
            continue
        for fname, fn in sorted(m.funcs.items()):
            if not repo.is_pinned_function(fn):
                continue
            n += 1
            free = []
            for b in ast.walk(fn):
                if isinstance(b, ast.stmt) and b is not fn and b.lineno in m.free_lines:
                    # outermost free statements only
                    p = getattr(b, "_parent", None)
                    if isinstance(p, ast.stmt) and p is not fn and p.lineno in m.free_lines:
                        continue
                    free.append(b)
            bad = [short(b, 70) for b in free if (fname, norm(b)) not in PSEUDOCODE_FREE_SANCTIONED]
            res.check(not bad, rid, "pinned-pseudocode-only:%s.%s" % (name.split(".")[-1], fname), "%s:%s" % (m.rel, fname), "%s is pinned to the standard's pseudocode but contains statement(s) outside it (%s): they are invisible to the repository's equivalence test and each must be reviewed before it can be trusted not to change the decoded result" % (fname, "; ".join(bad[:3])), by="no not-in-spec statement" if not free else "reviewed: output callback only")
    if n < 30:
        raise AnalysisError("only %d pinned pseudocode functions found" % n)
