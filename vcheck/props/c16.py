"""C16 Encoder respects any level table it claims to satisfy (structural part).

If the encoder emits a stream without raising, the validator must accept it
under the same level table.  Necessary: every level key the validator enforces
is consulted by the encoder when it chooses the corresponding value; every
option dictionary the encoder emits is dominated by membership tests of its
constrained values; the table is filtered by the known values before columns
are tried.
"""
import ast
from collections import OrderedDict

from ..core import AnalysisError, const_str, dotted, norm, short, subscript_key
from ..report import Result
from .. import enc_tables


def check(repo, tier="quick"):
    res = Result("C16")
    res.explanation = (
        "Key-coverage comparison between the level keys enforced by the validator (all assert_level_constraint / allowed_values_for "
        "sites = rows of level_constraints.csv) and the keys the encoder consults when choosing values; dominance of membership "
        "tests over every yielded option dictionary; order of table filtering in iter_sequence_headers."
    )
    res.rule("C16.f", "bug patterns with zero expected instances in this property's modules: swapped same-named arguments, lower-bound guard followed by a decrement of the guarded value, presence of a dictionary entry decided by truthiness")
    res.rule("C16.a", "every level key the validator enforces is consulted somewhere in the encoder's constraint handling")
    res.rule("C16.b", "every option dictionary yielded by the header generators is dominated by membership tests of each constrained value it carries")
    res.rule("C16.e", "history independence: the functions through which the encoder decides level-constrained values keep no state between calls (no memo tables, caches or mutated module-level containers), so the decision for one configuration cannot be affected by an earlier one")
    res.rule("C16.c", "iter_sequence_headers filters the level table with the known values plus the candidate base format before iterating columns; the flags of extended transform parameters are decided against the table")
    res.rule("C16.g", "known values are constrained for every configuration that emits them: each store into the known-values dictionary of codec_features_to_trivial_level_constraints is unconditional or guarded by tests of codec_features['profile'] only (the encoder emits slice_bytes for every low-delay and slice_prefix_bytes for every high-quality configuration, lossless or not)")
    res.rule("C16.h", "the level's data-unit ordering pattern is applied to everything emitted (C03.a re-evaluated): make_sequence hands the names of all picture data units (every fragment) to the ordering search together with the level's own pattern, and assembles exactly one data unit per symbol of the result")
    res.rule("C16.d", "the validator's keys are exactly the rows of level_constraints.csv")

    dk = enc_tables.decoder_level_keys(repo)
    kdec = OrderedDict()
    for fn, lst in dk.items():
        for k, v, n in lst:
            kdec.setdefault(k, fn)
    csv_keys = enc_tables.level_csv_keys(repo)
    where_csv = "vc2_conformance/level_constraints.csv"
    res.check(set(kdec) == set(csv_keys), "C16.d", "validator-keys=csv-rows", where_csv, "validator-only keys %s; csv-only rows %s" % (sorted(set(kdec) - set(csv_keys)), sorted(set(csv_keys) - set(kdec))), by="%d keys = %d rows" % (len(kdec), len(csv_keys)))
    res.info["validator_level_keys"] = len(kdec)
    kenc = encoder_keys(repo)
    res.info["encoder_level_keys"] = len(kenc)
    for k, fn in kdec.items():
        res.check(k in kenc, "C16.a", "key=%s" % k, "vc2_conformance/encoder", "the validator enforces the level key %r (in %s) but the encoder never consults it: with a level table that restricts %r the encoder can emit a stream the validator rejects" % (k, fn, k), by=kenc.get(k, ""))
    rule_b(repo, res)
    rule_c(repo, res)
    rule_g(repo, res)
    rule_known_equals_emitted(repo, res)
    res.floor("C16.g", 8)
    # the ordering pattern of the level is applied to every data unit the encoder emits (C03.a re-evaluated)
    from . import c03 as _c03
    from ..report import Ob as _Ob, Result as _Res

    _sub = _Res("C03")
    _c03.rule_a(repo, _sub)
    for _o in _sub.obs:
        res._add(_Ob("C16.h", "%s/%s" % (_o.rule, _o.key), _o.where, _o.status, _o.detail, _o.by, _o.path))
    res.floor("C16.h", 4)
    from .. import lints as _lints

    _lints.rule(repo, res, "C16.f", ['encoder.sequence_header', 'encoder.pictures', 'codec_features', 'level_constraints', 'constraint_table'])
    res.floor("C16.f", 6)
    res.floor("C16.a", 50)
    res.floor("C16.b", 5)
    from .. import globals_state

    globals_state.rule(repo, res, "C16.e", ["codec_features", "level_constraints", "constraint_table", "encoder.sequence_header", "encoder.pictures", "encoder.sequence", "encoder.level_constraints" if "vc2_conformance.encoder.level_constraints" in repo.modules else "encoder.exceptions", "pseudocode.slice_sizes", "pseudocode.video_parameters"], what="the level-constrained values the encoder computes for a configuration")
    res.floor("C16.e", 8)
    res.floor("C16.c", 3)
    res.floor("C16.d", 1)
    res.assumptions = ["values the encoder derives arithmetically (slice sizes, quantisation indices) are not tracked beyond key coverage"]
    res.trusted = ["level_constraints.csv row names"]
    return res


def encoder_keys(repo):
    """level key -> where the encoder consults it."""
    out = OrderedDict()
    # 1. codec_features_to_trivial_level_constraints' result keys
    m, fn = repo.func("codec_features:codec_features_to_trivial_level_constraints")
    for n in ast.walk(fn):
        if isinstance(n, ast.Assign):
            for t in n.targets:
                k = subscript_key(t, "constrained_values")
                if k:
                    out.setdefault(k, "codec_features_to_trivial_level_constraints")
        if isinstance(n, ast.For) and isinstance(n.iter, (ast.List, ast.Tuple)) and all(const_str(e) for e in n.iter.elts):
            if any(isinstance(x, ast.Assign) and isinstance(x.targets[0], ast.Subscript) and dotted(x.targets[0].value) == "constrained_values" and dotted(x.targets[0].slice) == dotted(n.target) for x in n.body):
                for e in n.iter.elts:
                    out.setdefault(const_str(e), "codec_features_to_trivial_level_constraints")
    # 2. option tables
    for name, t in enc_tables.option_tables(repo).items():
        out.setdefault(t.flag_key, name)
        if t.index_key:
            out.setdefault(t.index_key, name)
        for vp, dt in t.parameters:
            out.setdefault(vp, name)
    # 3. literal subscripts of a level_constraints_dict and allowed_values_for(LEVEL_CONSTRAINTS, "k", ...) in the encoder package
    for mod in repo.modules.values():
        if not mod.name.startswith("vc2_conformance.encoder"):
            continue
        for n in ast.walk(mod.tree):
            k = subscript_key(n, "level_constraints_dict") if isinstance(n, ast.Subscript) else None
            if k:
                out.setdefault(k, mod.rel)
            if isinstance(n, ast.Call) and dotted(n.func) == "allowed_values_for" and len(n.args) >= 2 and dotted(n.args[0]) == "LEVEL_CONSTRAINTS":
                k = const_str(n.args[1])
                if k:
                    out.setdefault(k, mod.rel)
                elif isinstance(n.args[1], ast.Name):
                    # flag name parameter: literal arguments at the call sites of the enclosing function
                    f = mod.enclosing_function(n)
                    if f is not None:
                        params = [a.arg for a in f.args.args]
                        if n.args[1].id in params:
                            idx = params.index(n.args[1].id)
                            for c in ast.walk(mod.tree):
                                if isinstance(c, ast.Call) and dotted(c.func) == f.name and len(c.args) > idx and const_str(c.args[idx]):
                                    out.setdefault(const_str(c.args[idx]), "%s:%s" % (mod.rel, f.name))
            if isinstance(n, ast.Call) and dotted(n.func) == "dict" and any(k.arg for k in n.keywords) and n.args and dotted(n.args[0]) == "constrained_values":
                for kw in n.keywords:
                    out.setdefault(kw.arg, mod.rel)
    return out


def rule_b(repo, res):
    m, fn = repo.func(enc_tables.SH + ":iter_custom_options_dicts")
    where = "%s:iter_custom_options_dicts" % m.rel

    def guards(node, top):
        out = []
        c = node
        p = getattr(node, "_parent", None)
        while p is not None and p is not top:
            if isinstance(p, ast.If) and any(c is x for x in p.body):
                out.append(p.test)
            c = p
            p = getattr(p, "_parent", None)
        return out

    def members(tests):
        """set of (value text, key text) for `value in level_constraints_dict[key]` conjuncts"""
        out = set()
        for t in tests:
            for c in ast.walk(t):
                if isinstance(c, ast.Compare) and len(c.ops) == 1 and isinstance(c.ops[0], ast.In) and isinstance(c.comparators[0], ast.Subscript) and dotted(c.comparators[0].value) == "level_constraints_dict":
                    out.add((norm(c.left), norm(c.comparators[0].slice)))
        return out

    n_y = 0
    for y in [n for n in ast.walk(fn) if isinstance(n, ast.Yield)]:
        n_y += 1
        mem = members(guards(y, fn))
        v = y.value
        need = set()
        label = short(v, 50)
        if isinstance(v, ast.Call) and isinstance(v.args[0], ast.Dict):
            for k, val in zip(v.args[0].keys, v.args[0].values):
                if norm(k) == "flag_key":
                    need.add((norm(val), "flag_key"))
                elif const_str(k) == "index":
                    need.add((norm(val), "preset_index_constraint_key"))
        elif isinstance(v, ast.Name):
            # the explicit encoding: flag True, index 0 (if presets), each parameter
            need.add(("True", "flag_key"))
            need.add(("video_parameters[vp_key]", "vp_key"))
            label = "explicit custom values"
            # index 0 only matters when presets exist: accepted form `presets is None or 0 in ...`
            if ("0", "preset_index_constraint_key") not in mem:
                need.add(("0", "preset_index_constraint_key"))
        missing = need - mem
        res.check(not missing, "C16.b", "iter_custom_options_dicts:yield:%s" % label, where, "the yielded dictionary carries values whose level membership is not tested first: %s" % sorted(missing), by="dominated by %s" % sorted(mem))
    # colour spec generator
    cm, cfn = repo.func(enc_tables.SH + ":iter_color_spec_options")
    wherec = "%s:iter_color_spec_options" % cm.rel
    for y in [n for n in ast.walk(cfn) if isinstance(n, ast.Yield)]:
        n_y += 1
        mem = set()
        for t in guards(y, cfn):
            for c in ast.walk(t):
                if isinstance(c, ast.Compare) and len(c.ops) == 1 and isinstance(c.ops[0], ast.In) and subscript_key(c.comparators[0], "level_constraints_dict"):
                    mem.add((norm(c.left), subscript_key(c.comparators[0], "level_constraints_dict")))
        v = y.value
        need = set()
        if isinstance(v, ast.Call) and dotted(v.func) == "ColorSpec":
            for k in v.keywords:
                if k.arg == "custom_color_spec_flag":
                    need.add((norm(k.value), "custom_color_spec_flag"))
                elif k.arg == "index":
                    need.add((norm(k.value), "color_spec_index"))
            if not v.keywords and v.args and isinstance(v.args[0], ast.Dict):
                pass
        missing = need - mem
        res.check(not missing and bool(need), "C16.b", "iter_color_spec_options:yield:%s" % short(v, 50), wherec, "the yielded ColorSpec carries values whose level membership is not tested first: %s" % sorted(missing), by="dominated by %s" % sorted(mem))
    # every generator of the module: a literal given to a keyword that is a level-table key, anywhere inside a yielded
    # value, is dominated by `<literal> in level_constraints_dict['<key>']`
    csv_keys = set(enc_tables.level_csv_keys(repo))
    sm = repo.mod(enc_tables.SH)
    for gname, gfn in sorted(sm.funcs.items()):
        ys = [n for n in ast.walk(gfn) if isinstance(n, ast.Yield) and n.value is not None]
        for i, y in enumerate(ys):
            mem = set()
            for t in guards(y, gfn):
                for c in ast.walk(t):
                    if isinstance(c, ast.Compare) and len(c.ops) == 1 and isinstance(c.ops[0], ast.In) and isinstance(c.comparators[0], ast.Subscript) and const_str(c.comparators[0].slice):
                        mem.add((norm(c.left), const_str(c.comparators[0].slice)))
            need = set()
            for c in ast.walk(y.value):
                if isinstance(c, ast.Call):
                    for k in c.keywords:
                        if k.arg in csv_keys and isinstance(k.value, ast.Constant):
                            need.add((norm(k.value), k.arg))
            if not need:
                continue
            n_y += 1
            missing = need - mem
            res.check(not missing, "C16.b", "%s:yield%d:literal-level-values" % (gname, i + 1), "%s:%s" % (sm.rel, gname), "the yielded value fixes %s without first testing that the level column allows it (`<value> in level_constraints_dict[<key>]`): under a level that excludes the value the encoder emits a header the validator rejects" % sorted(missing), by="dominated by %s" % sorted(mem & need))
    res.info["yields_checked"] = n_y


def level_filter_rule(repo, res, rid):
    """iter_sequence_headers: the column dictionaries handed to the option
    generators come from the level table filtered by the known values *and the
    candidate base format*, and that same base format is the one whose defaults
    are used and which is written into the header."""
    m, fn = repo.func(enc_tables.SH + ":iter_sequence_headers")
    where = "%s:iter_sequence_headers" % m.rel
    ok = False
    detail = "filter_constraint_table(LEVEL_CONSTRAINTS, dict(<known values>, base_video_format=<candidate>)) not found"
    for n in ast.walk(fn):
        if isinstance(n, ast.Assign) and isinstance(n.value, ast.Call) and dotted(n.value.func) == "filter_constraint_table" and len(n.value.args) == 2:
            a0, a1 = n.value.args
            if not (dotted(a0) == "LEVEL_CONSTRAINTS" and isinstance(a1, ast.Call) and dotted(a1.func) == "dict" and a1.args and isinstance(a1.args[0], ast.Name)):
                detail = "the table is filtered with %s, not with dict(<known values>, base_video_format=<candidate>): columns written for another base format are used for this one" % short(a1, 60)
                continue
            kw = {k.arg: k.value for k in a1.keywords}
            bvf = kw.get("base_video_format")
            if not isinstance(bvf, ast.Name):
                detail = "base_video_format is not part of the filter: columns written for another base format are used for this one"
                continue
            known = a1.args[0].id
            kd = [x for x in ast.walk(fn) if isinstance(x, ast.Assign) and dotted(x.targets[0]) == known]
            known_ok = len(kd) == 1 and isinstance(kd[0].value, ast.Call) and dotted(kd[0].value.func) == "codec_features_to_trivial_level_constraints"
            var = dotted(n.targets[0])
            # the candidate is the variable of an enclosing loop, and the filter is recomputed inside it
            loop = None
            p = getattr(n, "_parent", None)
            while p is not None and p is not fn:
                if isinstance(p, ast.For) and isinstance(p.target, ast.Name) and p.target.id == bvf.id:
                    loop = p
                p = getattr(p, "_parent", None)
            if loop is None:
                detail = "the filter is not recomputed for each candidate base format"
                continue
            cols = [l for l in ast.walk(loop) if isinstance(l, ast.For) and dotted(l.iter) == var]
            defaults = [c for c in ast.walk(loop) if isinstance(c, ast.Call) and dotted(c.func) == "set_source_defaults" and c.args and dotted(c.args[0]) == bvf.id]
            hdr = [c for c in ast.walk(loop) if isinstance(c, ast.Call) and dotted(c.func) == "SequenceHeader" and any(k.arg == "base_video_format" and dotted(k.value) == bvf.id for k in c.keywords)]
            opts = []
            for l in cols:
                for c in ast.walk(l):
                    if isinstance(c, ast.Call) and dotted(c.func) == "iter_source_parameter_options" and len(c.args) == 3 and dotted(c.args[2]) == dotted(l.target):
                        opts.append(c)
            ok = known_ok and bool(cols) and bool(defaults) and bool(hdr) and bool(opts)
            if not ok:
                detail = "known values from codec_features_to_trivial_level_constraints: %s; column loop over the filtered table: %s; defaults of the same candidate: %s; header carries the same candidate: %s; options generated against the column: %s" % (known_ok, bool(cols), bool(defaults), bool(hdr), bool(opts))
    res.check(ok, rid, "table:filtered-before-columns", where, detail, by="filter_constraint_table(LEVEL_CONSTRAINTS, dict(known, base_video_format=candidate)) inside the candidate loop; same candidate for defaults and header")


def rule_c(repo, res):
    m, fn = repo.func(enc_tables.SH + ":iter_sequence_headers")
    where = "%s:iter_sequence_headers" % m.rel
    level_filter_rule(repo, res, "C16.c")
    rm, rfn = repo.func(enc_tables.SH + ":rank_allowed_base_video_format_similarity")
    ok = any(isinstance(n, ast.Call) and dotted(n.func) == "allowed_values_for" and const_str(n.args[1]) == "base_video_format" and dotted(n.args[0]) == "LEVEL_CONSTRAINTS" and dotted(n.args[2]) == "constrained_values" for n in ast.walk(rfn))
    res.check(ok, "C16.c", "base-format:from-allowed-values", "%s:%s" % (rm.rel, rfn.name), "candidate base formats must be the level's allowed values given the known values", by="allowed_values_for(LEVEL_CONSTRAINTS, 'base_video_format', constrained_values, ...)")
    pm, pfn = repo.func("encoder.pictures:decide_extended_transform_flag")
    feat, flagp = pfn.args.args[0].arg, pfn.args.args[1].arg
    # permitted = allowed_values_for(LEVEL_CONSTRAINTS, <flag name param>, <trivial constraints of the features>)
    permitted = known = None
    for a_ in ast.walk(pfn):
        if isinstance(a_, ast.Assign) and isinstance(a_.value, ast.Call) and dotted(a_.value.func) == "codec_features_to_trivial_level_constraints" and a_.value.args and dotted(a_.value.args[0]) == feat:
            known = dotted(a_.targets[0])
    for a_ in ast.walk(pfn):
        if isinstance(a_, ast.Assign) and isinstance(a_.value, ast.Call) and dotted(a_.value.func) == "allowed_values_for" and len(a_.value.args) >= 3 and dotted(a_.value.args[0]) == "LEVEL_CONSTRAINTS" and dotted(a_.value.args[1]) == flagp and dotted(a_.value.args[2]) == known:
            permitted = dotted(a_.targets[0])
    # the returned flag is drawn from a membership test in `permitted`; exhaustion raises the Incompatible... error
    member = any(isinstance(c_, ast.Compare) and isinstance(c_.ops[0], ast.In) and dotted(c_.comparators[0]) == permitted for r_ in ast.walk(pfn) if isinstance(r_, ast.Return) for c_ in ast.walk(r_))
    refuses = any(isinstance(r_, ast.Raise) and isinstance(r_.exc, ast.Call) and dotted(r_.exc.func) == "IncompatibleLevelAndExtendedTransformParametersError" for r_ in ast.walk(pfn))
    rets = [r_ for r_ in ast.walk(pfn) if isinstance(r_, ast.Return)]
    ok = permitted is not None and known is not None and member and refuses and len(rets) == 1
    res.check(ok, "C16.c", "extended-transform-flags:from-table", "%s:%s" % (pm.rel, pfn.name), "asym_transform*_flag values must be chosen among the level's permitted values or the encoder must refuse", by="chosen from allowed_values_for(...) or raises")
    # C16.i: an entry that admits no value means "this field does not occur" (streams below version 3); widening it to
    # {False} is only harmless while nothing makes the stream version 3, where the flag *is* serialised and the validator
    # compares it with the empty entry
    res.rule("C16.i", "an empty extended-transform-flag entry is widened to {False} only under a test that the stream stays below version 3 (where the flag is not serialised); unconditionally widened, a fragmented / version-3 stream carries a False flag that the same table forbids")
    for w in ast.walk(pfn):
        if isinstance(w, ast.If) and permitted is not None and any(isinstance(x, ast.Call) and isinstance(x.func, ast.Attribute) and x.func.attr == "add_value" and dotted(x.func.value) == permitted for b in w.body for x in ast.walk(b)):
            terms = w.test.values if isinstance(w.test, ast.BoolOp) and isinstance(w.test.op, ast.And) else [w.test]
            empties = [t for t in terms if norm(t) in ("%s == ValueSet()" % permitted, "not %s" % permitted)]
            others = [t for t in terms if t not in empties]
            res.check(bool(others), "C16.i", "decide_extended_transform_flag:empty-entry-widened-only-below-version-3", "%s:%s" % (pm.rel, pfn.name), "`%s` widens an entry that admits no value to {False} whatever the stream's version: with fragments (or anything else implying version 3) the False flag is serialised and the validator rejects it under the same table (ValueNotAllowedInLevel, expected {<no values>})" % short(w.test, 60), by="a further conjunct restricts the widening")


def rule_g(repo, res):
    from .c07 import guards_of

    m, fn = repo.func("codec_features:codec_features_to_trivial_level_constraints")
    where = "%s:%s" % (m.rel, fn.name)
    feat = fn.args.args[0].arg
    rets = [r for r in ast.walk(fn) if isinstance(r, ast.Return)]
    res.check(len(rets) == 1 and fn.body[-1] is rets[0] and dotted(rets[0].value) == "constrained_values", "C16.g", "single-exit", where, "the function must have one exit returning the dictionary it filled (an early return would skip later keys)", by="one return, last statement")
    for n in ast.walk(fn):
        if not isinstance(n, ast.Assign):
            continue
        for t in n.targets:
            if not (isinstance(t, ast.Subscript) and dotted(t.value) == "constrained_values"):
                continue
            key = const_str(t.slice) or "<%s>" % norm(t.slice)
            bad = []
            for test, pol in guards_of(n, fn):
                terms = test.values if isinstance(test, ast.BoolOp) else [test]
                for term in terms:
                    ok = isinstance(term, ast.Compare) and len(term.ops) == 1 and isinstance(term.ops[0], (ast.Eq, ast.NotEq, ast.Is, ast.IsNot)) and subscript_key(term.left, feat) == "profile" and (dotted(term.comparators[0]) or "").startswith("Profiles.")
                    if not ok:
                        bad.append(short(term, 60))
            # loops other than the literal key list also make a store conditional
            p = getattr(n, "_parent", None)
            while p is not None and p is not fn:
                if isinstance(p, (ast.While, ast.Try, ast.With)) or (isinstance(p, ast.For) and not (isinstance(p.iter, (ast.List, ast.Tuple)) and all(const_str(e) for e in p.iter.elts))):
                    bad.append("inside %s" % type(p).__name__)
                p = getattr(p, "_parent", None)
            res.check(not bad, "C16.g", "known-value:%s" % key, where, "the known value %r is recorded only under %s: for the other configurations of the same profile the encoder still emits it (make_picture_parse) but it is not checked against the level table, so a stream the validator rejects can be produced" % (key, bad), by="unconditional or profile-guarded")


def rule_known_equals_emitted(repo, res):
    """the known value recorded for custom_quant_matrix is the flag make_quant_matrix emits (same test of the same entry)"""
    from ..core import pfind

    m, fn = repo.func("codec_features:codec_features_to_trivial_level_constraints")
    feat = fn.args.args[0].arg
    n, _ = pfind("constrained_values['custom_quant_matrix'] = %s['quantization_matrix'] is not None" % feat, fn)
    pm, mq = repo.func("encoder.pictures:make_quant_matrix")
    f2 = mq.args.args[0].arg
    emit_ok = False
    for i in ast.walk(mq):
        if isinstance(i, ast.If) and norm(i.test) in ("%s['quantization_matrix'] is None" % f2,):
            t = [r for r in i.body if isinstance(r, ast.Return)]
            e = [r for r in i.orelse if isinstance(r, ast.Return)]

            def flag(r):
                if r and isinstance(r[0].value, ast.Call):
                    for k in r[0].value.keywords:
                        if k.arg == "custom_quant_matrix" and isinstance(k.value, ast.Constant):
                            return k.value.value
                return None

            emit_ok = flag(t) is False and flag(e) is True
    res.check(n is not None and emit_ok, "C16.g", "known-value:custom_quant_matrix:equals-what-is-emitted", "%s:codec_features_to_trivial_level_constraints" % m.rel, "the value checked against the level must be the value written to the stream: make_quant_matrix emits custom_quant_matrix=True exactly when codec_features['quantization_matrix'] is not None, so the known value must be that same test (a matrix that happens to equal the default one is still emitted as custom)", by="both are `quantization_matrix is not None`")
