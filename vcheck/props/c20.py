"""C20 Bit-level readers and writers agree on every primitive (structural part).

Value-level inverse-ness of exp-Golomb coding is arithmetic and not decided.
Decided: range guards dominate the first emitted bit; the bounded-block
bookkeeping, duplicated in reader and writer, is the same program; bit order
and sign handling have mirrored shapes; the length functions count what the
writer's loops emit (syntax-directed cost count).
"""
import ast
import copy

from ..core import pfind, pall, pmatch, AnalysisError, class_methods, const_str, dotted, norm, short
from ..report import Result
from ..mustflow import MustFlow
from .c11 import lin, loop_range

IO = "bitstream.io"


def strip_doc(fn):
    body = [s for s in fn.body if not (isinstance(s, ast.Expr) and isinstance(s.value, ast.Constant) and isinstance(s.value.value, str))]
    return body


class _NoStrings(ast.NodeTransformer):
    """clone comparison ignores message texts"""

    def visit_Constant(self, node):
        if isinstance(node.value, str):
            return ast.copy_location(ast.Constant(value=""), node)
        return node


def _dump(node):
    return ast.dump(_NoStrings().visit(copy.deepcopy(node)), annotate_fields=False)


def dump_body(stmts):
    return [_dump(s) for s in stmts]


def check(repo, tier="quick"):
    res = Result("C20")
    res.explanation = (
        "Dominance of OutOfRangeError guards over the first emitted bit in every writer primitive; clone comparison of the "
        "bounded-block bookkeeping between BitstreamReader and BitstreamWriter; mirrored shapes of bit order, byte advance and sign "
        "handling; syntax-directed count of the bits write_uint/write_sint emit against the closed-form length functions."
    )
    res.rule("C20.f", "bug patterns with zero expected instances in this property's modules: swapped same-named arguments, lower-bound guard followed by a decrement of the guarded value, presence of a dictionary entry decided by truthiness")
    res.rule("C20.a", "no bit is emitted for a rejected value: an OutOfRangeError guard dominates the first write in write_nbits/write_bitarray/write_bytes/write_uint, and exp_golomb_length rejects negatives")
    res.rule("C20.b", "bounded-block bookkeeping (begin/end/bits_remaining/seek preamble/decrement-and-test) is the same program in reader and writer; past-the-end arms are `return 1` vs `raise ValueError iff value is 0`")
    res.rule("C20.c", "bit order and byte advance mirror each other: MSB-first fixed-width integers, shared _next_bit discipline, zero padding to the declared length")
    res.rule("C20.g", "the partially written byte: BitstreamWriter.flush writes the current byte exactly when bits have been written into it (_next_bit != 7) and steps the file back over it; BitstreamWriter.seek calls flush() before it moves the file position and only afterwards resets _byte_offset (from the file), _current_byte (0) and _next_bit (the requested bit) -- so what the reader finds at a position is what was written there")
    res.rule("C20.h", "negative bounded-block lengths: the bitstream reader treats a block whose remaining count is zero *or negative* as exhausted (it decrements, then tests <= -1); the validator's reader decides exhaustion the same way for every count the two can be given -- an equality test with 0 lets a block begun with a negative length consume real stream bits")
    res.rule("C20.e", "single bit-level layer: the file and the position/accounting fields (_byte_offset, _current_byte, _next_bit, _bits_remaining) are touched only by the primitives (__init__, _read_byte/_write_byte, read_bit/write_bit, seek, flush, bounded_block_begin/end); every multi-bit reader/writer moves data only through read_bit/write_bit, so bounded-block accounting and reader/writer agreement apply to all of them")
    res.rule("C20.d", "signed codes: write_sint = write_uint(abs(v)) + sign bit iff v != 0, read_sint reads the sign iff the magnitude is non-zero, signed length = unsigned length of abs(v) + 1 iff v != 0; exp_golomb_length counts the bits of write_uint's loop")

    m = repo.mod(IO)
    rm, rd = repo.cls(IO + ":BitstreamReader")
    wm, wr = repo.cls(IO + ":BitstreamWriter")
    R, W = class_methods(rd), class_methods(wr)
    where = m.rel
    rule_a(repo, res, W, where)
    rule_b(repo, res, R, W, where)
    rule_c(repo, res, R, W, where)
    rule_d(repo, res, R, W, where)
    rule_e(repo, res, R, W, where)
    rule_g(repo, res, R, W, where)
    res.floor("C20.g", 6)
    rule_h(repo, res, R)
    res.floor("C20.h", 2)
    from .. import lints as _lints

    _lints.rule(repo, res, "C20.f", ['bitstream.io', 'bitstream.exp_golomb'])
    res.floor("C20.f", 3)
    res.floor("C20.e", 10)
    res.floor("C20.a", 5)
    res.floor("C20.b", 6)
    res.floor("C20.c", 6)
    res.floor("C20.d", 5)
    res.assumptions = ["arithmetic correctness of the exp-Golomb value mapping", "the validator's reader (decoder/io.py) is spec-pinned; its agreement with BitstreamReader on values is not decided"]
    res.trusted = ["int.bit_length semantics"]
    return res


def rule_a(repo, res, W, where):
    for name in ("write_nbits", "write_bitarray", "write_bytes", "write_uint"):
        fn = W.get(name)
        if fn is None:
            raise AnalysisError("anchor vanished: BitstreamWriter.%s" % name)
        problems = []
        nwrites = [0]

        def on(node, st):
            if isinstance(node, ast.If):
                if any(isinstance(b, ast.Raise) and isinstance(b.exc, ast.Call) and dotted(b.exc.func) == "OutOfRangeError" for b in node.body) and not node.orelse:
                    return st.add("guarded")
                return st
            d = dotted(node.func) or ""
            if d.startswith("self.write_"):
                nwrites[0] += 1
                if "guarded" not in st.must:
                    problems.append(short(node))
            return st

        MustFlow(fn, on, node_types=(ast.Call, ast.If)).run()
        res.check(not problems and nwrites[0] > 0, "C20.a", "%s:guard-dominates-writes" % name, "%s:BitstreamWriter.%s" % (where, name), "bits can be written before the range check: %s" % problems[:2], by="OutOfRangeError guard dominates %d write call(s)" % nwrites[0])
    # delegating writers: write_uint_lit -> write_nbits, write_sint -> write_uint first
    ul = W.get("write_uint_lit")
    ok = ul is not None and [dotted(c.func) for c in ast.walk(ul) if isinstance(c, ast.Call)] == ["self.write_nbits"]
    res.check(ok, "C20.a", "write_uint_lit:delegates", "%s:BitstreamWriter.write_uint_lit" % where, "write_uint_lit must delegate (only) to the guarded write_nbits", by="self.write_nbits(num_bytes * 8, value)")
    em, eg = repo.func("bitstream.exp_golomb:exp_golomb_length")
    body = strip_doc(eg)
    ok = bool(body) and isinstance(body[0], ast.If) and isinstance(body[0].test, ast.Compare) and isinstance(body[0].test.ops[0], ast.Lt) and any(isinstance(b, ast.Raise) and dotted(getattr(b.exc, "func", None)) == "OutOfRangeError" for b in body[0].body)
    res.check(ok, "C20.a", "exp_golomb_length:rejects-negative", "%s:exp_golomb_length" % em.rel, "exp_golomb_length must raise OutOfRangeError for negative values before computing", by="if value < 0: raise OutOfRangeError")


def inline_locals(fn, expr, depth=0):
    """expr with every Name that has exactly one assignment in fn (a plain
    `name = <expression>` statement) replaced by that expression."""
    import copy

    if depth > 4:
        return expr
    params = set(a.arg for a in fn.args.args)
    defs = {}
    for n in ast.walk(fn):
        if isinstance(n, ast.Assign) and len(n.targets) == 1 and isinstance(n.targets[0], ast.Name):
            defs.setdefault(n.targets[0].id, []).append(n.value)
        elif isinstance(n, (ast.AugAssign, ast.For)) :
            t = n.target
            for x in ast.walk(t):
                if isinstance(x, ast.Name):
                    defs.setdefault(x.id, []).extend([None, None])

    class Sub(ast.NodeTransformer):
        def visit_Name(self, node):
            if isinstance(node.ctx, ast.Load) and node.id not in params and len(defs.get(node.id, [])) == 1 and defs[node.id][0] is not None:
                return inline_locals(fn, copy.deepcopy(defs[node.id][0]), depth + 1)
            return node

    return Sub().visit(copy.deepcopy(expr))


def bookkeeping_preamble(fn):
    """the leading `if self._bits_remaining is not None:` statement of read_bit/write_bit"""
    body = strip_doc(fn)
    if body and isinstance(body[0], ast.If) and norm(body[0].test) == "self._bits_remaining is not None":
        return body[0]
    return None


def rule_b(repo, res, R, W, where):
    for name in ("bounded_block_begin", "bounded_block_end", "bits_remaining"):
        r, w = R.get(name), W.get(name)
        if r is None or w is None:
            raise AnalysisError("anchor vanished: %s" % name)
        same = dump_body(strip_doc(r)) == dump_body(strip_doc(w))
        res.check(same, "C20.b", "%s:clones-agree" % name, where, "BitstreamReader.%s and BitstreamWriter.%s differ: %s vs %s" % (name, name, short(ast.Module(body=strip_doc(r), type_ignores=[]), 120), short(ast.Module(body=strip_doc(w), type_ignores=[]), 120)), by="identical bodies")
    # bounded_block_end clamps at zero and closes the block
    be = R["bounded_block_end"]
    ok = pfind("max(0, self._bits_remaining)", be)[0] is not None and pfind("self._bits_remaining = None", be)[0] is not None and any(isinstance(x, ast.Raise) for x in ast.walk(be))
    res.check(ok, "C20.b", "bounded_block_end:clamp-and-close", where, "bounded_block_end must return max(0, remaining), clear the block, and refuse when no block is open", by="max(0, remaining); remaining = None")
    bb = R["bounded_block_begin"]
    ok = any(isinstance(x, ast.Raise) for x in ast.walk(bb)) and pfind("self._bits_remaining = %s" % bb.args.args[1].arg, bb)[0] is not None
    res.check(ok, "C20.b", "bounded_block_begin:no-nesting", where, "bounded_block_begin must refuse nesting and record the length", by="raise if open; remaining = length")
    # seek preamble
    def seek_pre(fn):
        for s in strip_doc(fn):
            if isinstance(s, ast.If) and norm(s.test) == "self._bits_remaining is not None":
                return s
        return None

    sr, sw = seek_pre(R["seek"]), seek_pre(W["seek"])
    res.check(sr is not None and sw is not None and _dump(sr) == _dump(sw), "C20.b", "seek:bookkeeping-clones-agree", where, "the bounded-block adjustment in seek() differs between reader and writer", by="identical blocks")
    # read_bit / write_bit preambles
    pr, pw = bookkeeping_preamble(R["read_bit"]), bookkeeping_preamble(W["write_bit"])
    if pr is None or pw is None:
        res.bad("C20.b", "read_bit/write_bit:preamble", where, "read_bit/write_bit no longer start with the bounded-block test")
        return

    def shape(p):
        # [-= 1 ; if remaining <= -1: <arm>]
        if len(p.body) == 2 and isinstance(p.body[0], ast.AugAssign) and norm(p.body[0]) == "self._bits_remaining -= 1" and isinstance(p.body[1], ast.If):
            t = p.body[1].test
            if isinstance(t, ast.Compare) and norm(t.left) == "self._bits_remaining" and ((isinstance(t.ops[0], ast.LtE) and lin(t.comparators[0]) == "-1") or (isinstance(t.ops[0], ast.Lt) and lin(t.comparators[0]) == "0")):
                return p.body[1].body
        return None

    ar, aw = shape(pr), shape(pw)
    res.check(ar is not None and aw is not None, "C20.b", "read_bit/write_bit:decrement-and-test", where, "both must decrement the remaining-bit count and take the past-the-end arm exactly when it drops below zero", by="remaining -= 1; if remaining <= -1")
    if ar is None or aw is None:
        return
    ok_r = len(ar) == 1 and isinstance(ar[0], ast.Return) and isinstance(ar[0].value, ast.Constant) and ar[0].value.value == 1
    res.check(ok_r, "C20.b", "read_bit:past-end-reads-1", where, "past the end of a bounded block the reader must return the literal 1 without touching the byte (found `%s`)" % short(ast.Module(body=ar, type_ignores=[])), by="return 1")
    val = W["write_bit"].args.args[1].arg
    ok_w = len(aw) == 2 and isinstance(aw[0], ast.If) and norm(aw[0].test) == "not %s" % val and any(isinstance(b, ast.Raise) and dotted(getattr(b.exc, "func", None)) == "ValueError" for b in aw[0].body) and isinstance(aw[1], ast.Return) and aw[1].value is None
    res.check(ok_w, "C20.b", "write_bit:past-end-accepts-only-1", where, "past the end of a bounded block the writer must raise ValueError for a 0 bit and silently accept a 1 bit, without touching the byte", by="if not value: raise ValueError; return")


def rule_c(repo, res, R, W, where):
    # read_nbits: shift-in accumulation over range(bits)
    rn = R["read_nbits"]
    n = rn.args.args[1].arg
    ok = False
    for l in ast.walk(rn):
        if isinstance(l, ast.For):
            r, rev = loop_range(l.iter)
            ok = r == ("0", "%s*1" % n) and rev is False and len(l.body) == 2 and pmatch("X_v <<= 1", l.body[0]) is not None and (pmatch("X_v |= self.read_bit()", l.body[1], pmatch("X_v <<= 1", l.body[0])) is not None or pmatch("X_v += self.read_bit()", l.body[1], pmatch("X_v <<= 1", l.body[0])) is not None)
    res.check(ok, "C20.c", "read_nbits:msb-first", "%s:BitstreamReader.read_nbits" % where, "read_nbits must shift in `bits` bits, most significant first", by="value = (value << 1) | bit, `bits` times")
    wn = W["write_nbits"]
    bits, val = wn.args.args[1].arg, wn.args.args[2].arg
    ok = False
    for l in ast.walk(wn):
        if isinstance(l, ast.For):
            r, rev = loop_range(l.iter)
            i = dotted(l.target)
            body = [norm(s) for s in l.body]
            ok = r == ("0", "%s*1" % bits) and rev is True and body == ["self.write_bit(%s >> %s & 1)" % (val, i)]
    res.check(ok, "C20.c", "write_nbits:msb-first", "%s:BitstreamWriter.write_nbits" % where, "write_nbits must emit bit i for i = bits-1 down to 0", by="for i in descending range(bits): write_bit((value >> i) & 1)")
    # guard of write_nbits: value < 0 or bit_length > bits
    ok = False
    for g in ast.walk(wn):
        if isinstance(g, ast.If) and any(isinstance(b, ast.Raise) and isinstance(b.exc, ast.Call) and dotted(b.exc.func) == "OutOfRangeError" for b in g.body):
            disj = [norm(inline_locals(wn, d)) for d in (g.test.values if isinstance(g.test, ast.BoolOp) and isinstance(g.test.op, ast.Or) else [g.test])]
            neg = any(d in ("%s < 0" % val, "0 > %s" % val) for d in disj)
            wide = any(d in ("%s.bit_length() > %s" % (val, bits), "%s < %s.bit_length()" % (bits, val)) for d in disj)
            ok = ok or (neg and wide)
    res.check(ok, "C20.c", "write_nbits:range", "%s:BitstreamWriter.write_nbits" % where, "write_nbits must reject negative values and values wider than `bits`", by="value < 0 or value.bit_length() > bits")
    # read_bit / write_bit share the _next_bit discipline
    rb, wb = R["read_bit"], W["write_bit"]
    ok = pfind("self._current_byte >> self._next_bit & 1", rb)[0] is not None and pfind("self._next_bit -= 1", rb)[0] is not None and pfind("if self._next_bit < 0:\n    self._read_byte()", rb)[0] is not None
    ok2 = pfind("1 << self._next_bit", wb)[0] is not None and pfind("self._next_bit -= 1", wb)[0] is not None and pfind("if self._next_bit < 0:\n    self._write_byte()", wb)[0] is not None and pfind("self._current_byte &= ~(1 << self._next_bit)", wb)[0] is not None
    res.check(ok and ok2, "C20.c", "bit-position:shared-discipline", where, "reader and writer must address bit `_next_bit` of the current byte, count it down, and advance the byte when it passes 0", by="bit (7 - k) of byte, advance after bit 0")
    ok = pfind("self._next_bit = 7", R["_read_byte"])[0] is not None and pfind("self._next_bit = 7", W["_write_byte"])[0] is not None and pfind("self._current_byte = 0", W["_write_byte"])[0] is not None
    res.check(ok, "C20.c", "byte-advance:resets-to-msb", where, "advancing to the next byte must reset _next_bit to 7 (and clear the writer's byte)", by="_next_bit = 7")
    # uint_lit scaling
    _p = R["read_uint_lit"].args.args[1].arg
    ok = (pfind("return self.read_nbits(%s * 8)" % _p, R["read_uint_lit"])[0] is not None or pfind("return self.read_nbits(8 * %s)" % _p, R["read_uint_lit"])[0] is not None) and (pfind("self.write_nbits(%s * 8, %s)" % (W["write_uint_lit"].args.args[1].arg, W["write_uint_lit"].args.args[2].arg), W["write_uint_lit"])[0] is not None or pfind("self.write_nbits(8 * %s, %s)" % (W["write_uint_lit"].args.args[1].arg, W["write_uint_lit"].args.args[2].arg), W["write_uint_lit"])[0] is not None)
    res.check(ok, "C20.c", "uint_lit:eight-bits-per-byte", where, "uint_lit must be nbits with 8 bits per byte on both sides", by="num_bytes * 8")
    # bitarray / bytes padding and length
    wb_ = W["write_bitarray"]
    bits, val = wb_.args.args[1].arg, wb_.args.args[2].arg
    ok = pfind("for X_b in %s:\n    self.write_bit(X_b)" % val, wb_)[0] is not None and pfind("for X_i in range(len(%s), %s):\n    self.write_bit(0)" % (val, bits), wb_)[0] is not None
    rb_ = R["read_bitarray"]
    ok2 = pfind("(self.read_bit() for X_i in range(%s))" % rb_.args.args[1].arg, rb_)[0] is not None or pfind("[self.read_bit() for X_i in range(%s)]" % rb_.args.args[1].arg, rb_)[0] is not None
    res.check(ok and ok2, "C20.c", "bitarray:exact-length-zero-padded", where, "write_bitarray must emit the value then zero-pad to `bits`; read_bitarray must read exactly `bits`", by="value bits + zeros up to `bits` / `bits` reads")
    wby = W["write_bytes"]
    nb, val = wby.args.args[1].arg, wby.args.args[2].arg
    ok = pfind("for X_b in bytearray(%s):\n    self.write_nbits(8, X_b)" % val, wby)[0] is not None and pfind("for X_i in range(len(%s), %s):\n    self.write_nbits(8, 0)" % (val, nb), wby)[0] is not None
    _p = R["read_bytes"].args.args[1].arg
    ok2 = pfind("return self.read_bitarray(%s * 8).tobytes()" % _p, R["read_bytes"])[0] is not None or pfind("return self.read_bitarray(8 * %s).tobytes()" % _p, R["read_bytes"])[0] is not None
    res.check(ok and ok2, "C20.c", "bytes:exact-length-zero-padded", where, "write_bytes must emit each byte as 8 bits then zero-pad to num_bytes; read_bytes must read num_bytes * 8 bits", by="8 bits per byte, zero padded / num_bytes * 8 bits")


def count_bits(stmts, emit="self.write_bit"):
    """symbolic count of `emit` calls: returns (constant, {loop range text: per-iteration count})"""
    const = 0
    loops = {}
    for s in stmts:
        if isinstance(s, ast.Expr) and isinstance(s.value, ast.Call) and dotted(s.value.func) == emit:
            const += 1
        elif isinstance(s, ast.For):
            c, inner = count_bits(s.body, emit)
            if inner:
                raise AnalysisError("nested emitting loops")
            if c:
                loops[norm(s.iter)] = c
    return const, loops


def rule_d(repo, res, R, W, where):
    wu = W["write_uint"]
    v = wu.args.args[1].arg
    body = strip_doc(wu)
    # after the guard: value += 1; for i in range(value.bit_length() - 2, -1, -1): 2 writes; 1 write
    inc = any(isinstance(s, ast.AugAssign) and norm(s) == "%s += 1" % v for s in body)
    const, loops = count_bits(body)
    rng = list(loops)
    trip_ok = False
    if len(rng) == 1:
        it = [s.iter for s in body if isinstance(s, ast.For)][0]
        r, rev = loop_range(it)
        # descending range(b-1 .. 0) with b = bit_length - 1  => trip count bit_length(value+1) - 1
        trip_ok = rev is True and r is not None and r[0] == "0" and r[1] == "-1+%s.bit_length()*1" % v
    ok = inc and const == 1 and list(loops.values()) == [2] and trip_ok
    res.check(ok, "C20.d", "write_uint:bit-count", "%s:BitstreamWriter.write_uint" % where, "write_uint must emit 2 bits per iteration for bit_length(value + 1) - 1 iterations, then one terminating bit (found const=%s loops=%s)" % (const, loops), by="2 * (bit_length(v + 1) - 1) + 1 bits")
    em, eg = repo.func("bitstream.exp_golomb:exp_golomb_length")
    ret = [s for s in eg.body if isinstance(s, ast.Return)]
    p = eg.args.args[0].arg
    ok = False
    if ret:
        e = ret[0].value
        # ((value + 1).bit_length() - 1) * 2 + 1  in any association
        t = norm(e).replace(" ", "")
        ok = t in ("((%s+1).bit_length()-1)*2+1" % p, "2*((%s+1).bit_length()-1)+1" % p, "1+((%s+1).bit_length()-1)*2" % p)
    res.check(ok, "C20.d", "exp_golomb_length:closed-form", "%s:exp_golomb_length" % em.rel, "exp_golomb_length must return 2 * (bit_length(value + 1) - 1) + 1, the number of bits write_uint emits", by="2 * ((value + 1).bit_length() - 1) + 1")
    # signed
    ws = W["write_sint"]
    v = ws.args.args[1].arg
    b = strip_doc(ws)
    ok = len(b) == 2 and norm(b[0]) == "self.write_uint(abs(%s))" % v and isinstance(b[1], ast.If) and norm(b[1].test) == "%s != 0" % v and [norm(x) for x in b[1].body] == ["self.write_bit(%s < 0)" % v] and not b[1].orelse
    res.check(ok, "C20.d", "write_sint:magnitude-then-sign", "%s:BitstreamWriter.write_sint" % where, "write_sint must write the magnitude then, iff the value is non-zero, one sign bit (1 = negative)", by="write_uint(abs(v)); if v != 0: write_bit(v < 0)")
    rs = R["read_sint"]
    b = strip_doc(rs)
    e0 = pmatch("X_v = self.read_uint()", b[0]) if len(b) == 3 else None
    ok = e0 is not None and pmatch("if X_v != 0:\n    if self.read_bit():\n        X_v = -X_v", b[1], e0) is not None and pmatch("return X_v", b[2], e0) is not None
    res.check(ok, "C20.d", "read_sint:sign-iff-nonzero", "%s:BitstreamReader.read_sint" % where, "read_sint must read a sign bit iff the magnitude is non-zero and negate on 1", by="if value != 0: if read_bit(): value = -value")
    sm, sg = repo.func("bitstream.exp_golomb:signed_exp_golomb_length")
    p = sg.args.args[0].arg
    b = strip_doc(sg)
    e0 = pmatch("X_l = exp_golomb_length(abs(%s))" % p, b[0]) if len(b) == 3 else None
    ok = e0 is not None and pmatch("if %s != 0:\n    X_l += 1" % p, b[1], e0) is not None and pmatch("return X_l", b[2], e0) is not None
    res.check(ok, "C20.d", "signed_exp_golomb_length:plus-sign-bit", "%s:signed_exp_golomb_length" % sm.rel, "signed length must be the unsigned length of abs(value) plus one iff value != 0 (the condition under which write_sint emits the sign)", by="exp_golomb_length(abs(v)) + (1 if v != 0)")
    # read_uint mirrors write_uint: prefix bit 1 terminates, else shift in one data bit
    ru = R["read_uint"]
    n0, e0 = pfind("X_v = 1", ru)
    ok = e0 is not None and pfind("if self.read_bit():\n    break\nelse:\n    X_v <<= 1\n    X_v += self.read_bit()", ru, e0)[0] is not None and pfind("X_v -= 1", ru, e0)[0] is not None and pfind("return X_v", ru, e0)[0] is not None
    # ... for as long as the stream says so: the loop is unbounded (`while True`), its only exit is the stop bit
    loops = [l for l in ast.walk(ru) if isinstance(l, (ast.While, ast.For))]
    unbounded = len(loops) == 1 and isinstance(loops[0], ast.While) and isinstance(loops[0].test, ast.Constant) and loops[0].test.value is True and not loops[0].orelse and sum(1 for x in ast.walk(loops[0]) if isinstance(x, (ast.Break, ast.Return, ast.Raise))) == 1
    res.check(unbounded, "C20.d", "read_uint:reads-until-the-stop-bit", "%s:BitstreamReader.read_uint" % where, "read_uint must loop `while True` with the stop bit as its only exit: the writer (and the validator's pinned read_uint) put no bound on the code length, so a bounded loop returns a truncated value for long codes and leaves the rest of the code in the stream", by="while True, single break on the 1 prefix bit")
    res.check(ok, "C20.d", "read_uint:mirrors-write_uint", "%s:BitstreamReader.read_uint" % where, "read_uint must start from 1, stop on a 1 prefix bit, otherwise shift in one data bit, and finally subtract 1", by="start 1; 0-prefix: shift in a bit; 1-prefix: stop; minus 1")


PRIMITIVES = {
    "BitstreamReader": {"__init__", "_read_byte", "read_bit", "seek", "bounded_block_begin", "bounded_block_end"},
    "BitstreamWriter": {"__init__", "_write_byte", "write_bit", "seek", "flush", "bounded_block_begin", "bounded_block_end"},
}
LOW_FIELDS = {"_file", "_byte_offset", "_current_byte", "_next_bit", "_bits_remaining"}


def rule_e(repo, res, R, W, where):
    for cname, meths, bitfn, bytefn in (("BitstreamReader", R, "read_bit", "_read_byte"), ("BitstreamWriter", W, "write_bit", "_write_byte")):
        prims = PRIMITIVES[cname]
        if not prims <= set(meths):
            raise AnalysisError("%s: primitive methods %s not found" % (cname, sorted(prims - set(meths))))
        for name, fn in meths.items():
            w = "%s:%s.%s" % (where, cname, name)
            touched = []
            for n in ast.walk(fn):
                tg = []
                if isinstance(n, ast.Assign):
                    tg = n.targets
                elif isinstance(n, ast.AugAssign):
                    tg = [n.target]
                elif isinstance(n, ast.Delete):
                    tg = n.targets
                for t in tg:
                    for y in ast.walk(t):
                        if isinstance(y, ast.Attribute) and isinstance(y.value, ast.Name) and y.value.id == "self" and y.attr in LOW_FIELDS and not isinstance(y.ctx, ast.Load):
                            touched.append("store self.%s" % y.attr)
                if isinstance(n, ast.Call) and isinstance(n.func, ast.Attribute) and isinstance(n.func.value, ast.Attribute) and n.func.value.attr == "_file" and dotted(n.func.value.value) == "self":
                    touched.append("self._file.%s()" % n.func.attr)
                if isinstance(n, ast.Attribute) and n.attr == "_file" and dotted(n.value) == "self" and not (isinstance(getattr(n, "_parent", None), ast.Attribute) and isinstance(getattr(n._parent, "_parent", None), ast.Call) and n._parent._parent.func is n._parent) and isinstance(n.ctx, ast.Load):
                    touched.append("self._file escapes")
                if isinstance(n, ast.Call) and dotted(n.func) == "self.%s" % bytefn and name not in prims:
                    touched.append("self.%s()" % bytefn)
            if name in prims:
                res.ok("C20.e", "%s.%s:primitive" % (cname, name), w, by="member of the bit-level layer")
            else:
                res.check(not touched, "C20.e", "%s.%s:goes-through-%s" % (cname, name, bitfn), w, "%s.%s is not a bit-level primitive but performs %s: data moved this way bypasses %s's bounded-block accounting and the mirrored reader/writer discipline" % (cname, name, sorted(set(touched)), bitfn), by="no direct access to the file or the position fields")


def rule_g(repo, res, R, W, where):
    from ..core import pmatch

    seek = W.get("seek")
    flush = W.get("flush")
    if seek is None or flush is None:
        raise AnalysisError("anchor vanished: BitstreamWriter.seek / flush")
    bytes_p, bits_p = [a.arg for a in seek.args.args[1:3]]
    body = strip_doc(seek)
    idx = {}
    for i, s in enumerate(body):
        if pmatch("self.flush()", s) is not None:
            idx.setdefault("flush", i)
        if pmatch("self._file.seek(%s)" % bytes_p, s) is not None:
            idx.setdefault("fseek", i)
        if pmatch("self._byte_offset = self._file.tell()", s) is not None or pmatch("self._byte_offset = %s" % bytes_p, s) is not None:
            idx.setdefault("off", i)
        if pmatch("self._current_byte = 0", s) is not None:
            idx.setdefault("cur", i)
        if pmatch("self._next_bit = %s" % bits_p, s) is not None:
            idx.setdefault("bit", i)
    n_fseek = sum(1 for c in ast.walk(seek) if isinstance(c, ast.Call) and dotted(c.func) == "self._file.seek")
    n_flush = sum(1 for c in ast.walk(seek) if isinstance(c, ast.Call) and dotted(c.func) == "self.flush")
    ok = set(idx) == {"flush", "fseek", "off", "cur", "bit"} and idx["flush"] < idx["fseek"] < min(idx["off"], idx["cur"], idx["bit"]) and n_fseek == 1 and n_flush == 1
    res.check(ok, "C20.g", "writer.seek:flush-then-move-then-reset", "%s:BitstreamWriter.seek" % where, "seek must, unconditionally and in this order, flush() the pending byte, move the file (self._file.seek(bytes)) and only then reset _byte_offset, _current_byte = 0 and _next_bit = bits (order found: %s): flushing after the move writes the pending byte at the target instead of its own position" % sorted(idx, key=idx.get), by="flush < file.seek < field resets, each once at the top level")
    fb = strip_doc(flush)
    ok = False
    if len(fb) == 2 and isinstance(fb[0], ast.If) and not fb[0].orelse and norm(fb[0].test) in ("self._next_bit != 7", "self._next_bit < 7", "7 != self._next_bit"):
        inner = fb[0].body
        ok = len(inner) == 2 and pmatch("self._file.write(bytearray([self._current_byte]))", inner[0]) is not None and (pmatch("self._file.seek(-1, 1)", inner[1]) is not None or pmatch("self._file.seek(-1, os.SEEK_CUR)", inner[1]) is not None) and pmatch("self._file.flush()", fb[1]) is not None
    res.check(ok, "C20.g", "writer.flush:writes-pending-byte-and-steps-back", "%s:BitstreamWriter.flush" % where, "flush must write the current byte iff _next_bit != 7, seek back one byte (so later bits extend the same byte) and flush the file", by="if _next_bit != 7: write current byte; seek(-1, 1)")
    # the reader's seek: moves the file, then loads the byte at the target and positions the bit
    rseek = R.get("seek")
    if rseek is None:
        raise AnalysisError("anchor vanished: BitstreamReader.seek")
    rb_, rbits = [a.arg for a in rseek.args.args[1:3]]
    body = strip_doc(rseek)
    idx = {}
    for i, s in enumerate(body):
        if pmatch("self._file.seek(%s)" % rb_, s) is not None:
            idx.setdefault("fseek", i)
        if pmatch("self._read_byte()", s) is not None:
            idx.setdefault("load", i)
        if pmatch("self._next_bit = %s" % rbits, s) is not None:
            idx.setdefault("bit", i)
    ok = set(idx) == {"fseek", "load", "bit"} and idx["fseek"] < idx["load"] < idx["bit"]
    res.check(ok, "C20.g", "reader.seek:move-load-position", "%s:BitstreamReader.seek" % where, "the reader's seek must move the file, load the byte at the target (_read_byte) and then set _next_bit = bits (found %s)" % sorted(idx, key=idx.get), by="file.seek < _read_byte < _next_bit = bits")
    # positions are absolute file offsets: both classes start counting from where the file is
    for cname, M in (("BitstreamReader", R), ("BitstreamWriter", W)):
        init = M.get("__init__")
        ok = init is not None and any(pmatch("self._byte_offset = self._file.tell()", b) is not None for b in ast.walk(init) if isinstance(b, ast.Assign))
        res.check(ok, "C20.g", "%s.__init__:offset-from-file-position" % cname, "%s:%s.__init__" % (where, cname), "%s must start its byte offset at self._file.tell(): tell() is what the serialiser records for later seek()s (which are absolute), so a writer that starts at 0 in a file that is not at position 0 patches parse offsets into whatever precedes the stream" % cname, by="self._byte_offset = self._file.tell()")
    # write_bit / _write_byte: a completed byte goes to the file exactly once
    wb = W.get("_write_byte")
    ok = wb is not None and sum(1 for c in ast.walk(wb) if isinstance(c, ast.Call) and dotted(c.func) == "self._file.write") == 1
    res.check(ok, "C20.g", "writer._write_byte:single-write", "%s:BitstreamWriter._write_byte" % where, "_write_byte must write the completed byte to the file exactly once", by="one self._file.write")


def rule_h(repo, res, R):
    rb = R.get("read_bit")
    ok = False
    for n in ast.walk(rb):
        if isinstance(n, ast.If) and norm(n.test) in ("self._bits_remaining <= -1", "self._bits_remaining < 0"):
            ok = any(isinstance(x, ast.Return) and isinstance(x.value, ast.Constant) and x.value.value == 1 for x in n.body)
    res.check(ok, "C20.h", "BitstreamReader.read_bit:exhausted-at-or-below-zero", "vc2_conformance/bitstream/io.py:BitstreamReader.read_bit", "after decrementing, read_bit must return 1 whenever the remaining count is below zero (covers blocks begun with a negative length)", by="decrement, then `<= -1` -> 1")
    dm, fn = repo.func("decoder.io:read_bitb")
    st = fn.args.args[0].arg
    tests = [norm(i.test) for i in ast.walk(fn) if isinstance(i, ast.If)]
    covers_negative = any(t in ("%s['bits_left'] <= 0" % st, "%s['bits_left'] < 1" % st) for t in tests)
    res.check(covers_negative, "C20.h", "decoder.io.read_bitb:exhausted-at-or-below-zero", "%s:read_bitb" % dm.rel, "the validator's read_bitb decides exhaustion with `%s`: begun with a negative length (which BitstreamReader treats as exhausted and the property's quantifier includes) it keeps consuming real stream bits, so the two readers disagree on values and positions" % (tests[0] if tests else "?"), by="`bits_left <= 0`")
    # the validator's reader reports positions in the same coordinates as the other two: bytes from the start of the
    # *file*, not from where reading began
    tm, tf = repo.func("decoder.io:tell")
    st = tf.args.args[0].arg
    rets = [r for r in ast.walk(tf) if isinstance(r, ast.Return) and r.value is not None]
    ok = False
    detail = "?"
    if len(rets) == 1:
        v = rets[0].value
        first = v.elts[0] if isinstance(v, ast.Tuple) and v.elts else v
        detail = short(first, 70)
        direct = any(isinstance(c, ast.Call) and norm(c.func) == "%s['_file'].tell" % st for c in ast.walk(first))
        ok = direct
        if not direct:
            # a counter: fine if init_io seeds it from the file's position
            keys = [const_str(x.slice) for x in ast.walk(first) if isinstance(x, ast.Subscript) and dotted(x.value) == st and const_str(x.slice) not in (None, "current_byte", "next_bit")]
            im, ifn = repo.func("decoder.io:init_io")
            ist = ifn.args.args[0].arg
            for k in keys:
                seeds = [a for a in ast.walk(ifn) if isinstance(a, ast.Assign) and any(isinstance(t, ast.Subscript) and dotted(t.value) == ist and const_str(t.slice) == k for t in a.targets)]
                if seeds and all(any(isinstance(c, ast.Call) and isinstance(c.func, ast.Attribute) and c.func.attr == "tell" for c in ast.walk(a.value)) for a in seeds):
                    ok = True
    res.check(ok, "C20.g", "decoder.io.tell:offset-from-file-position", "%s:tell" % tm.rel, "the byte part of the validator reader's position is `%s`, which is not the file's own position (nor a counter that init_io seeds from it): when reading starts past offset 0 it differs from BitstreamReader/BitstreamWriter by the starting offset at every step" % detail, by="state['_file'].tell() - (1 if a byte is loaded)")
