"""C10 Concatenated sequences are validated and decoded independently
(static non-interference argument).

Information can flow from sequence i to sequence i+1 only through (a) keys of
`state` that survive reset_state, (b) module-level / class-level / default-
argument mutable objects, (c) the file object.  The rules below close (a) and
(b); (c) is the retained I/O position, shown byte-aligned at every sequence
boundary.
"""
import ast

from ..core import AnalysisError, const_str, dotted, norm, short, subscript_key, walk_no_nested
from ..report import Result
from ..mustflow import MustFlow
from ..locals_da import scope_locals
from .. import analyses

MUTATORS = {
    "append", "extend", "add", "update", "pop", "remove", "clear", "insert", "setdefault",
    "discard", "popitem", "sort", "reverse", "appendleft", "popleft", "__setitem__", "__delitem__",
}
CALLBACK = "_output_picture_callback"


def check(repo, tier="quick"):
    res = Result("C10")
    res.explanation = (
        "Non-interference between sequences: reset_state runs first in parse_sequence and removes every key "
        "not in retained_state_fields; the retained keys are exactly I/O position plus the output callback; no "
        "code reachable from parse_stream writes module-level, class-level, function-attribute or default-argument "
        "state, nor stores a shared module-level object into state; every sequence boundary is byte aligned."
    )
    res.rule("C10.i", "bug patterns with zero expected instances in this property's modules: swapped same-named arguments, lower-bound guard followed by a decrement of the guarded value, presence of a dictionary entry decided by truthiness; no state kept outside the declared State entries (module-level containers, caches, function attributes, the state object's __dict__)")
    res.rule("C10.a", "reset_state(state) dominates every state access and every call in parse_sequence (validator and serdes flavours)")
    res.rule("C10.b", "reset_state deletes every key not in retained_state_fields and does nothing else")
    res.rule("C10.c", "retained_state_fields is a subset of {keys stored by decoder/io.py} + {output callback}, keeps the callback, and keeps every I/O key read before it is written")
    res.rule("C10.d", "no function reachable from parse_stream mutates module-level/class-level/default-argument/function-attribute state or stores a shared module-level object into state")
    res.rule("C10.e", "every sequence ends byte aligned (retained I/O position carries no sub-byte residue)")
    res.rule("C10.f", "the checker's own positive fixture for C10.d still matches")
    res.rule("C10.g", "an object stored into state by reference from a module-level table is never mutated through state (it is replaced by a fresh object on every path first)")
    res.rule("C10.h", "all validation happens inside parse_sequence: parse_stream itself only loops over parse_sequence")

    rule_a(repo, res)
    retained = rule_b(repo, res)
    rule_c(repo, res, retained)
    rule_d(repo, res)
    rule_e(repo, res)
    rule_fixture(repo, res)
    rule_g(repo, res)
    rule_h(repo, res)
    from .. import lints as _lints

    _lints.rule(repo, res, "C10.i", ['decoder.stream', 'decoder.io', 'pseudocode.state', 'decoder.sequence_header', 'decoder.picture_syntax', 'decoder.fragment_syntax', 'decoder.transform_data_syntax'])
    from .. import globals_state as _gs

    _gs.rule(repo, res, "C10.i", ['decoder.stream', 'decoder.io', 'decoder.assertions', 'decoder.sequence_header', 'decoder.picture_syntax', 'decoder.fragment_syntax', 'decoder.transform_data_syntax', 'pseudocode.state', 'pseudocode.slice_sizes', 'pseudocode.video_parameters', 'pseudocode.picture_decoding', 'pseudocode.arrays', 'pseudocode.vc2_math', 'pseudocode.parse_code_functions', 'symbol_re', 'level_constraints', 'constraint_table'], what="the verdict on one sequence (reset_state clears only the declared entries of the state dictionary: anything parked elsewhere -- a module-level table, a function attribute, the state object's own __dict__ -- is carried into the next sequence)")
    res.floor("C10.i", 20)
    res.floor("C10.g", 1)
    res.floor("C10.h", 2)
    res.floor("C10.a", 2)
    res.floor("C10.b", 1)
    res.floor("C10.c", 5)
    res.floor("C10.d", 100)
    res.floor("C10.e", 1)
    res.floor("C10.f", 4)
    res.assumptions = [
        "the output callback and the file object are outside the repository's control",
        "objects reachable from module-level tables are mutated only through the syntactic forms enumerated in C10.d (no setattr/exec/ctypes)",
    ]
    res.trusted = ["CPython ast", "name-based call graph (over-approximate reachability)"]
    return res


def rule_a(repo, res):
    for spec in ("decoder.stream:parse_sequence", "bitstream.vc2:parse_sequence"):
        m, fn = repo.func(spec)
        bad = []
        n_acc = [0]

        def on(node, st):
            if isinstance(node, ast.Call):
                if dotted(node.func) == "reset_state" and node.args and dotted(node.args[0]) == "state":
                    return st.add("reset")
                n_acc[0] += 1
                if "reset" not in st.must:
                    bad.append(short(node))
            elif isinstance(node, ast.Subscript) and dotted(node.value) == "state":
                n_acc[0] += 1
                if "reset" not in st.must:
                    bad.append(short(node))
            return st

        MustFlow(fn, on, node_types=(ast.Call, ast.Subscript)).run()
        where = "%s:parse_sequence" % m.rel
        res.check(not bad and n_acc[0] > 0, "C10.a", "%s:reset-first" % spec.split(":")[0], where, "executed before reset_state(state): %s" % bad[:3], by="reset_state dominates %d calls/state accesses" % n_acc[0])


def rule_b(repo, res):
    m, fn = repo.func("pseudocode.state:reset_state")
    rm, rv = repo.assign("pseudocode.state:retained_state_fields")
    if not isinstance(rv, (ast.List, ast.Tuple, ast.Set)) or not all(const_str(e) is not None for e in rv.elts):
        raise AnalysisError("retained_state_fields is not a literal list of strings")
    retained = [const_str(e) for e in rv.elts]
    where = "%s:reset_state" % m.rel
    body = [s for s in fn.body if not (isinstance(s, ast.Expr) and isinstance(s.value, ast.Constant))]
    p = fn.args.args[0].arg

    def is_all_keys(e):
        t = norm(e)
        return t in ("set(%s.keys())" % p, "set(%s)" % p, "list(%s.keys())" % p, "list(%s)" % p, "tuple(%s)" % p, "tuple(%s.keys())" % p)

    def is_retained(e):
        t = norm(e)
        return t in ("set(retained_state_fields)", "retained_state_fields", "frozenset(retained_state_fields)")

    ok = False
    detail = "unrecognised shape: %s" % short(fn, 160)
    if len(body) == 1 and isinstance(body[0], ast.For) and isinstance(body[0].target, ast.Name) and not body[0].orelse:
        loop = body[0]
        v = loop.target.id
        it = loop.iter
        # idiom 1: for k in <all keys> - <retained>: del state[k]
        if isinstance(it, ast.BinOp) and isinstance(it.op, ast.Sub) and is_all_keys(it.left) and is_retained(it.right):
            if len(loop.body) == 1 and _is_del(loop.body[0], p, v):
                ok = True
        # idiom 2: for k in list(state...): if k not in retained: del state[k]
        elif is_all_keys(it) and norm(it).startswith(("list(", "tuple(", "set(")) and len(loop.body) == 1 and isinstance(loop.body[0], ast.If):
            i = loop.body[0]
            t = i.test
            if (
                isinstance(t, ast.Compare)
                and len(t.ops) == 1
                and isinstance(t.ops[0], ast.NotIn)
                and dotted(t.left) == v
                and is_retained(t.comparators[0])
                and not i.orelse
                and len(i.body) == 1
                and _is_del(i.body[0], p, v)
            ):
                ok = True
        # idiom 3: for k in [k for k in state if k not in retained]: del state[k]
        elif isinstance(it, ast.ListComp) and len(it.generators) == 1:
            g = it.generators[0]
            if (
                dotted(it.elt) == dotted(g.target)
                and norm(g.iter) in (p, "%s.keys()" % p, "list(%s)" % p)
                and len(g.ifs) == 1
                and isinstance(g.ifs[0], ast.Compare)
                and isinstance(g.ifs[0].ops[0], ast.NotIn)
                and dotted(g.ifs[0].left) == dotted(g.target)
                and is_retained(g.ifs[0].comparators[0])
                and len(loop.body) == 1
                and _is_del(loop.body[0], p, v)
            ):
                ok = True
        if not ok:
            detail = "reset_state does not delete exactly the keys outside retained_state_fields: %s" % short(loop, 200)
    res.check(ok, "C10.b", "reset_state:deletes-complement", where, detail, by="recognised idiom: delete every key of state not in retained_state_fields")
    return retained


def _is_del(s, p, v):
    if isinstance(s, ast.Delete) and len(s.targets) == 1:
        t = s.targets[0]
        return isinstance(t, ast.Subscript) and dotted(t.value) == p and dotted(t.slice) == v
    if isinstance(s, ast.Expr) and isinstance(s.value, ast.Call) and dotted(s.value.func) == "%s.pop" % p:
        return len(s.value.args) >= 1 and dotted(s.value.args[0]) == v
    return False


def io_keys(repo):
    m = repo.mod("decoder.io")
    keys = set()
    for fn in m.funcs.values():
        for n in ast.walk(fn):
            tg = []
            if isinstance(n, ast.Assign):
                tg = n.targets
            elif isinstance(n, ast.AugAssign):
                tg = [n.target]
            for t in tg:
                k = subscript_key(t, "state")
                if k:
                    keys.add(k)
    return keys


def rule_c(repo, res, retained):
    where = "vc2_conformance/pseudocode/state.py:retained_state_fields"
    iok = io_keys(repo)
    if len(iok) < 3:
        raise AnalysisError("decoder/io.py stores fewer than 3 state keys: %s" % sorted(iok))
    for k in retained:
        res.check(
            k in iok or k == CALLBACK,
            "C10.c",
            "retained:%s" % k,
            where,
            "state[%r] survives reset_state but is neither an I/O key of decoder/io.py (%s) nor the output callback: it carries validation state into the next sequence" % (k, sorted(iok)),
            by="I/O key" if k in iok else "output callback",
        )
    res.check(CALLBACK in retained, "C10.c", "retained-has-callback", where, "%s is not retained: later sequences would output no pictures" % CALLBACK, by="present")
    # lower bound: every I/O key read before it is (re)written in a sequence must survive
    sf = analyses.validator_stateflow(repo)
    needed = set()
    failing = []
    for r in sf.reads:
        if r.key in iok:
            if r.ok and r.by == "retained":
                needed.add(r.key)
            if not r.ok:
                failing.append("%s in %s" % (r.key, r.fn))
    res.check(not failing, "C10.c", "io-keys-survive", where, "I/O keys read after reset_state without being retained: %s" % sorted(set(failing))[:4], by="reads discharged through retained keys: %s" % sorted(needed))
    st = analyses.cache(repo, "State", lambda: None)


def module_level_kind(repo, modname, name):
    """'mutable' if the module-level name is bound to a mutable/constructed
    object, 'immutable' for constants/functions/classes, None if unknown."""
    sym = repo.resolve(modname, name)
    if sym is None:
        return None
    if sym.kind in ("func", "class", "module"):
        return "immutable"
    if sym.kind == "external":
        return "external"
    v = sym.node
    if isinstance(v, ast.Constant):
        return "immutable"
    if isinstance(v, (ast.Tuple,)) and all(isinstance(e, ast.Constant) for e in v.elts):
        return "immutable"
    return "mutable"


def scan_function(repo, m, fn, qual, report, cls=None):
    """report(kind, node, detail) for every mutation of non-local state."""
    locs = scope_locals(fn)
    # parameters with mutable defaults
    a = fn.args
    pos = a.posonlyargs + a.args
    defaults = dict(zip([x.arg for x in pos[len(pos) - len(a.defaults):]], a.defaults))
    for x, d in zip(a.kwonlyargs, a.kw_defaults):
        if d is not None:
            defaults[x.arg] = d
    mutable_default = set(
        n for n, d in defaults.items() if isinstance(d, (ast.Dict, ast.List, ast.Set, ast.ListComp, ast.DictComp, ast.SetComp)) or (isinstance(d, ast.Call) and dotted(d.func) in ("dict", "list", "set", "OrderedDict", "defaultdict", "deque"))
    )
    rebound = set()
    for n in ast.walk(fn):
        if isinstance(n, ast.Name) and isinstance(n.ctx, ast.Store):
            rebound.add(n.id)
    mutable_default -= rebound
    class_mutables = set()
    if cls is not None:
        init_assigned = set()
        for s in cls.body:
            if isinstance(s, ast.FunctionDef) and s.name == "__init__":
                for n in ast.walk(s):
                    if isinstance(n, ast.Attribute) and isinstance(n.ctx, ast.Store) and dotted(n.value) == "self":
                        init_assigned.add(n.attr)
        for s in cls.body:
            if isinstance(s, ast.Assign) and isinstance(s.value, (ast.Dict, ast.List, ast.Set)) or (isinstance(s, ast.Assign) and isinstance(s.value, ast.Call) and dotted(s.value.func) in ("dict", "list", "set", "OrderedDict", "defaultdict", "deque")):
                for t in s.targets:
                    if isinstance(t, ast.Name) and t.id not in init_assigned:
                        class_mutables.add(t.id)

    def base_of(e):
        while isinstance(e, (ast.Subscript, ast.Attribute)):
            e = e.value
        return e

    def nonlocal_target(e, mutated=False):
        """classify the object a store (e = target) or a mutator call
        (e = the mutated object, mutated=True) goes through."""
        b = base_of(e)
        if not isinstance(b, ast.Name):
            return None
        if isinstance(e, ast.Name):
            return None  # plain rebinding of a local name
        if b.id in mutable_default:
            return "mutable default argument %r" % b.id
        if b.id in ("self", "cls") and cls is not None:
            # self.<attr>... where attr is a class-level mutable never set in __init__
            x = e
            first_attr = None
            while isinstance(x, (ast.Subscript, ast.Attribute)):
                if isinstance(x, ast.Attribute) and dotted(x.value) in ("self", "cls"):
                    first_attr = x.attr
                x = x.value
            if first_attr in class_mutables and (mutated or not (isinstance(e, ast.Attribute) and dotted(e.value) in ("self",) and e.attr == first_attr)):
                return "class-level mutable attribute %r" % first_attr
            return None
        if b.id in locs:
            return None
        kind = module_level_kind(repo, m.name, b.id)
        if kind == "mutable":
            return "module-level object %r" % b.id
        if kind == "immutable":
            sym = repo.resolve(m.name, b.id)
            if sym is not None and sym.kind == "func" and isinstance(e, ast.Attribute):
                return "attribute of function %r" % b.id
            if sym is not None and sym.kind in ("class", "module") and isinstance(e, ast.Attribute):
                return "attribute of %s %r" % (sym.kind, b.id)
        return None

    for n in ast.walk(fn):
        if isinstance(n, (ast.Global, ast.Nonlocal)):
            report("global/nonlocal", n, "declares %s" % ", ".join(n.names))
        elif isinstance(n, (ast.Assign, ast.AugAssign, ast.Delete, ast.AnnAssign)):
            tg = n.targets if isinstance(n, (ast.Assign, ast.Delete)) else [n.target]
            for t in tg:
                for tt in (t.elts if isinstance(t, (ast.Tuple, ast.List)) else [t]):
                    why = nonlocal_target(tt)
                    if why:
                        report("store", n, "store through %s: %s" % (why, short(n)))
            # shared module-level object stored into state
            if isinstance(n, ast.Assign) and isinstance(n.value, ast.Name) and n.value.id not in locs:
                if any(subscript_key(t, "state") is not None for t in n.targets):
                    if module_level_kind(repo, m.name, n.value.id) == "mutable":
                        report("shared-into-state", n, "module-level object %r stored into state: %s" % (n.value.id, short(n)))
        elif isinstance(n, ast.Call) and isinstance(n.func, ast.Attribute) and n.func.attr in MUTATORS:
            why = nonlocal_target(n.func.value, mutated=True) if not isinstance(n.func.value, ast.Name) else None
            if isinstance(n.func.value, ast.Name):
                nm = n.func.value.id
                if nm in mutable_default:
                    why = "mutable default argument %r" % nm
                elif nm not in locs and module_level_kind(repo, m.name, nm) == "mutable":
                    why = "module-level object %r" % nm
            if why:
                report("mutator", n, "%s() on %s: %s" % (n.func.attr, why, short(n)))


def rule_d(repo, res):
    reach = analyses.validator_reach(repo)
    nfun = 0
    for fid, fr in reach.items():
        if fr.mod.outermost_function(fr.node) is not None:
            continue
        nfun += 1
        where = "%s:%s" % (fr.mod.rel, fr.qual)
        found = []

        def report(kind, node, detail, found=found):
            found.append((kind, detail))

        scan_function(repo, fr.mod, fr.node, fr.qual, report, cls=fr.cls)
        if found:
            for kind, detail in found:
                res.bad("C10.d", "%s:%s:%s" % (fr.mod.name.split(".")[-1], fr.qual, kind), where, detail)
        else:
            res.ok("C10.d", "%s:%s" % (fr.mod.name.split(".")[-1], fr.qual), where, by="no write to non-local state")
    res.info["functions_scanned_for_shared_state"] = nfun


def rule_e(repo, res):
    sf = analyses.validator_stateflow(repo)
    key = None
    for (mod, name), E in sf.exit_E.items():
        if name == "parse_sequence" and mod.endswith("decoder.stream"):
            key = (mod, name)
            res.check("aligned" in E, "C10.e", "parse_sequence:exit-aligned", "vc2_conformance/decoder/stream.py:parse_sequence", "a normal exit of parse_sequence is not known to be byte aligned", by="last I/O on every path is byte_align + whole-byte reads (parse_info)")
    if key is None:
        raise AnalysisError("StateFlow did not record an exit state for parse_sequence")


FIXTURE = '''
CACHE = {}
SHARED = Thing()
LIMIT = 3
def f(state, x, acc=[]):
    global COUNT
    CACHE[x] = 1
    acc.append(x)
    f.calls = 1
    state["k"] = SHARED
    local = {}
    local[x] = LIMIT
'''


def rule_fixture(repo, res):
    """Zero-expected rule: keep a positive example that must match on every run."""
    import types

    from ..core import Module

    m = Module("vc2_conformance._fixture", "<fixture>", "<fixture>", FIXTURE)
    fn = m.funcs["f"]
    kinds = []

    class FakeRepo(object):
        modules = {m.name: m}

        def resolve(self, modname, name, _seen=None):
            from ..core import Sym

            if name in m.funcs:
                return Sym("func", m.name, name, m.funcs[name])
            if name in m.assigns:
                return Sym("assign", m.name, name, m.assigns[name][-1])
            return None

    scan_function(FakeRepo(), m, fn, "f", lambda k, n, d: kinds.append(k))
    for want in ("global/nonlocal", "store", "mutator", "shared-into-state"):
        res.check(want in kinds, "C10.f", "fixture:%s" % want, "vcheck/props/c10.py:FIXTURE", "the shared-state scanner no longer recognises its own %r example" % want, by="matched")
    res.check(kinds.count("store") == 2, "C10.f", "fixture:no-false-store", "vcheck/props/c10.py:FIXTURE", "store matches: %s (expected exactly CACHE[x] and f.calls)" % kinds, by="local dict store not flagged")


def rule_g(repo, res):
    sf = analyses.validator_stateflow(repo)
    res.info["state_keys_aliasing_module_tables"] = dict(sf.alias_keys)
    if not sf.alias_keys:
        raise AnalysisError("no state key is assigned from a module-level table any more (set_quant_matrix anchor moved)")
    groups = {}
    for mod, fn, node, k, ok, stack in sf.alias_muts:
        g = groups.setdefault((mod.rel, fn, k), [True, None, None])
        if not ok:
            g[0] = False
            g[1] = node
            g[2] = stack
    for (rel, fn, k), (ok, node, stack) in groups.items():
        res.check(ok, "C10.g", "%s:mutates state[%s]" % (fn, k), "%s:%s" % (rel, fn), "state[%r] may refer to the module-level object stored by %s; `%s` mutates it in place, so one sequence changes the table every later sequence (and stream) reads" % (k, sf.alias_keys.get(k), short(node) if node is not None else ""), by="state[%r] is replaced by a fresh object on every path before it is mutated" % k)
    for k, src in sf.alias_keys.items():
        if not any(key[2] == k for key in groups):
            res.ok("C10.g", "state[%s]:never-mutated" % k, src.split(" ")[0], by="aliased table object is only read")


def rule_h(repo, res):
    m, fn = repo.func("decoder.stream:parse_stream")
    body = [s for s in fn.body if not (isinstance(s, ast.Expr) and isinstance(s.value, ast.Constant))]
    ok = (
        len(body) == 1
        and isinstance(body[0], ast.While)
        and not body[0].orelse
        and len(body[0].body) == 1
        and isinstance(body[0].body[0], ast.Expr)
        and isinstance(body[0].body[0].value, ast.Call)
        and dotted(body[0].body[0].value.func) == "parse_sequence"
    )
    extra = [short(s, 60) for s in body[1:]] + ([short(s, 60) for s in body[0].body[1:]] if body and isinstance(body[0], ast.While) else [])
    res.check(ok, "C10.h", "parse_stream:only-loops-over-sequences", "%s:parse_stream" % m.rel, "parse_stream does more than `while not end: parse_sequence(state)` (%s): a check made after the loop sees only the last sequence's state (earlier sequences were reset), a check made between sequences couples them" % extra, by="while not is_end_of_stream(state): parse_sequence(state)")
    # nothing beneath parse_sequence may ask where in the stream it is: a sequence's verdict must not
    # depend on whether another sequence follows
    from .. import analyses

    reach = analyses.validator_reach(repo)
    users = []
    for q in sorted(reach):
        modn, fname = q.split(":")
        mm = repo.modules.get(modn)
        if mm is None or "." in fname or modn.endswith("decoder.io"):
            continue
        f = mm.funcs.get(fname)
        if f is None or (modn.endswith("decoder.stream") and fname == "parse_stream"):
            continue
        for c in ast.walk(f):
            if isinstance(c, ast.Call) and dotted(c.func) == "is_end_of_stream":
                users.append("%s:%s line %d" % (mm.rel, fname, c.lineno))
    # ... and an absolute position obtained from tell() never decides anything by itself: it may be stored, handed on,
    # reported, or subtracted from another position, but not compared with a constant ("are we at offset 0?") -- that is
    # true for the first sequence of a stream only
    absolute = []
    n_tell = 0
    for q in sorted(reach):
        modn, fname = q.split(":")
        mm = repo.modules.get(modn)
        if mm is None or "." in fname or modn.endswith("decoder.io"):
            continue
        f = mm.funcs.get(fname)
        if f is None:
            continue
        pos = set()
        for a_ in ast.walk(f):
            if isinstance(a_, ast.Assign) and len(a_.targets) == 1 and isinstance(a_.targets[0], ast.Name):
                v = a_.value
                base = v.value if isinstance(v, ast.Subscript) else v
                if isinstance(base, ast.Call) and dotted(base.func) == "tell":
                    pos.add(a_.targets[0].id)
                    n_tell += 1
        for c in ast.walk(f):
            if isinstance(c, ast.Compare):
                sides = [c.left] + list(c.comparators)

                def is_pos(e):
                    e = e.value if isinstance(e, ast.Subscript) else e
                    return (isinstance(e, ast.Name) and e.id in pos) or (isinstance(e, ast.Call) and dotted(e.func) == "tell")

                def is_const(e):
                    return isinstance(e, ast.Constant) or (isinstance(e, ast.Tuple) and all(isinstance(x, ast.Constant) for x in e.elts))

                if any(is_pos(x) for x in sides) and any(is_const(x) for x in sides):
                    absolute.append("%s:%s `%s`" % (mm.rel, fname, short(c, 50)))
    res.check(not absolute and n_tell >= 3, "C10.h", "position-in-stream:absolute-offsets-decide-nothing", "vc2_conformance/decoder", "a position obtained from tell() is compared with a constant (%s): the test holds for the first sequence of a stream only, so a later sequence is checked differently from the same sequence on its own" % "; ".join(absolute), by="%d position locals; used in differences, stores and reports only" % n_tell)
    res.check(not users, "C10.h", "position-in-stream:only-parse_stream-asks", "vc2_conformance/decoder", "is_end_of_stream() is consulted beneath parse_sequence (%s): what is checked for a sequence then depends on whether another sequence follows it" % "; ".join(users), by="is_end_of_stream is called by parse_stream's loop only")

