"""C22 Picture generators produce well-formed pictures for any regular format
(structural part, thin).

Component sizes and sample ranges come out of numpy float pipelines and picture
geometry and are not decided.  Three clauses of the statement are visible in
the shape of the code and are decided: pictures are numbered consecutively from
0; the number of pictures is even whenever pictures are fields (and no source
frame is lost when an interlaced source is paired into frames); every generator
yields at least one picture.  They reduce to a counting argument over the
frame -> picture dispatch table and the yield structure of each generator.
"""
import ast

from ..core import AnalysisError, const_str, dotted, norm, short, pfind, pmatch
from ..report import Result

PG = "picture_generators"


def check(repo, tier="quick"):
    res = Result("C22")
    res.explanation = (
        "Counting argument over picture_generators.py: the frame->picture dispatch of progressive_to_pictures (how many pictures each "
        "source frame becomes in each of the four sampling/coding combinations), the yield structure of every generator (how many source "
        "frames, and that the count is doubled exactly when the dispatch would otherwise leave an odd field), and the numbering."
    )
    res.rule("C22.a", "numbering: xyz_to_native numbers pictures with enumerate() from 0 in generation order; the generators that build pictures themselves (mid_gray, white_noise, repeat_pictures) number them 0, 1, ... as well")
    res.rule("C22.b", "dispatch: progressive_to_pictures maps frames as (frames, progressive) -> unchanged; (frames, interlaced) -> one field per source frame, paired into frames; (fields, progressive) -> two fields per source frame; (fields, interlaced) -> one field per source frame; field order follows top_field_first")
    res.rule("C22.c", "even field counts: every generator behind progressive_to_pictures yields each source frame a second time exactly when the source is interlaced (so interlaced sources give an even number of fields and no frame is dropped by the pairing); the self-contained generators double their count exactly when pictures are fields")
    res.rule("C22.d", "at least one picture: every generator has an unconditional first yield (or a loop over a count that its callers keep positive); the decorator order is xyz_to_native(progressive_to_pictures(generator))")

    res.rule("C22.g", "frame coverage: the frames the piped generators hand on are (frame_height, frame_width, 3) arrays of the configured frame size -- the sprite generators allocate np.zeros((frame_height, frame_width, 3)) from video_parameters' own keys and yield that array; linear_ramps repeats each of its N ramp rows ceil(frame_height / N) times (N taken from the ramp array's allocation) before cropping to frame_height, so the crop never comes up short")
    res.rule("C22.f", "one picture per iteration: every loop of the module that yields pictures yields on every iteration -- a yield (or a nested loop that itself yields unconditionally) is a top-level statement of the loop body, and the loop contains no break, continue or return -- so the counts established by C22.b/c are the numbers of pictures actually produced")
    res.rule("C22.e", "range provenance: every component from_xyz returns is the direct result of float_to_int_clipped with that component kind's offset/excursion; float_to_int_clipped clips the rounded integer array to [0, 2**intlog2(excursion+1) - 1], the bit depth video_depth derives from the same excursion; mid_gray and white_noise take shape and value range of each component from that component's own entry of compute_dimensions_and_depths")
    m = repo.mod(PG)
    rule_a(res, m)
    rule_b(res, m)
    rule_c(res, m)
    rule_e(res, repo, m)
    rule_f(res, m)
    rule_g(res, m)
    rule_axes(res, m)
    rule_resize(res, m)
    rule_subsample(repo, res)
    from .. import globals_state

    globals_state.rule(repo, res, "C22.i", ["picture_generators", "dimensions_and_depths", "color_conversion"], what="the size, depth or samples of the pictures generated for one format (a format used later in the same process could be answered from an earlier one's)")
    res.rule("C22.i", "history independence: the generators, the size/depth computation and the colour conversion keep no state between calls")
    res.floor("C22.i", 3)
    res.floor("C22.g", 5)
    res.floor("C22.f", 8)
    res.floor("C22.e", 9)
    res.floor("C22.a", 4)
    res.floor("C22.b", 5)
    res.floor("C22.c", 5)
    res.floor("C22.d", 5)
    res.assumptions = [
        "component dimensions of the float pipelines (sprite placement, from_444 subsampling) are not decided; sample ranges are decided only as far as 'the last operation on every returned component is the clip to the depth derived from the same excursion'",
        "numpy semantics of round/astype(int)/clip/randint/full are trusted",
        "callers pass positive frame counts to moving_sprite / white_noise",
    ]
    res.trusted = []
    return res


def _yields(fn):
    out = []
    stack = list(fn.body)
    while stack:
        n = stack.pop()
        if isinstance(n, (ast.FunctionDef, ast.Lambda)):
            continue
        if isinstance(n, (ast.Yield, ast.YieldFrom)):
            out.append(n)
        stack.extend(ast.iter_child_nodes(n))
    return sorted(out, key=lambda y: y.lineno)


def rule_a(res, m):
    fn = m.funcs.get("xyz_to_native")
    if fn is None:
        raise AnalysisError("anchor vanished: picture_generators.xyz_to_native")
    where = "%s:xyz_to_native" % m.rel
    pics = fn.args.args[2].arg
    n, e = pfind("for X_i, X_p in enumerate(%s):\n    STMTS_" % pics, fn)
    ok = False
    if n is not None:
        ys = _yields(fn)
        ok = len(ys) == 1 and isinstance(ys[0].value, ast.Dict) and dict(zip([const_str(k) for k in ys[0].value.keys], [dotted(v) for v in ys[0].value.values])).get("pic_num") == e["X_i"] and not any(isinstance(x, (ast.Continue, ast.Break)) for x in ast.walk(n))
    res.check(ok, "C22.a", "xyz_to_native:enumerate-from-0", where, "pictures must be numbered with the enumerate() index (from 0, no start offset, no skipped iteration)", by="pic_num = enumerate index")
    mg = m.funcs.get("mid_gray")
    ys = _yields(mg) if mg is not None else []
    nums = []
    for y in ys:
        if isinstance(y.value, ast.Dict):
            d = dict(zip([const_str(k) for k in y.value.keys], y.value.values))
            v = d.get("pic_num")
            nums.append(v.value if isinstance(v, ast.Constant) else None)
    res.check(nums == [0, 1], "C22.a", "mid_gray:numbers-0-1", "%s:mid_gray" % m.rel, "mid_gray must number its pictures 0 and (for fields) 1 (found %s)" % nums, by="0, 1")
    wn = m.funcs.get("white_noise")
    ok = False
    if wn is not None:
        n, e = pfind("for X_i in range(X_n):\n    STMTS_", wn)
        if n is not None:
            ok = pfind("X_p = {'pic_num': %s}" % e["X_i"], n)[0] is not None and len(_yields(wn)) == 1
    res.check(ok, "C22.a", "white_noise:numbers-from-range", "%s:white_noise" % m.rel, "white_noise must number its pictures with the range() index", by="pic_num = range index")
    rp = m.funcs.get("repeat_pictures")
    ok = False
    if rp is not None:
        n, e = pfind("for X_i, X_p in enumerate(E_l):\n    STMTS_", rp)
        if n is not None:
            ok = pfind("X_q['pic_num'] = %s" % e["X_i"], n)[0] is not None
    res.check(ok, "C22.a", "repeat_pictures:renumbers", "%s:repeat_pictures" % m.rel, "repeat_pictures must renumber the repeated pictures consecutively", by="pic_num = enumerate index")


def rule_b(res, m):
    fn = m.funcs.get("progressive_to_pictures")
    if fn is None:
        raise AnalysisError("anchor vanished: progressive_to_pictures")
    where = "%s:progressive_to_pictures" % m.rel
    # locals naming the two predicates
    frames_v = prog_v = None
    for a in fn.body:
        if isinstance(a, ast.Assign) and isinstance(a.value, ast.Compare) and isinstance(a.value.ops[0], ast.Eq):
            t = norm(a.value)
            if "PictureCodingModes.pictures_are_frames" in t:
                frames_v = dotted(a.targets[0])
            if "SourceSamplingModes.progressive" in t and "source_sampling" in t:
                prog_v = dotted(a.targets[0])
    table = {}
    top = [s for s in fn.body if isinstance(s, ast.If) and dotted(s.test) == frames_v]
    if len(top) == 1:
        for arm_name, arm in (("frames", top[0].body), ("fields", top[0].orelse)):
            inner = [s for s in arm if isinstance(s, ast.If) and dotted(s.test) == prog_v]
            if len(inner) == 1:
                for sub_name, sub in (("progressive", inner[0].body), ("interlaced", inner[0].orelse)):
                    table[(arm_name, sub_name)] = [dotted(c.func) for s in sub for c in ast.walk(s) if isinstance(c, ast.Call)]
    want = {
        ("frames", "progressive"): [],
        ("frames", "interlaced"): ["progressive_to_interlaced", "interleave_fields"],
        ("fields", "progressive"): ["progressive_to_split_fields"],
        ("fields", "interlaced"): ["progressive_to_interlaced"],
    }
    res.check(table == want, "C22.b", "dispatch:four-cases", where, "frame->picture dispatch is %s, expected %s" % (table, want), by="unchanged / interlace+pair / split / interlace")
    ret = [r for r in ast.walk(fn) if isinstance(r, ast.Return)]
    pics = fn.args.args[2].arg
    res.check(len(ret) == 1 and dotted(ret[0].value) == pics, "C22.b", "dispatch:returns-the-transformed-stream", where, "progressive_to_pictures must return the (re-bound) picture stream", by="return pictures")
    # the three transformations: counts per source frame
    pi = m.funcs.get("progressive_to_interlaced")
    ok = False
    if pi is not None:
        n, e = pfind("for X_r, X_p in zip(cycle(X_idx), %s):\n    yield X_p[X_r::2, :, :]" % pi.args.args[2].arg, pi)
        ok = n is not None and len(_yields(pi)) == 1 and pfind("%s = [0, 1] if %s['top_field_first'] else [1, 0]" % (e["X_idx"], pi.args.args[0].arg), pi)[0] is not None
    res.check(ok, "C22.b", "interlace:one-field-per-frame-alternating", "%s:progressive_to_interlaced" % m.rel, "one field (every second row, starting row alternating from the first field's) must be yielded per source frame", by="one yield per frame; rows r::2 with r cycling over the field order")
    ps = m.funcs.get("progressive_to_split_fields")
    ok = False
    if ps is not None:
        n, e = pfind("for X_p in %s:\n    for X_r in X_idx:\n        yield X_p[X_r::2, :, :]" % ps.args.args[2].arg, ps)
        ok = n is not None and len(_yields(ps)) == 1 and pfind("%s = [0, 1] if %s['top_field_first'] else [1, 0]" % (e["X_idx"], ps.args.args[0].arg), ps)[0] is not None
    res.check(ok, "C22.b", "split:two-fields-per-frame", "%s:progressive_to_split_fields" % m.rel, "both fields of every source frame must be yielded, in field order", by="two yields per frame")
    il = m.funcs.get("interleave_fields")
    ok = False
    if il is not None:
        n, e = pfind("X_it = iter(%s)" % il.args.args[2].arg, il)
        if n is not None:
            lp = pfind("for X_pair in zip(%s, %s):\n    STMTS_" % (e["X_it"], e["X_it"]), il)[0]
            ok = lp is not None and len(_yields(il)) == 1 and pfind("E_a[0::2, :, :] = X_top", lp)[0] is not None and pfind("E_a[1::2, :, :] = X_bottom", lp)[0] is not None
    res.check(ok, "C22.b", "pair:two-fields-per-picture", "%s:interleave_fields" % m.rel, "consecutive field pairs must be woven into one frame each (even rows from the top field, odd rows from the bottom field)", by="zip(it, it): one frame per two fields")


def rule_c(res, m):
    # decorated generators
    piped = []
    for f in m.tree.body:
        if isinstance(f, ast.FunctionDef) and f.decorator_list:
            decs = [(dotted(d.func), [dotted(a) for a in d.args]) for d in f.decorator_list if isinstance(d, ast.Call)]
            if decs and all(d[0] == "pipe" for d in decs):
                piped.append((f, [d[1][0] for d in decs]))
    if len(piped) < 3:
        raise AnalysisError("picture_generators: @pipe-decorated generators not found")
    for f, chain in piped:
        where = "%s:%s" % (m.rel, f.name)
        res.check(chain == ["xyz_to_native", "progressive_to_pictures"], "C22.d", "%s:pipe-order" % f.name, where, "decorators must be @pipe(xyz_to_native) over @pipe(progressive_to_pictures): frames are first turned into pictures, then converted and numbered (found %s)" % chain, by="xyz_to_native(progressive_to_pictures(generator))")
        ys = _yields(f)
        vp = f.args.args[0].arg
        # shape 1: `yield X` followed by `if source_sampling == interlaced: yield X` (per frame)
        doubled = None
        for y in ys:
            st = y
            while not isinstance(st, ast.stmt):
                st = st._parent
            blk_owner = st._parent
            for field in ("body", "orelse"):
                blk = getattr(blk_owner, field, None)
                if isinstance(blk, list) and st in blk:
                    i = blk.index(st)
                    nxt = blk[i + 1] if i + 1 < len(blk) else None
                    if isinstance(nxt, ast.If) and not nxt.orelse and norm(nxt.test) == "%s['source_sampling'] == SourceSamplingModes.interlaced" % vp and len(nxt.body) == 1 and isinstance(nxt.body[0], ast.Expr) and isinstance(nxt.body[0].value, ast.Yield) and norm(nxt.body[0].value.value) == norm(y.value):
                        doubled = True
        # shape 2: loop over frames_to_samples(video_parameters, n)[0]
        via_samples = False
        n, e = pfind("X_n, X_r = frames_to_samples(%s, E_k)" % vp, f)
        if n is not None:
            via_samples = any(isinstance(l, ast.For) and e["X_n"] in norm(l.iter) and any(isinstance(x, ast.Yield) for x in ast.walk(l)) for l in ast.walk(f)) and len(ys) == 1
        res.check(bool(doubled) and len(ys) == 2 or via_samples, "C22.c", "%s:even-for-interlaced-sources" % f.name, where, "%s must yield each source frame twice exactly when the source is interlaced (or draw its frame count from frames_to_samples): otherwise an interlaced source gives an odd number of fields, or its last frame is dropped by the pairing into frames" % f.name, by="second yield under source_sampling == interlaced" if doubled else "frame count from frames_to_samples")
        first_uncond = bool(ys) and (ys[0]._parent._parent is f or via_samples or any(isinstance(l, ast.For) for l in f.body))
        res.check(first_uncond, "C22.d", "%s:at-least-one" % f.name, where, "the first yield must be unconditional", by="unconditional first yield")
    fs = m.funcs.get("frames_to_samples")
    ok = False
    if fs is not None:
        vp, fr = [a.arg for a in fs.args.args[:2]]
        ok = pfind("if %s['source_sampling'] == SourceSamplingModes.interlaced:\n    X_r = 2\nelse:\n    X_r = 1" % vp, fs)[0] is not None and pfind("X_n = %s * X_r" % fr, fs)[0] is not None
    res.check(ok, "C22.c", "frames_to_samples:doubles-for-interlaced", "%s:frames_to_samples" % m.rel, "the number of source samples must be twice the number of frames exactly for interlaced sources", by="frames * (2 if interlaced else 1)")
    # self-contained generators
    mg = m.funcs.get("mid_gray")
    ys = _yields(mg) if mg is not None else []
    ok = False
    if len(ys) == 2:
        st = ys[1]
        while not isinstance(st, ast.stmt):
            st = st._parent
        p = st._parent
        ok = isinstance(p, ast.If) and not p.orelse and norm(p.test) == "%s == PictureCodingModes.pictures_are_fields" % mg.args.args[1].arg and ys[0]._parent._parent is mg
    res.check(ok, "C22.c", "mid_gray:second-picture-iff-fields", "%s:mid_gray" % m.rel, "mid_gray must yield one picture, and a second one exactly when pictures are fields", by="second yield under pictures_are_fields")
    wn = m.funcs.get("white_noise")
    ok = False
    if wn is not None:
        pcm, nf = wn.args.args[1].arg, wn.args.args[2].arg
        ok = pfind("if %s == PictureCodingModes.pictures_are_fields:\n    X_n = %s * 2\nelse:\n    X_n = %s" % (pcm, nf, nf), wn)[0] is not None
        n, e = pfind("for X_i in range(X_n):\n    STMTS_", wn)
        ok = ok and n is not None
    res.check(ok, "C22.c", "white_noise:doubled-iff-fields", "%s:white_noise" % m.rel, "white_noise must produce num_frames pictures, doubled exactly when pictures are fields", by="num_frames * 2 under pictures_are_fields")
    for g in ("mid_gray", "white_noise"):
        f = m.funcs.get(g)
        res.check(f is not None and not f.decorator_list, "C22.d", "%s:self-contained" % g, "%s:%s" % (m.rel, g), "%s builds native pictures itself and must not be piped through the frame->picture conversion" % g, by="no @pipe")


def _single_def(fn, name):
    ds = [n for n in ast.walk(fn) if isinstance(n, ast.Assign) and any(isinstance(t, ast.Name) and t.id == name for t in n.targets)]
    others = [n for n in ast.walk(fn) if isinstance(n, (ast.AugAssign, ast.For, ast.With, ast.NamedExpr)) and any(isinstance(x, ast.Name) and x.id == name and isinstance(x.ctx, ast.Store) for x in ast.walk(n.target if hasattr(n, "target") else n) if not isinstance(n, ast.With))]
    if len(ds) == 1 and not others and len(ds[0].targets) == 1:
        return ds[0].value
    return None


def rule_e(res, repo, m):
    cc = repo.mod("color_conversion")
    # from_xyz: the three returned components
    fn = cc.funcs.get("from_xyz")
    if fn is None:
        raise AnalysisError("anchor vanished: color_conversion.from_xyz")
    where = "%s:from_xyz" % cc.rel
    vp = fn.args.args[1].arg
    rets = [r for r in ast.walk(fn) if isinstance(r, ast.Return)]
    ok = len(rets) == 1 and isinstance(rets[0].value, ast.Tuple) and len(rets[0].value.elts) == 3
    res.check(ok, "C22.e", "from_xyz:returns-three-components", where, "from_xyz must have one return of a (Y, C1, C2) tuple", by="single return of a 3-tuple")
    if ok:
        want = [("luma_offset", "luma_excursion"), ("color_diff_offset", "color_diff_excursion"), ("color_diff_offset", "color_diff_excursion")]
        for i, (elt, (wo, we)) in enumerate(zip(rets[0].value.elts, want)):
            comp = ("Y", "C1", "C2")[i]
            v = elt
            if isinstance(v, ast.Name):
                v = _single_def(fn, v.id)
            e = pmatch("float_to_int_clipped(E_a, %s['%s'], %s['%s'])" % (vp, wo, vp, we), v) if v is not None else None
            res.check(e is not None, "C22.e", "from_xyz:%s:clipped-with-own-range" % comp, where, "the %s component returned must be float_to_int_clipped(<samples>, %s[%r], %s[%r]) with nothing applied afterwards (found %s)" % (comp, vp, wo, vp, we, short(v, 80) if v is not None else "a name with several definitions"), by="float_to_int_clipped(..., %s, %s)" % (wo, we))
    # float_to_int_clipped: clip(float_to_int(a, offset, excursion), 0, 2**intlog2(excursion+1) - 1)
    fn = cc.funcs.get("float_to_int_clipped")
    if fn is None:
        raise AnalysisError("anchor vanished: color_conversion.float_to_int_clipped")
    where = "%s:float_to_int_clipped" % cc.rel
    a, off, exc = [x.arg for x in fn.args.args[:3]]
    rets = [r for r in ast.walk(fn) if isinstance(r, ast.Return)]
    body = [s for s in fn.body if not (isinstance(s, ast.Expr) and isinstance(s.value, ast.Constant))]
    ok = False
    found = ""
    if len(rets) == 1 and rets[0] is body[-1]:
        e = pmatch("np.clip(E_v, 0, E_hi)", rets[0].value)
        if e is not None:
            v, hi = rets[0].value.args[0], rets[0].value.args[2]
            hi_ok = norm(hi) in (norm(ast.parse("(2 ** (intlog2(%s + 1))) - 1" % exc).body[0].value), norm(ast.parse("(1 << intlog2(%s + 1)) - 1" % exc).body[0].value))
            conv = "float_to_int(%s, %s, %s)" % (a, off, exc)
            if len(body) == 1:
                v_ok = pmatch(conv, v) is not None
            else:
                v_ok = len(body) == 2 and isinstance(v, ast.Name) and pmatch("%s = %s" % (v.id, conv), body[0]) is not None
            ok = hi_ok and v_ok
            found = "value %s, upper bound %s" % (short(v, 40), short(hi, 60))
    res.check(ok, "C22.e", "float_to_int_clipped:clip-to-depth", where, "float_to_int_clipped must return np.clip(float_to_int(a, offset, excursion), 0, 2**intlog2(excursion+1) - 1) (%s)" % (found or "shape not recognised"), by="np.clip(float_to_int(...), 0, 2**intlog2(excursion+1)-1)")
    # the depth the decoder/dimensions use comes from the same expression of the excursion
    vd = repo.mod("pseudocode.video_parameters").funcs.get("video_depth")
    if vd is None:
        raise AnalysisError("anchor vanished: pseudocode.video_parameters.video_depth")
    sp, vpn = [x.arg for x in vd.args.args[:2]]
    d_ok = all(pfind("%s['%s_depth'] = intlog2(%s['%s_excursion'] + 1)" % (sp, k, vpn, k), vd)[0] is not None for k in ("luma", "color_diff"))
    res.check(d_ok and repo.is_pinned_function(vd), "C22.e", "video_depth:same-formula", "pseudocode/video_parameters.py:video_depth", "the component depth must be intlog2(excursion + 1) (pinned) - the clip bound of float_to_int_clipped is 2**that - 1", by="depth = intlog2(excursion + 1), pinned")
    # float_to_int: round, then integer dtype, last
    fn = cc.funcs.get("float_to_int")
    if fn is None:
        raise AnalysisError("anchor vanished: color_conversion.float_to_int")
    rets = [r for r in ast.walk(fn) if isinstance(r, ast.Return)]
    ok = False
    if len(rets) == 1:
        v = rets[0].value
        last = None
        if isinstance(v, ast.Name):
            asg = [s for s in fn.body if isinstance(s, ast.Assign) and isinstance(s.targets[0], ast.Name) and s.targets[0].id == v.id]
            if asg and fn.body.index(asg[-1]) == len(fn.body) - 2:
                last = asg[-1].value
        else:
            last = v
        ok = last is not None and pmatch("np.round(E_x).astype(int)", last) is not None
    res.check(ok, "C22.e", "float_to_int:round-then-int-last", "%s:float_to_int" % cc.rel, "the value float_to_int returns must be np.round(...).astype(int), computed last", by="np.round(...).astype(int) is the returned value")
    # xyz_to_native: the three components of from_xyz go out under their own keys via tolist()
    fn = m.funcs["xyz_to_native"]
    where = "%s:xyz_to_native" % m.rel
    n, e = pfind("X_y, X_c1, X_c2 = from_xyz(E_p, E_vp)", fn)
    ok = False
    if n is not None:
        ys = [y for y in _yields(fn) if isinstance(y, ast.Yield) and isinstance(y.value, ast.Dict)]
        if len(ys) == 1:
            d = dict((const_str(k), v) for k, v in zip(ys[0].value.keys, ys[0].value.values))
            ok = all(k in d and pmatch("%s.tolist()" % e[x], d[k]) is not None for k, x in (("Y", "X_y"), ("C1", "X_c1"), ("C2", "X_c2")))
    res.check(ok, "C22.e", "xyz_to_native:components-under-own-keys", where, "xyz_to_native must emit from_xyz's (y, c1, c2) as Y/C1/C2 unchanged (tolist())", by="Y, C1, C2 = from_xyz(...) emitted via tolist()")
    # mid_gray: each component is np.full((dd[K].height, dd[K].width), 1 << (dd[K].depth_bits - 1)) emitted under K
    fn = m.funcs.get("mid_gray")
    where = "%s:mid_gray" % m.rel
    ddn = None
    n, e = pfind("X_dd = compute_dimensions_and_depths(E_vp, E_pcm)", fn)
    if n is not None:
        ddn = e["X_dd"]
    for y_i, y in enumerate([y for y in _yields(fn) if isinstance(y.value, ast.Dict)]):
        d = dict((const_str(k), v) for k, v in zip(y.value.keys, y.value.values))
        for k in ("Y", "C1", "C2"):
            v = d.get(k)
            ok = False
            if v is not None and ddn:
                e2 = pmatch("X_a.tolist()", v)
                src = _single_def(fn, e2["X_a"]) if e2 else None
                ok = src is not None and pmatch("np.full((%s['%s'].height, %s['%s'].width), 1 << (%s['%s'].depth_bits - 1))" % (ddn, k, ddn, k, ddn, k), src) is not None
            res.check(ok, "C22.e", "mid_gray:yield%d:%s:own-shape-and-depth" % (y_i, k), where, "component %s of mid_gray must be np.full((dd[%r].height, dd[%r].width), 1 << (dd[%r].depth_bits - 1)).tolist()" % (k, k, k, k), by="shape and mid value from dd[%r]" % k)
    # white_noise: randint(0, 1 << dd[c].depth_bits, (dd[c].height, dd[c].width)) stored under c
    fn = m.funcs.get("white_noise")
    where = "%s:white_noise" % m.rel
    n, e = pfind("X_dd = compute_dimensions_and_depths(E_vp, E_pcm)", fn)
    ok = False
    if n is not None:
        ddn = e["X_dd"]
        for loop in ast.walk(fn):
            if isinstance(loop, ast.For) and isinstance(loop.target, ast.Name) and isinstance(loop.iter, (ast.List, ast.Tuple)) and [const_str(x) for x in loop.iter.elts] == ["Y", "C1", "C2"]:
                c = loop.target.id
                stores = [s for s in ast.walk(loop) if isinstance(s, ast.Assign) and isinstance(s.targets[0], ast.Subscript)]
                if len(stores) == 1:
                    st = stores[0]
                    call = st.value.func.value if isinstance(st.value, ast.Call) and isinstance(st.value.func, ast.Attribute) and st.value.func.attr == "tolist" else None
                    if isinstance(call, ast.Call) and isinstance(call.func, ast.Attribute) and call.func.attr == "randint" and len(call.args) == 3 and all(k.arg == "dtype" for k in call.keywords):
                        ok = (
                            pmatch("X_pic[%s]" % c, st.targets[0]) is not None
                            and pmatch("0", call.args[0]) is not None
                            and pmatch("1 << %s[%s].depth_bits" % (ddn, c), call.args[1]) is not None
                            and pmatch("(%s[%s].height, %s[%s].width)" % (ddn, c, ddn, c), call.args[2]) is not None
                        )
    res.check(ok, "C22.e", "white_noise:own-shape-and-depth", where, "every component of white_noise must be randint(0, 1 << dd[c].depth_bits, (dd[c].height, dd[c].width)).tolist() for c in Y, C1, C2", by="half-open range [0, 1 << depth) and shape from dd[c]")


def rule_f(res, m):
    def own_nodes(loop):
        """nodes of the loop, not descending into nested function definitions"""
        stack = list(loop.body) + list(loop.orelse)
        while stack:
            n = stack.pop()
            if isinstance(n, (ast.FunctionDef, ast.Lambda)):
                continue
            yield n
            stack.extend(ast.iter_child_nodes(n))

    def yields_every_iteration(loop):
        for s in loop.body:
            if isinstance(s, ast.Expr) and isinstance(s.value, (ast.Yield, ast.YieldFrom)):
                return True
            if isinstance(s, ast.For) and yields_every_iteration(s):
                return True
        return False

    n = 0
    for fn in [f for f in ast.walk(m.tree) if isinstance(f, ast.FunctionDef)]:
        k = 0
        for loop in [l for l in ast.walk(fn) if isinstance(l, (ast.For, ast.While))]:
            # only loops of this function itself
            if not any(isinstance(x, (ast.Yield, ast.YieldFrom)) for x in own_nodes(loop)):
                continue
            owner = loop
            inner_def = False
            p = getattr(loop, "_parent", None)
            while p is not None and p is not fn:
                if isinstance(p, ast.FunctionDef):
                    inner_def = True
                p = getattr(p, "_parent", None)
            if inner_def:
                continue
            k += 1
            n += 1
            jumps = [x for x in own_nodes(loop) if isinstance(x, (ast.Break, ast.Continue, ast.Return))]
            ok = not jumps and yields_every_iteration(loop) and not loop.orelse
            res.check(ok, "C22.f", "%s:loop%d:yields-every-iteration" % (fn.name, k), "%s:%s" % (m.rel, fn.name), "the loop over `%s` must yield on every iteration (yield at the top level of its body, no break/continue/return%s): otherwise fewer pictures than counted are produced, e.g. an odd number of fields" % (short(loop.iter if isinstance(loop, ast.For) else loop.test, 50), "; found %s at line %d" % (type(jumps[0]).__name__.lower(), jumps[0].lineno) if jumps else ""), by="unconditional yield, no early exit")
    return n


def rule_g(res, m):
    def key_of(fn, name, vp):
        v = _single_def(fn, name)
        if isinstance(v, ast.Subscript) and dotted(v.value) == vp:
            return const_str(v.slice)
        return None

    for gname in ("static_sprite", "moving_sprite"):
        fn = m.funcs.get(gname)
        if fn is None:
            raise AnalysisError("anchor vanished: picture_generators.%s" % gname)
        vp = fn.args.args[0].arg
        ys = [y for y in _yields(fn) if isinstance(y, ast.Yield)]
        names = set(dotted(y.value) for y in ys)
        ok = False
        if len(names) == 1 and None not in names:
            pic = names.pop()
            defs = [a.value for a in ast.walk(fn) if isinstance(a, ast.Assign) and any(isinstance(t, ast.Name) and t.id == pic for t in a.targets)]
            if len(defs) == 1:
                e = pmatch("np.zeros((X_h, X_w, 3))", defs[0])
                ok = e is not None and key_of(fn, e["X_h"], vp) == "frame_height" and key_of(fn, e["X_w"], vp) == "frame_width"
        res.check(ok, "C22.g", "%s:frame-allocated-at-configured-size" % gname, "%s:%s" % (m.rel, gname), "%s must yield the array it allocated as np.zeros((frame_height, frame_width, 3)) with both taken from video_parameters' own entries" % gname, by="np.zeros((vp['frame_height'], vp['frame_width'], 3))")
    fn = m.funcs.get("linear_ramps")
    if fn is None:
        raise AnalysisError("anchor vanished: picture_generators.linear_ramps")
    vp = fn.args.args[0].arg
    where = "%s:linear_ramps" % m.rel
    ys = [y for y in _yields(fn) if isinstance(y, ast.Yield)]
    names = set(dotted(y.value) for y in ys)
    ok = False
    found = ""
    if len(names) == 1 and None not in names:
        frame = _single_def(fn, names.pop())
        e = pmatch("np.repeat(X_src, E_k, axis=0)[:X_h, :, :]", frame) if frame is not None else None
        if e is not None and key_of(fn, e["X_h"], vp) == "frame_height":
            h = e["X_h"]
            k = frame.value.args[1]
            if isinstance(k, ast.Name):
                k = _single_def(fn, k.id) or k
            # N: rows of the ramp array the source derives from
            n_rows = None
            for a in ast.walk(fn):
                if isinstance(a, ast.Assign) and isinstance(a.value, ast.Call) and dotted(a.value.func) == "np.zeros" and a.value.args and isinstance(a.value.args[0], ast.Tuple) and len(a.value.args[0].elts) == 3 and isinstance(a.value.args[0].elts[0], ast.Constant):
                    n_rows = a.value.args[0].elts[0].value
                    w_ok = key_of(fn, dotted(a.value.args[0].elts[1]) or "", vp) == "frame_width"
            if isinstance(n_rows, int) and n_rows > 0:
                forms = ["(%s + %d) // %d" % (h, n_rows - 1, n_rows), "(%d + %s) // %d" % (n_rows - 1, h, n_rows), "-(-%s // %d)" % (h, n_rows), "(%s - 1) // %d + 1" % (h, n_rows), "1 + (%s - 1) // %d" % (h, n_rows)]
                ok = w_ok and norm(k) in [norm(ast.parse(f).body[0].value) for f in forms]
                found = "repeat count %s for %d ramp rows" % (short(k, 40), n_rows)
    res.check(ok, "C22.g", "linear_ramps:bands-cover-the-frame", where, "linear_ramps must repeat its N ramp rows ceil(frame_height / N) times (e.g. (height + N - 1) // N) before cropping to frame_height rows, with the ramps frame_width wide (%s): a smaller count leaves the frame short for heights that N does not divide" % (found or "shape not recognised"), by="np.repeat(ramps, ceil(height / N), axis=0)[:height]")


def _kills(d, call, names):
    """the plain assignment d reaches `call` on every path: it is a statement of a block that (transitively) contains the
    call, or one arm of an if/else both of whose arms assign the name and which is such a statement"""

    def holds(stmt):
        blk = getattr(stmt, "_parent", None)
        for field in ("body", "orelse", "finalbody"):
            b = getattr(blk, field, None)
            if isinstance(b, list) and stmt in b:
                return any(call is x for later in b[b.index(stmt) + 1 :] for x in ast.walk(later))
        return False

    if holds(d):
        return True
    par = getattr(d, "_parent", None)
    if isinstance(par, ast.If) and d in par.body + par.orelse:
        both = all(any(isinstance(x, ast.Assign) and any(dotted(t) in names for t in x.targets) for x in arm) for arm in (par.body, par.orelse))
        return both and holds(par)
    return False


def rule_subsample(repo, res):
    """C22.e (coded size of the colour-difference components): from_444 decides what to do from the sampling format
    alone -- each arm of its chain tests `subsampling == <one format>` and nothing else -- returns its input only for
    4:4:4, halves the width (shape (h, w // 2)) for 4:2:2 and both (h // 2, w // 2) for 4:2:0"""
    cm, fn = repo.func("color_conversion:from_444")
    ch, sp = [a.arg for a in fn.args.args[:2]]
    where = "%s:from_444" % cm.rel
    chain = [s for s in fn.body if isinstance(s, ast.If)]
    arms = []
    node = chain[0] if len(chain) == 1 else None
    while node is not None:
        arms.append(node)
        node = node.orelse[0] if len(node.orelse) == 1 and isinstance(node.orelse[0], ast.If) else None
    want = {"color_4_4_4": None, "color_4_2_2": "(h, w // 2)", "color_4_2_0": "(h // 2, w // 2)"}
    seen = {}
    for a in arms:
        t = a.test
        fmt = None
        if isinstance(t, ast.Compare) and len(t.ops) == 1 and isinstance(t.ops[0], ast.Eq) and dotted(t.left) == sp:
            fmt = dotted(t.comparators[0]).split(".")[-1]
        if fmt not in want:
            res.check(False, "C22.e", "from_444:arm(%s)" % short(t, 50), where, "an arm of from_444 is selected by `%s`, not by the sampling format alone: pictures of some size then keep (or lose) colour-difference samples the coded size does not have" % short(t, 70), by="subsampling == <format>")
            continue
        if want[fmt] is None:
            ok = len(a.body) == 1 and isinstance(a.body[0], ast.Return) and dotted(a.body[0].value) == ch
        else:
            shapes = [norm(c.args[0]) for b in a.body for c in ast.walk(b) if isinstance(c, ast.Call) and dotted(c.func) in ("np.empty", "np.zeros") and c.args]
            unp = any(isinstance(x, ast.Assign) and norm(x.targets[0]) in ("(h, w)", "h, w") and norm(x.value) == "%s.shape" % ch for x in a.body)
            rets = [r for b in a.body for r in ast.walk(b) if isinstance(r, ast.Return)]
            ok = unp and shapes == [want[fmt]] and len(rets) == 1
        seen[fmt] = ok
        res.check(ok, "C22.e", "from_444:%s" % fmt, where, "the %s arm must %s" % (fmt, "return its input unchanged" if want[fmt] is None else "allocate its result with shape %s from h, w = %s.shape" % (want[fmt], ch)), by="shape %s" % (want[fmt] or "unchanged"))
    res.check(set(seen) == set(want), "C22.e", "from_444:every-format-has-an-arm", where, "from_444 must have one arm per sampling format (found %s)" % sorted(seen), by="4:4:4, 4:2:2, 4:2:0")


def rule_resize(res, m):
    """C22.h: a size handed to resize() (PIL refuses 0) must not be the result of rounding a quotient *down* unless it is
    clamped to at least 1 afterwards: a floor quotient of positive quantities is 0 as soon as the divisor exceeds the
    dividend (pixel aspect ratios wider than the sprite)"""
    res.rule("C22.h", "resampled sizes are positive: every width/height argument of the module's resize() is either taken unchanged from a size, rounded *up* (ceil), or clamped with max(1, ...); none is the result of a floor division (// or //=) of quantities the format controls")
    n_calls = 0
    for fn in m.funcs.values():
        for c in ast.walk(fn):
            if not (isinstance(c, ast.Call) and dotted(c.func) == "resize" and len(c.args) == 3):
                continue
            n_calls += 1
            for label, a in (("width", c.args[1]), ("height", c.args[2])):
                names = {x.id for x in ast.walk(a) if isinstance(x, ast.Name)}
                floors, clamped = [], False
                for d in ast.walk(fn):
                    if getattr(d, "lineno", 0) > c.lineno:
                        continue
                    if isinstance(d, ast.AugAssign) and dotted(d.target) in names:
                        if isinstance(d.op, ast.FloorDiv):
                            floors.append(d)
                            clamped = False
                    elif isinstance(d, ast.Assign) and any(dotted(t) in names for t in d.targets):
                        v = d.value
                        if isinstance(v, ast.Call) and dotted(v.func) == "max" and any(isinstance(x, ast.Constant) and isinstance(x.value, int) and x.value >= 1 for x in v.args):
                            clamped = True
                        elif any(isinstance(x, ast.BinOp) and isinstance(x.op, ast.FloorDiv) for x in ast.walk(v)) or (isinstance(v, ast.Call) and dotted(v.func) == "int" and "ceil" not in norm(v) and any(isinstance(x, ast.BinOp) and isinstance(x.op, ast.Div) for x in ast.walk(v))):
                            floors.append(d)
                            clamped = False
                        elif _kills(d, c, names):
                            floors, clamped = [], False
                direct = any(isinstance(x, ast.BinOp) and isinstance(x.op, ast.FloorDiv) for x in ast.walk(a))
                bad = (floors and not clamped) or direct
                res.check(not bad, "C22.h", "%s:resize-%s-at-least-one" % (fn.name, label), "%s:%s" % (m.rel, fn.name), "the %s handed to resize() is rounded down (%s) and never clamped to at least 1: it is 0 when the divisor exceeds the dividend, PIL raises ValueError and the generator yields no picture" % (label, "; ".join(short(f, 60) for f in floors) or short(a, 60)), by="unchanged size, ceil, or max(1, ...)")
    res.floor("C22.h", 4)


def rule_axes(res, m):
    """sprite generators: in every picture[..] / sprite[..] subscript of the blit, the first (row) axis is bounded only
    by quantities derived from the frame height and the sprite array's shape[0], the second (column) axis only by the
    frame width, shape[1] and the horizontal position -- a height used for columns (or the reverse) only shows for
    non-square sprites, i.e. non-square pixel aspect ratios"""
    for gname in ("static_sprite", "moving_sprite"):
        fn = m.funcs.get(gname)
        vp = fn.args.args[0].arg
        where = "%s:%s" % (m.rel, gname)
        roots = {}

        def add(name, rs):
            roots.setdefault(name, set()).update(rs)

        def roots_of(e):
            out = set()
            for x in ast.walk(e):
                if isinstance(x, ast.Name) and x.id in roots:
                    out |= roots[x.id]
            return out

        # seeds: frame sizes and the unpacked shape of the sprite array
        changed = True
        seeded = False
        for a in ast.walk(fn):
            if isinstance(a, ast.Assign) and isinstance(a.targets[0], ast.Name) and isinstance(a.value, ast.Subscript) and dotted(a.value.value) == vp and const_str(a.value.slice) in ("frame_width", "frame_height"):
                add(a.targets[0].id, {"W" if const_str(a.value.slice) == "frame_width" else "H"})
            if isinstance(a, ast.Assign) and isinstance(a.targets[0], ast.Tuple):
                v = a.value
                base = v.value if isinstance(v, ast.Subscript) else v
                if isinstance(base, ast.Attribute) and base.attr == "shape":
                    for i, t in enumerate(a.targets[0].elts[:2]):
                        if isinstance(t, ast.Name):
                            add(t.id, {"H" if i == 0 else "W"})
                            seeded = True
        # horizontal position: loop targets of moving_sprite
        for l in ast.walk(fn):
            if isinstance(l, ast.For) and isinstance(l.target, ast.Name):
                add(l.target.id, {"W"})
        for _ in range(6):
            for a in ast.walk(fn):
                if isinstance(a, ast.Assign) and isinstance(a.targets[0], ast.Name) and not (isinstance(a.value, ast.Subscript) and dotted(a.value.value) == vp):
                    add(a.targets[0].id, roots_of(a.value))
                elif isinstance(a, ast.AugAssign) and isinstance(a.target, ast.Name):
                    add(a.target.id, roots_of(a.value))
        bad = []
        n_sub = 0
        for sub in ast.walk(fn):
            if isinstance(sub, ast.Subscript) and isinstance(sub.slice, ast.Tuple) and len(sub.slice.elts) == 3 and dotted(sub.value) in ("picture", "sprite"):
                n_sub += 1
                r0, r1 = roots_of(sub.slice.elts[0]), roots_of(sub.slice.elts[1])
                if "W" in r0:
                    bad.append("row bounds of `%s` derive from a width" % short(sub, 50))
                if "H" in r1:
                    bad.append("column bounds of `%s` derive from a height" % short(sub, 50))
        res.check(seeded and n_sub >= 2 and not bad, "C22.g", "%s:blit-axes" % gname, where, "the sprite is copied with mixed-up axes (%s): the crop then exceeds one of the arrays whenever the sprite is not square (non-square pixel aspect ratios), and the generator yields nothing" % ("; ".join(bad) or "shape unpacking / blit not recognised"), by="rows bounded by heights, columns by widths and the horizontal position")
