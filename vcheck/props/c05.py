"""C05 Decoder test cases are conformant and decode to their intended pictures
(structural part).

Acceptance by the validator and equality of decoded pictures are behaviour.
The statement singles out the generators that "vary only how content is
encoded"; for those the necessary condition visible in the code is a
who-may-write rule: the bitstream fields such a generator (and the helpers it
calls) stores into are encoding fields, never content fields, except where the
stored value is demonstrably the configured one.  Name uniqueness is decided as
in C24.e, plus distinctness of literal sub-case names within a generator.
"""
import ast

from ..core import AnalysisError, const_str, dotted, norm, short, subscript_key
from ..report import Result

PKG = "vc2_conformance.test_cases.decoder."

# bitstream fields that determine the decoded pictures (not how they are coded)
CONTENT = {
    "y_transform", "c_transform", "c1_transform", "c2_transform", "qindex", "quant_matrix", "custom_quant_matrix",
    "wavelet_index", "wavelet_index_ho", "dwt_depth", "dwt_depth_ho", "slices_x", "slices_y", "slice_bytes_numerator",
    "slice_bytes_denominator", "picture_number", "parse_code", "base_video_format", "picture_coding_mode", "profile",
    "frame_width", "frame_height", "color_diff_format_index", "source_sampling", "top_field_first", "frame_rate_numer",
    "frame_rate_denom", "pixel_aspect_ratio_numer", "pixel_aspect_ratio_denom", "clean_width", "clean_height", "left_offset",
    "top_offset", "luma_offset", "luma_excursion", "color_diff_offset", "color_diff_excursion", "color_primaries_index",
    "color_matrix_index", "transfer_function_index", "video_parameters", "frame_size", "signal_range", "color_spec",
    "transform_data", "transform_parameters", "wavelet_transform", "picture_parse", "fragment_parse", "hq_slices", "ld_slices",
    "fragment_slice_count", "fragment_x_offset", "fragment_y_offset", "picture_header", "fragment_header", "data_units",
}

# the generators the statement lists as varying only the encoding -> fields they are expected to store into
ENCODING_ONLY = {
    "padding_data": "padding units",
    "slice_padding_data": "slice padding bits",
    "slice_prefix_bytes": "slice prefix bytes",
    "source_parameters_encodings": "alternatively encoded sequence headers",
    "repeated_sequence_headers": "repeated sequence headers",
    "extended_transform_parameters": "extended transform flags",
    "slice_size_scaler": "slice size scaler",
    "absent_next_parse_offset": "absent next parse offsets",
    "concatenated_sequences": "concatenated sequences",
}

# (generator, content field) -> provenance requirement, checked structurally below
SANCTIONED = {
    ("source_parameters_encodings", "sequence_header"): "the replacement headers are the results of iter_sequence_headers(codec_features): same format, other encoding (C15)",
    ("extended_transform_parameters", "wavelet_index_ho"): "set to codec_features['wavelet_index_ho'] together with the flag that makes it explicit",
    ("extended_transform_parameters", "dwt_depth_ho"): "set to codec_features['dwt_depth_ho'] together with the flag that makes it explicit",
}


class Effects(object):
    """transitive field-store effects of a function within the test_cases package"""

    def __init__(self, repo):
        self.repo = repo
        self.memo = {}

    def of(self, mod, fn, stack=()):
        key = (mod.name, fn.name)
        if key in self.memo:
            return self.memo[key]
        if key in stack:
            return {}
        out = {}

        def add(field, how, node):
            out.setdefault(field, []).append((how, "%s:%s:%d" % (mod.rel, fn.name, node.lineno), node))

        kwarg = fn.args.kwarg.arg if fn.args.kwarg else None
        for n in ast.walk(fn):
            tg = []
            if isinstance(n, ast.Assign):
                tg = n.targets
            elif isinstance(n, ast.AugAssign):
                tg = [n.target]
            elif isinstance(n, ast.Delete):
                tg = n.targets
            for t in tg:
                for y in ([t] if not isinstance(t, (ast.Tuple, ast.List)) else t.elts):
                    # element stores (x["field"][i] = v) mutate the field: descend through index subscripts
                    while isinstance(y, ast.Subscript) and const_str(y.slice) is None and (_is_index(y.slice) or isinstance(y.slice, ast.Slice)) and isinstance(y.value, ast.Subscript):
                        y = y.value
                    if isinstance(y, ast.Subscript):
                        k = const_str(y.slice)
                        if k is not None:
                            add(k, "store" if not isinstance(n, ast.Delete) else "delete", n)
                        elif isinstance(y.slice, ast.Call) and isinstance(y.slice.func, ast.Attribute) and y.slice.func.attr == "format" and const_str(y.slice.func.value) is not None:
                            add(const_str(y.slice.func.value), "store", n)  # template such as slice_{}_length
                        elif not isinstance(y.slice, (ast.Slice,)) and not _is_index(y.slice):
                            add("<computed key %s>" % short(y.slice, 20), "store", n)
            if isinstance(n, ast.Call) and isinstance(n.func, ast.Attribute):
                a = n.func.attr
                if a in ("setdefault", "pop") and n.args and const_str(n.args[0]) is not None and not _is_listlike(n.func.value):
                    add(const_str(n.args[0]), a, n)
                if a in ("append", "extend", "insert", "clear", "remove", "reverse", "sort") and isinstance(n.func.value, ast.Subscript) and const_str(n.func.value.slice) is not None:
                    add(const_str(n.func.value.slice), "." + a, n)
                if a == "update":
                    for k in n.keywords:
                        if k.arg is not None:
                            add(k.arg, "update", n)
                        elif kwarg and dotted(k.value) == kwarg:
                            add("**%s" % kwarg, "update", n)
                    for x in n.args:
                        if isinstance(x, ast.Dict):
                            for kk in x.keys:
                                add(const_str(kk) or "<computed key>", "update", n)
            if isinstance(n, ast.Call) and isinstance(n.func, ast.Name):
                tgt = self.repo.resolve(mod.name, n.func.id)
                if tgt is not None and getattr(tgt, "kind", None) == "func" and tgt.mod.startswith("vc2_conformance.test_cases"):
                    sub = self.of(self.repo.mod(tgt.mod), tgt.node, stack + (key,))
                    for f, sites in sub.items():
                        if f.startswith("**"):
                            # keyword names at this call site
                            for k in n.keywords:
                                if k.arg is not None:
                                    add(k.arg, "update via %s" % tgt.name, n)
                        else:
                            for how, where, node in sites:
                                out.setdefault(f, []).append((how + " in " + tgt.name, where, node))
        self.memo[key] = out
        return out


def _is_content(field):
    """field name, or a str.format template with {} placeholders, denotes (or can denote) a content field"""
    if "{" not in field:
        return field in CONTENT
    import re

    rx = re.compile("^" + ".*".join(re.escape(p) for p in re.split(r"\{[^}]*\}", field)) + "$")
    return any(rx.match(c) for c in CONTENT)


def _is_index(e):
    return isinstance(e, (ast.Constant,)) and isinstance(e.value, int) or isinstance(e, ast.Name) or isinstance(e, ast.UnaryOp) or isinstance(e, ast.BinOp)


def _is_listlike(e):
    return False


def check(repo, tier="quick"):
    res = Result("C05")
    res.explanation = (
        "Field-effect (who-may-write) analysis of the decoder test case generators that vary only the encoding: transitive store sets through "
        "their helpers, compared with the set of content-determining bitstream fields; provenance of the few content-field stores that are "
        "legitimate; distinctness of generator and literal sub-case names."
    )
    res.rule("C05.a", "an encoding-only generator (and the helpers it calls) stores into no content-determining bitstream field, except sanctioned stores whose value is demonstrably the configured one")
    res.rule("C05.b", "provenance of sanctioned content stores: replacement sequence headers come from iter_sequence_headers(codec_features); explicit wavelet_index_ho / dwt_depth_ho are codec_features' own values and the flags are literally True")
    res.rule("C05.c", "encoding-only generators build their source sequence with make_sequence from the configured codec features and a picture generator's output (no pixel values of their own)")
    res.rule("C05.e", "slice-level arithmetic of the generators: no call passes same-named coordinates/sizes to the wrong parameters (sx/sy, width/height), and no size guard is followed by a further decrement of the guarded quantity")
    res.rule("C05.f", "what surrounds the generators: the sequence header every test case carries encodes the configured video format (table, ordering and guard rules of C15.a-d and the colour-specification rule C15.g re-evaluated), and the model-answer pictures written for a decoder test case are named under the test case and numbered from 0 across all sequences of the stream (C24.d re-evaluated)")
    res.rule("C05.d", "names: generator functions are distinct (file names derive from them); literal sub-case names within one generator are distinct; every listed generator exists")

    eff = Effects(repo)
    gens = {}
    for name, m in sorted(repo.modules.items()):
        if not name.startswith(PKG):
            continue
        for f in m.tree.body:
            if isinstance(f, ast.FunctionDef) and any(dotted(d) == "decoder_test_case_generator" for d in f.decorator_list):
                gens[f.name] = (m, f)
    missing = sorted(set(ENCODING_ONLY) - set(gens))
    res.check(not missing, "C05.d", "encoding-only-generators-exist", "vc2_conformance/test_cases/decoder", "generators named in the property are missing: %s" % missing, by="%d of %d registered generators are encoding-only variants" % (len(ENCODING_ONLY), len(gens)))
    for g in sorted(ENCODING_ONLY):
        if g not in gens:
            continue
        m, f = gens[g]
        where = "%s:%s" % (m.rel, g)
        w = eff.of(m, f)
        res.info.setdefault("write_sets", {})[g] = sorted(w)
        bad = []
        for field, sites in sorted(w.items()):
            if _is_content(field) or field.startswith("<computed") or field.startswith("**"):
                if (g, field) in SANCTIONED:
                    continue
                bad.append("%s (%s)" % (field, "; ".join(sorted(set("%s at %s" % (h, wh) for h, wh, _ in sites))[:3])))
        res.check(not bad, "C05.a", "%s:stores-no-content-field" % g, where, "%s varies only %s, yet it (or a helper) stores into content field(s) %s: the decoded pictures can differ from the plain encoding of the same source" % (g, ENCODING_ONLY[g], ", ".join(bad)), by="stores only into %s" % (sorted(w) or "nothing"))
        rule_c(repo, res, g, m, f)
    rule_b(repo, res, gens, eff)
    rule_d(repo, res, gens)
    from .. import lints

    from .. import quantmatrix

    quantmatrix.rule(repo, res, "C05.e")
    rule_prefix(repo, res, gens)
    rule_field_widths(repo, res, gens)
    # the header every test case starts with encodes the configured format (C15.a-d, C15.g re-evaluated), and the
    # model answers written beside each test case are numbered and named as documented (C24.d re-evaluated)
    from . import c15 as _c15, c24 as _c24
    from .. import enc_tables as _et
    from ..report import Ob as _Ob

    _sub = Result("C15")
    _ot = _et.option_tables(repo)
    _c15.rule_a(repo, _sub, _ot)
    _c15.rule_b(repo, _sub, _ot)
    _c15.rule_c(repo, _sub, _ot)
    _c15.rule_d(repo, _sub, _ot)
    _c15.rule_colorspec(repo, _sub)
    for _o in _sub.obs:
        res._add(_Ob("C05.f", "%s/%s" % (_o.rule, _o.key), _o.where, _o.status, _o.detail, _o.by, _o.path))
    for _o in _c24.check(repo, "quick").obs:
        if _o.rule == "C24.d" and _o.key.startswith("output_decoder_test_case"):
            res._add(_Ob("C05.f", "%s/%s" % (_o.rule, _o.key), _o.where, _o.status, _o.detail, _o.by, _o.path))
    res.floor("C05.f", 50)
    lints.rule(repo, res, "C05.e", [n.split("vc2_conformance.", 1)[-1] for n in sorted(repo.modules) if n.startswith("vc2_conformance.test_cases")])
    res.floor("C05.e", 15)
    res.floor("C05.a", 9)
    res.floor("C05.b", 3)
    res.floor("C05.c", 9)
    res.floor("C05.d", 10)
    res.assumptions = [
        "validator acceptance of each test case and equality of decoded pictures are behaviour and are not decided",
        "slice length / padding arithmetic inside the slice-level generators is arithmetic on runtime values",
        "the mid-grey and picture-number clauses follow from the encoder (C03, C04) and are not decided here",
    ]
    res.trusted = ["closed list of content-determining bitstream fields (from vc2_fixeddicts)"]
    return res


def rule_b(repo, res, gens, eff):
    # source_parameters_encodings: replacement headers from iter_sequence_headers(codec_features)
    if "source_parameters_encodings" in gens:
        m, f = gens["source_parameters_encodings"]
        where = "%s:source_parameters_encodings" % m.rel
        feat = f.args.args[0].arg
        calls = [c for c in ast.walk(f) if isinstance(c, ast.Call) and dotted(c.func) == "replace_sequence_headers"]
        ok = bool(calls)
        src_ok = True
        for c in calls:
            a = c.args[1] if len(c.args) > 1 else None
            if not isinstance(a, ast.Name):
                src_ok = False
                continue
            # a is a loop variable over (a slice/list of) iter_sequence_headers(codec_features) results
            src_ok = src_ok and _flows_from_iter_headers(f, a.id, feat)
        res.check(ok and src_ok, "C05.b", "source_parameters_encodings:headers-from-iter_sequence_headers", where, "the sequence headers substituted into the stream must be results of iter_sequence_headers(%s)" % feat, by="replacement header <- iter_sequence_headers(codec_features)")
        hm, hf = repo.func("test_cases.decoder.sequence_header:replace_sequence_headers")
        stores = [n for n in ast.walk(hf) if isinstance(n, ast.Assign) and isinstance(n.targets[0], ast.Subscript) and const_str(n.targets[0].slice) == "sequence_header"]
        hp = hf.args.args[1].arg
        ok = len(stores) == 1 and (dotted(stores[0].value) == hp or (isinstance(stores[0].value, ast.Call) and dotted(stores[0].value.func) == "deepcopy" and dotted(stores[0].value.args[0]) == hp))
        guard = False
        if ok:
            p = getattr(stores[0], "_parent", None)
            guard = isinstance(p, ast.If) and "ParseCodes.sequence_header" in norm(p.test)
        res.check(ok and guard, "C05.b", "replace_sequence_headers:only-sequence-header-units", "%s:replace_sequence_headers" % hm.rel, "only the sequence_header of sequence-header data units may be replaced, by the given header", by="stored under parse_code == sequence_header")
    if "extended_transform_parameters" in gens:
        m, f = gens["extended_transform_parameters"]
        where = "%s:extended_transform_parameters" % m.rel
        feat = f.args.args[0].arg
        calls = [c for c in ast.walk(f) if isinstance(c, ast.Call) and dotted(c.func) == "update_extended_transform_parameters"]
        bad = []
        for c in calls:
            if len(c.args) != 1:
                bad.append("positional update dictionary")
            for k in c.keywords:
                if k.arg in ("asym_transform_index_flag", "asym_transform_flag"):
                    if not (isinstance(k.value, ast.Constant) and k.value.value is True):
                        bad.append("%s=%s" % (k.arg, short(k.value)))
                elif k.arg in ("wavelet_index_ho", "dwt_depth_ho"):
                    if subscript_key(k.value, feat) != k.arg:
                        bad.append("%s=%s (must be %s[%r])" % (k.arg, short(k.value), feat, k.arg))
                else:
                    bad.append("unexpected field %s" % k.arg)
            names = set(k.arg for k in c.keywords)
            if "wavelet_index_ho" in names and "asym_transform_index_flag" not in names or "dwt_depth_ho" in names and "asym_transform_flag" not in names:
                bad.append("value made explicit without its flag")
        res.check(bool(calls) and not bad, "C05.b", "extended_transform_parameters:configured-values-only", where, "the extended transform parameters written are not the configured ones: %s" % bad, by="flags True, wavelet_index_ho / dwt_depth_ho = codec_features' own values")
        um, uf = repo.func("test_cases.decoder.extended_transform_parameters:update_extended_transform_parameters")
        ups = [c for c in ast.walk(uf) if isinstance(c, ast.Call) and isinstance(c.func, ast.Attribute) and c.func.attr == "update"]
        ok = len(ups) == 1 and "extended_transform_parameters" in norm(ups[0].func.value)
        copies = any(isinstance(n, ast.Assign) and isinstance(n.value, ast.Call) and dotted(n.value.func) == "deepcopy" and dotted(n.value.args[0]) == uf.args.args[0].arg for n in uf.body)
        res.check(ok and copies, "C05.b", "update_extended_transform_parameters:only-etp-updated", "%s:update_extended_transform_parameters" % um.rel, "the helper must update only the extended_transform_parameters dictionaries of a copy of the sequence", by="deepcopy, then extended_transform_parameters.update(...)")


def _flows_from_iter_headers(fn, name, feat, depth=0):
    if depth > 4:
        return False
    for n in ast.walk(fn):
        if isinstance(n, (ast.For, ast.comprehension)):
            tn = [x.id for x in ast.walk(n.target) if isinstance(x, ast.Name)]
            if name in tn:
                if _expr_from_iter_headers(fn, n.iter, feat, depth):
                    return True
        if isinstance(n, ast.Assign) and any(isinstance(t, ast.Name) and t.id == name for t in n.targets):
            if _expr_from_iter_headers(fn, n.value, feat, depth):
                return True
    return False


def _expr_from_iter_headers(fn, e, feat, depth):
    for c in ast.walk(e):
        if isinstance(c, ast.Call) and dotted(c.func) == "iter_sequence_headers" and c.args and dotted(c.args[0]) == feat:
            return True
    for x in ast.walk(e):
        if isinstance(x, ast.Name) and isinstance(x.ctx, ast.Load) and x.id not in (feat,):
            if _flows_from_iter_headers(fn, x.id, feat, depth + 1):
                return True
    return False


def rule_c(repo, res, g, m, f):
    where = "%s:%s" % (m.rel, g)
    feat = f.args.args[0].arg
    calls = []
    for n in ast.walk(f):
        if isinstance(n, ast.Call) and dotted(n.func) == "make_sequence":
            calls.append((f, n))
    # helpers one level down (e.g. generate_test_stream)
    if not calls:
        for n in ast.walk(f):
            if isinstance(n, ast.Call) and isinstance(n.func, ast.Name):
                tgt = repo.resolve(m.name, n.func.id)
                if tgt is not None and getattr(tgt, "kind", None) == "func" and tgt.mod.startswith(PKG):
                    for c in ast.walk(tgt.node):
                        if isinstance(c, ast.Call) and dotted(c.func) == "make_sequence":
                            calls.append((tgt.node, c))
    bad = []
    for owner, c in calls:
        ofeat = owner.args.args[0].arg
        if not c.args or dotted(c.args[0]) != ofeat:
            bad.append("make_sequence called with %s instead of the configured codec features" % (short(c.args[0]) if c.args else "nothing"))
        if len(c.args) < 2:
            bad.append("no pictures argument")
            continue
        p = c.args[1]
        srcs = [dotted(x.func) for x in ast.walk(p) if isinstance(x, ast.Call)]
        if isinstance(p, ast.Name):
            ds = [a.value for a in ast.walk(owner) if isinstance(a, ast.Assign) and any(isinstance(t, ast.Name) and t.id == p.id for t in a.targets)]
            srcs = [dotted(x.func) for d in ds for x in ast.walk(d) if isinstance(x, ast.Call)]
        gens_ok = [s for s in srcs if s and repo.resolve(m.name if owner is f else m.name, s.split(".")[0]) is not None and getattr(repo.resolve(m.name, s.split(".")[0]), "mod", "").endswith("picture_generators")]
        if not gens_ok:
            bad.append("pictures `%s` do not come from vc2_conformance.picture_generators" % short(p, 40))
    res.check(bool(calls) and not bad, "C05.c", "%s:source-from-make_sequence" % g, where, "; ".join(bad) or "no make_sequence call found", by="make_sequence(codec_features, <picture generator>(...))")


def _loop_literals(fn, name):
    """literal strings a loop variable takes: for name, ... in [("a", ...), ("b", ...)]"""
    for n in ast.walk(fn):
        if isinstance(n, ast.For) and isinstance(n.iter, (ast.List, ast.Tuple)):
            tgt = n.target
            if isinstance(tgt, ast.Name) and tgt.id == name:
                vals = [const_str(e) for e in n.iter.elts]
                return vals if all(v is not None for v in vals) else None
            if isinstance(tgt, ast.Tuple):
                for i, t in enumerate(tgt.elts):
                    if isinstance(t, ast.Name) and t.id == name:
                        vals = [const_str(e.elts[i]) if isinstance(e, ast.Tuple) and len(e.elts) > i else None for e in n.iter.elts]
                        return vals if all(v is not None for v in vals) else None
    return None


def rule_d(repo, res, gens):
    names = {}
    for name, m in sorted(repo.modules.items()):
        if not name.startswith(PKG):
            continue
        for f in m.tree.body:
            if isinstance(f, ast.FunctionDef) and any(dotted(d) == "decoder_test_case_generator" for d in f.decorator_list):
                names.setdefault(f.name, []).append(m.rel)
    dup = {k: v for k, v in names.items() if len(v) > 1}
    res.check(not dup, "C05.d", "generator-names-distinct", "vc2_conformance/test_cases/decoder", "generators registered under one name: %s" % dup, by="%d distinct names" % len(names))
    for g, (m, f) in sorted(gens.items()):
        lits = []
        dyn = 0
        for c in ast.walk(f):
            if isinstance(c, ast.Call) and dotted(c.func) == "TestCase":
                sub = c.args[1] if len(c.args) > 1 else next((k.value for k in c.keywords if k.arg == "subcase_name"), None)
                if sub is None:
                    continue
                if const_str(sub) is not None:
                    lits.append(const_str(sub))
                elif isinstance(sub, ast.Name) and _loop_literals(f, sub.id) is not None:
                    lits.extend(_loop_literals(f, sub.id))
                else:
                    dyn += 1
        d = sorted(set(x for x in lits if lits.count(x) > 1))
        # the same literal used at two yield sites is a duplicate only if both can be reached in one run; sites in different branches of one if are exclusive
        res.check(not d, "C05.d", "%s:literal-subcase-names-distinct" % g, "%s:%s" % (m.rel, g), "literal sub-case name(s) %s are used by more than one TestCase(...) of %s: two test cases of one run would share a file name" % (d, g), by="%d literal, %d computed sub-case names" % (len(lits), dyn))


def rule_prefix(repo, res, gens):
    """slice_prefix_bytes: what every lossy slice gives up is the minimum coefficient space over all slices"""
    from ..core import pfind, pmatch

    if "slice_prefix_bytes" not in gens:
        return
    m, f = gens["slice_prefix_bytes"]
    where = "%s:slice_prefix_bytes" % m.rel
    ok = False
    found = "assignment of the prefix size on the lossy arm not found"
    for a in ast.walk(f):
        if isinstance(a, ast.Assign) and dotted(a.targets[0]) == "slice_prefix_bytes" and isinstance(a.value, ast.Call) and dotted(a.value.func) in ("min", "max", "sum") and a.value.args and isinstance(a.value.args[0], ast.GeneratorExp):
            g = a.value.args[0]
            found = "%s(...) over %s" % (dotted(a.value.func), short(g.generators[0].iter, 50))
            if dotted(a.value.func) != "min" or len(g.generators) != 1 or g.generators[0].ifs:
                continue
            it = g.generators[0]
            names = [dotted(x) for x in it.target.elts] if isinstance(it.target, ast.Tuple) else []
            if len(names) != 4 or not (isinstance(it.iter, ast.Call) and dotted(it.iter.func) == "iter_slices_in_sequence" and [dotted(x) for x in it.iter.args] == ["codec_features", "sequence"]):
                continue
            stv, slv = names[0], names[3]
            want = "(%(s)s['slice_y_length'] + %(s)s['slice_c1_length'] + %(s)s['slice_c2_length']) * %(t)s['slice_size_scaler']" % {"s": slv, "t": stv}
            ok = norm(g.elt) == norm(ast.parse(want).body[0].value)
    res.check(ok, "C05.e", "slice_prefix_bytes:minimum-over-all-slices", where, "on the lossy arm the number of prefix bytes must be min(...) over every slice of the sequence of (slice_y_length + slice_c1_length + slice_c2_length) * slice_size_scaler (found %s): each slice then gives up that many coefficient bytes, and any larger number drives the smaller slices' length field negative" % found, by="min over iter_slices_in_sequence(codec_features, sequence) of the coefficient bytes")


def rule_field_widths(repo, res, gens):
    """hand-set slice fields of the generators fit their bitstream fields (the serialiser rejects a value wider than the field)"""
    # (1) lossless_quantization: qindex chosen as max matrix entry + constant, stored in every HQ slice (8-bit field)
    if "lossless_quantization" in gens:
        m, f = gens["lossless_quantization"]
        q = None
        for a in ast.walk(f):
            if isinstance(a, ast.Assign) and isinstance(a.value, ast.Call) and dotted(a.value.func) == "compute_qindex_with_distinct_quant_factors" and isinstance(a.targets[0], ast.Name):
                q = a.targets[0].id
        guarded = False
        if q:
            for i in ast.walk(f):
                if isinstance(i, ast.If) and norm(i.test) in ("%s > 255" % q, "%s >= 256" % q) and any(isinstance(x, (ast.Return, ast.Raise)) for x in i.body):
                    guarded = True
        res.check(guarded, "C05.e", "lossless_quantization:qindex-fits-8-bit-field", "%s:lossless_quantization" % m.rel, "the index max(matrix entry) + MINIMUM_DISTINCT_QINDEX is stored in every slice without a check against the 8-bit qindex field: a custom quantisation matrix with an entry of 249 or more yields a test case that cannot be serialised (OutOfRangeError) instead of being skipped", by="`if qindex > 255: return None` before the stores")
    # (2) fill_ld_slice_padding: slice_y_length set to the whole data size; the field is intlog2(8n - 7) bits wide, 0 for 1-byte slices
    pm = repo.mod("test_cases.decoder.pictures")
    fn = pm.funcs.get("fill_ld_slice_padding")
    if fn is None:
        raise AnalysisError("anchor vanished: test_cases.decoder.pictures.fill_ld_slice_padding")
    guarded = False
    for i in ast.walk(fn):
        if isinstance(i, ast.If) and any(isinstance(x, (ast.Raise, ast.Return)) for x in i.body):
            t = norm(i.test)
            if "length_field_bits" in t or ("slice_data_bits" in t and ("<" in t or "==" in t)):
                guarded = True
    res.check(guarded, "C05.e", "fill_ld_slice_padding:y-length-fits-its-field", "%s:fill_ld_slice_padding" % pm.rel, "slice_y_length is set to the slice's whole data size (1 bit for a one-byte low-delay slice) although the length field is intlog2(8n - 7) bits wide, i.e. 0 bits for n = 1: for such slices the Y variants of slice_padding_data cannot be serialised; the sibling cut_off_value_at_end_of_ld_slice raises UnsatisfiableBlockSizeError in the same situation", by="guard on the field width / data size before the store")
