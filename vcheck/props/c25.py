"""C25 Validator command reports verdicts and decoded pictures faithfully
(structural part).

What the command prints and the bytes it writes are behaviour.  Decided from
the shape of BitstreamValidator: which exit status each path through run()
returns; that a conformance failure is reported (explain + located offset)
before status 2; that status 3 is produced by the generic handler only and that
the one foreign source of exceptions beneath it -- creating the picture files
named by the user's --output pattern -- is translated into a handled error; the
wiring of the output callback and the numbering of the files.
"""
import ast

from ..core import AnalysisError, class_methods, const_str, dotted, norm, short
from ..report import Result
from ..mustflow import MustFlow

SCRIPT = "scripts.vc2_bitstream_validator"
GENERIC = ("Exception", "BaseException", "<bare>")
OS_FAMILY = {"OSError", "IOError", "EnvironmentError"}
# What the builtin open() may raise for a user-chosen *str* file name in a
# writing mode (CPython): the OSError family (missing directory, permissions,
# disk) and ValueError (embedded NUL character in the name).
OPEN_RAISES = ("OSError", "ValueError")


def _self_attr(node):
    if isinstance(node, ast.Attribute) and isinstance(node.value, ast.Name) and node.value.id == "self":
        return node.attr
    return None


def _handler_names(h):
    if h.type is None:
        return ["<bare>"]
    if isinstance(h.type, ast.Tuple):
        return [dotted(e) for e in h.type.elts]
    return [dotted(h.type)]


def _catches(names, exc):
    for n in names:
        last = (n or "").split(".")[-1]
        if last in GENERIC:
            return True
        if last == exc or (exc == "OSError" and last in OS_FAMILY):
            return True
    return False


def _returns(stmts):
    return [n for s in stmts for n in ast.walk(s) if isinstance(n, ast.Return)]


def check(repo, tier="quick"):
    res = Result("C25")
    res.explanation = (
        "Must/may event flow over BitstreamValidator.run (which status each exit returns and what has happened before it), handler order, "
        "exception translation around the creation of picture files, and def-use wiring of the output callback, its counter and file_format.write."
    )
    res.rule("C25.a", "run(): every exit returns a constant status; 0 only after parse_stream returned normally; 2 only in the ConformanceError handler after the explanation was printed; 3 only in the generic handler, which comes last")
    res.rule("C25.b", "the conformance report is located: it prints explain(), the offending offset (falling back to the current read position) and the viewer hint, calling only exception methods covered by C02.6")
    res.rule("C25.c", "the validator state is created with _output_picture_callback=self._output_picture and that same state is given to init_io and parse_stream")
    res.rule("C25.d", "_output_picture numbers files from 0 in call order (counter initialised to 0, used then incremented exactly once, stored nowhere else) and passes its three arguments to file_format.write in write's parameter order; write creates the .raw/.json pair from them")
    res.rule("C25.e", "every exception the creation of a picture file may raise for a user-chosen name is translated, beneath the generic handler, into an error run() handles with its own status (never the internal-error status, never silently dropped)")
    res.rule("C25.g", "history independence of picture output: the command, file_format and the dimension/depth computation keep no state between pictures")
    res.rule("C25.h", "the command's own arithmetic and naming are total: every division in the command has a divisor that cannot be zero (a non-zero literal, `x or K`, `max(K, x)`) -- the file size of an empty input is 0 and the status line is drawn before the stream is parsed; the .json/.raw names are both formed from os.path.splitext(name)[0], which strips an extension from the last path component only")
    res.rule("C25.i", "contents of the written files: the sample, metadata and file-pair rules of the raw picture format (C23.a, C23.b, C23.c) re-evaluated -- exact-integer conversion at any depth, every byte of every sample written, metadata keys complete")
    res.rule("C25.j", "every conformance error the command reports can be explained and located (C02.6 re-evaluated: explain defined, attributes stored before use, format templates and arities agree, the level is recorded before any other level-constrained value is checked, digit limit lifted)")
    res.rule("C25.f", "main() returns run()'s status, which the entry point passes to sys.exit; output pattern is validated before use")

    m, cls = repo.cls(SCRIPT + ":BitstreamValidator")
    meth = class_methods(cls)
    for need in ("run", "_output_picture", "_print_conformance_error", "__init__"):
        if need not in meth:
            raise AnalysisError("anchor vanished: BitstreamValidator.%s" % need)
    run = meth["run"]
    where = "%s:BitstreamValidator.run" % m.rel

    # ---- locate the main try
    main_try = None
    for n in ast.walk(run):
        if isinstance(n, ast.Try) and any(isinstance(c, ast.Call) and dotted(c.func) == "parse_stream" for b in n.body for c in ast.walk(b)):
            main_try = n
    if main_try is None:
        raise AnalysisError("BitstreamValidator.run: try block around parse_stream not found")
    hnames = [_handler_names(h) for h in main_try.handlers]
    flat = [n for ns in hnames for n in ns]
    gen_idx = [i for i, ns in enumerate(hnames) if any((n or "").split(".")[-1] in GENERIC for n in ns)]
    ce_idx = [i for i, ns in enumerate(hnames) if "ConformanceError" in ns]
    ok = len(gen_idx) == 1 and gen_idx[0] == len(hnames) - 1 and len(ce_idx) == 1 and ce_idx[0] < gen_idx[0]
    res.check(ok, "C25.a", "run:handler-order", where, "handlers are %s: ConformanceError must be handled before the generic handler, which must be last" % flat, by=" < ".join(flat))
    # the validator asks the input file for its position throughout parsing (decoder.io.tell -> file.tell()): whether
    # the file can answer (a pipe cannot: OSError) must be found out where file errors are handled, before the main try
    open_try = None
    for n in ast.walk(run):
        if isinstance(n, ast.Try) and n is not main_try and n.lineno < main_try.lineno and any(isinstance(c, ast.Call) and dotted(c.func) == "open" for b in n.body for c in ast.walk(b)):
            open_try = n
    probed = False
    if open_try is not None:
        for b in open_try.body:
            for c in ast.walk(b):
                if isinstance(c, ast.Call) and norm(c.func) in ("self._file.tell", "self._file.seekable", "self._file.seek"):
                    probed = True
        probed = probed and all(any(isinstance(r, ast.Return) and isinstance(r.value, ast.Constant) and r.value.value == 1 for r in ast.walk(h)) for h in open_try.handlers)
    res.check(probed, "C25.a", "run:input-position-probed-with-the-file-errors", where, "run() does not ask the freshly opened input for its position (tell/seekable) inside the try block whose handler reports file errors with status 1: for a non-seekable input (a pipe, /dev/stdin) the first tell() fails inside parse_stream and lands in the generic handler -- status 3", by="self._file.tell() next to open(), handler returns 1")
    tgt = repo.resolve(m.name, "ConformanceError")
    ok = tgt is not None and getattr(tgt, "kind", None) == "class" and tgt.mod.endswith("decoder.exceptions")
    res.check(ok, "C25.a", "run:ConformanceError-is-the-decoder's", where, "the name ConformanceError in the validator script must resolve to decoder.exceptions.ConformanceError", by="resolved through the decoder package")

    # ---- exits and what precedes them
    handler_of = {}
    for i, h in enumerate(main_try.handlers):
        for s in h.body:
            for n in ast.walk(s):
                handler_of[id(n)] = i
    in_try_body = set(id(n) for s in main_try.body for n in ast.walk(s))

    def on(node, st):
        if isinstance(node, ast.Call):
            d = dotted(node.func)
            if d == "parse_stream":
                return st.add("parsed")
            if d == "self._print_conformance_error":
                return st.add("reported")
            if d == "init_io":
                return st.add("init_io")
        return st

    mf = MustFlow(run, on).run()
    n_exits = 0
    for kind, node, st in mf.exits:
        if kind == "raise":
            continue
        n_exits += 1
        if kind == "fallthrough" or node.value is None:
            res.bad("C25.a", "run:exit-without-status", where, "run() can finish without returning a status (sys.exit(None) is status 0)")
            continue
        v = node.value.value if isinstance(node.value, ast.Constant) else None
        key = "run:return %s" % short(node.value, 20)
        h = handler_of.get(id(node))
        if not isinstance(v, int) or isinstance(v, bool):
            res.bad("C25.a", key, where, "run() returns a non-constant status %s" % short(node.value))
        elif v == 0:
            res.check("parsed" in st.must and id(node) in in_try_body, "C25.a", key, where, "status 0 is returned on a path on which parse_stream has not returned normally", by="after parse_stream, in the try body")
        elif v == 2:
            res.check(h is not None and h in ce_idx and "reported" in st.must, "C25.a", key, where, "status 2 must be returned only by the ConformanceError handler and after _print_conformance_error", by="ConformanceError handler, after the report")
        elif v == 3:
            res.check(h is not None and h in gen_idx, "C25.a", key, where, "the internal-error status is returned outside the generic handler", by="generic handler only")
        else:
            res.check(not (h is not None and h in ce_idx), "C25.a", key, where, "the ConformanceError handler returns %r instead of 2" % v, by="other status %r (I/O problems)" % v)
    # each specific handler returns on every path, its own code
    for i in ce_idx:
        rets = _returns(main_try.handlers[i].body)
        vals = [r.value.value if r.value is not None and isinstance(r.value, ast.Constant) else None for r in rets]
        last = main_try.handlers[i].body[-1]
        res.check(vals and set(vals) == {2} and isinstance(last, ast.Return), "C25.a", "run:ConformanceError->2", where, "the ConformanceError handler must end by returning 2 (returns %s)" % vals, by="returns 2")
    res.check(any(isinstance(r.value, ast.Constant) and r.value.value == 0 for r in _returns(main_try.body)), "C25.a", "run:success->0", where, "the try body must return 0 after parse_stream", by="returns 0")
    # nothing in the class other than run's generic handler mentions status 3 / sys.exit
    stray = [n for n in ast.walk(cls) if isinstance(n, ast.Call) and dotted(n.func) in ("sys.exit", "exit", "os._exit") ]
    res.check(not stray, "C25.a", "class:no-direct-exit", "%s:BitstreamValidator" % m.rel, "the validator class calls %s directly, bypassing run()'s status" % [short(s) for s in stray], by="status only through run()'s return value")

    # ---- C25.b report
    pce = meth["_print_conformance_error"]
    w2 = "%s:BitstreamValidator._print_conformance_error" % m.rel
    exc_param = pce.args.args[1].arg
    called = sorted(set(n.func.attr for n in ast.walk(pce) if isinstance(n, ast.Call) and isinstance(n.func, ast.Attribute) and isinstance(n.func.value, ast.Name) and n.func.value.id == exc_param))
    covered = {"explain", "offending_offset", "bitstream_viewer_hint"}
    res.check(set(called) <= covered and {"explain", "offending_offset"} <= set(called), "C25.b", "_print_conformance_error:exception-methods", w2, "the report calls %s on the exception; explain and offending_offset are required and only %s are covered by C02.6" % (called, sorted(covered)), by=",".join(called))
    # handler passes the caught exception
    hce = main_try.handlers[ce_idx[0]] if ce_idx else None
    ok = False
    if hce is not None and hce.name:
        for n in ast.walk(hce):
            if isinstance(n, ast.Call) and dotted(n.func) == "self._print_conformance_error" and n.args and isinstance(n.args[0], ast.Name) and n.args[0].id == hce.name:
                ok = True
    res.check(ok, "C25.b", "run:reports-the-caught-exception", where, "the ConformanceError handler must pass the caught exception to _print_conformance_error", by="_print_conformance_error(%s, ...)" % (hce.name if hce is not None else "?"))
    # offset fallback and use
    off = None
    for s in pce.body:
        if isinstance(s, ast.Assign) and isinstance(s.targets[0], ast.Name) and isinstance(s.value, ast.Call) and isinstance(s.value.func, ast.Attribute) and s.value.func.attr == "offending_offset":
            off = s.targets[0].id
    fb = False
    if off:
        for s in pce.body:
            if isinstance(s, ast.If) and isinstance(s.test, ast.Compare) and isinstance(s.test.left, ast.Name) and s.test.left.id == off and isinstance(s.test.ops[0], ast.Is) and isinstance(s.test.comparators[0], ast.Constant) and s.test.comparators[0].value is None:
                for b in s.body:
                    if isinstance(b, ast.Assign) and isinstance(b.targets[0], ast.Name) and b.targets[0].id == off and isinstance(b.value, ast.Call) and dotted(b.value.func) == "to_bit_offset":
                        inner = [c for c in ast.walk(b.value) if isinstance(c, ast.Call) and dotted(c.func) == "tell"]
                        fb = bool(inner) and _self_attr(inner[0].args[0]) == "_state"
    res.check(bool(off) and fb, "C25.b", "_print_conformance_error:offset-fallback", w2, "when the exception gives no offending offset the report must locate the error at to_bit_offset(*tell(self._state))", by="offending_offset() or current position")
    # printed text depends on explain() and on the offset
    printed = _flows_to_print(pce)
    need = {"explain": False, "offset": False}
    for n in printed:
        if isinstance(n, ast.Call) and isinstance(n.func, ast.Attribute) and n.func.attr == "explain":
            need["explain"] = True
        if isinstance(n, ast.Name) and n.id == off:
            need["offset"] = True
    res.check(all(need.values()), "C25.b", "_print_conformance_error:prints-explanation-and-offset", w2, "the printed report must be built from exception.explain() and the offending offset (%s)" % need, by="both flow into the printed text")

    # ---- C25.c wiring
    st_store = None
    for n in ast.walk(run):
        if isinstance(n, ast.Assign) and _self_attr(n.targets[0]) == "_state" and isinstance(n.value, ast.Call) and dotted(n.value.func) == "State":
            st_store = n
    ok = False
    if st_store is not None:
        kw = {k.arg: k.value for k in st_store.value.keywords}
        ok = _self_attr(kw.get("_output_picture_callback")) == "_output_picture" and len(kw) == 1 and not st_store.value.args
    res.check(ok, "C25.c", "run:state-callback", where, "self._state must be State(_output_picture_callback=self._output_picture)", by="State(_output_picture_callback=self._output_picture)")
    n_state_stores = sum(1 for n in ast.walk(cls) if isinstance(n, (ast.Assign, ast.AugAssign)) and any(_self_attr(t) == "_state" for t in (n.targets if isinstance(n, ast.Assign) else [n.target])))
    same = True
    seen = set()
    for n in ast.walk(run):
        if isinstance(n, ast.Call) and dotted(n.func) in ("init_io", "parse_stream"):
            seen.add(dotted(n.func))
            if not n.args or _self_attr(n.args[0]) != "_state":
                same = False
    file_ok = any(isinstance(n, ast.Call) and dotted(n.func) == "init_io" and len(n.args) >= 2 and _self_attr(n.args[1]) == "_file" for n in ast.walk(run))
    opened = any(isinstance(n, ast.Assign) and _self_attr(n.targets[0]) == "_file" and isinstance(n.value, ast.Call) and dotted(n.value.func) == "open" and n.value.args and _self_attr(n.value.args[0]) == "_filename" and len(n.value.args) >= 2 and const_str(n.value.args[1]) == "rb" for n in ast.walk(run))
    res.check(same and seen == {"init_io", "parse_stream"} and n_state_stores == 1, "C25.c", "run:one-state", where, "init_io and parse_stream must both receive self._state, which is stored once", by="same self._state")
    res.check(file_ok and opened, "C25.c", "run:input-file", where, "init_io must read from self._file = open(self._filename, 'rb')", by="open(self._filename, 'rb')")
    # init_io precedes parse_stream on all paths: via MustFlow state at parse_stream
    order_ok = [False]

    def on2(node, st):
        if isinstance(node, ast.Call):
            d = dotted(node.func)
            if d == "init_io":
                return st.add("init_io")
            if d == "parse_stream":
                order_ok[0] = "init_io" in st.must
        return st

    MustFlow(run, on2).run()
    res.check(order_ok[0], "C25.c", "run:init-before-parse", where, "init_io must have run on every path to parse_stream", by="init_io dominates parse_stream")

    rule_d(repo, res, m, cls, meth)
    rule_e(repo, res, m, cls, meth, main_try, hnames, gen_idx)
    rule_f(repo, res, m)
    rule_h(repo, res, m)
    from .. import intlimit

    intlimit.rule(repo, res, "C25.h")
    from .. import lints as _lints

    _lints.rule(repo, res, "C25.h", ["scripts.vc2_bitstream_validator", "file_format", "dimensions_and_depths", "string_utils"])
    res.floor("C25.h", 9)
    # what the callback hands to file_format.write is written faithfully: the writer-side rules of C23 re-evaluated
    from . import c23 as _c23
    from ..report import Ob as _Ob

    _sub = Result("C23")
    _fm = repo.mod("file_format")
    _c23.rule_a(repo, _sub, _fm)
    _c23.rule_b(repo, _sub, _fm)
    _c23.rule_c(repo, _sub, _fm)
    for _o in _sub.obs:
        res._add(_Ob("C25.i", "%s/%s" % (_o.rule, _o.key), _o.where, _o.status, _o.detail, _o.by, _o.path))
    res.floor("C25.i", 10)
    # exit 2 "with a located explanation" needs every reported error to explain itself: C02.6 re-evaluated (the
    # viewer-hint option spelling is decided under C02 only -- known finding K5 there)
    from . import c02 as _c02

    for _o in _c02.check(repo, "quick").obs:
        if _o.rule == "C02.6" and not _o.key.endswith(":hint-options-known-to-viewer"):
            res._add(_Ob("C25.j", "%s/%s" % (_o.rule, _o.key), _o.where, _o.status, _o.detail, _o.by, _o.path))
    res.floor("C25.j", 150)
    from .. import globals_state

    globals_state.rule(repo, res, "C25.g", ["scripts.vc2_bitstream_validator", "file_format", "dimensions_and_depths", "py2x_compat", "string_utils"], what="the files written for one picture (a later picture of another format would be written with an earlier one's parameters)")
    res.floor("C25.g", 5)
    res.floor("C25.a", 8)
    res.floor("C25.b", 4)
    res.floor("C25.c", 4)
    res.floor("C25.d", 6)
    res.floor("C25.e", 2)
    res.floor("C25.f", 3)
    res.info["links"] = {"status 3 unreachable from parse_stream's own code": "C02 (validator raises only ConformanceError)", "exception reporting methods total": "C02.6", "callback arguments": "C09.b"}
    res.assumptions = [
        "status 3 is unreachable from the decoder exactly when C02 holds; this check decides the command's own contribution",
        "the contents of the written files equal the decoder's output because the callback's arguments are passed through unchanged (C25.d) and file_format is exercised by C23",
        "failures of print()/stderr and of the terminal-size query are outside the claim",
    ]
    res.trusted = ["model of what builtin open() may raise for a str name in a writing mode: OSError family, ValueError (embedded NUL)"]
    return res


def _flows_to_print(fn):
    """AST nodes whose value flows (through local assignments / augmented
    assignments / str methods / format) into an argument of print()."""
    defs = {}
    for n in ast.walk(fn):
        if isinstance(n, ast.Assign):
            for t in n.targets:
                for x in ast.walk(t):
                    if isinstance(x, ast.Name):
                        defs.setdefault(x.id, []).append(n.value)
        elif isinstance(n, ast.AugAssign) and isinstance(n.target, ast.Name):
            defs.setdefault(n.target.id, []).append(n.value)
    out = []
    seen = set()
    work = [a for n in ast.walk(fn) if isinstance(n, ast.Call) and dotted(n.func) == "print" for a in n.args]
    while work:
        e = work.pop()
        for x in ast.walk(e):
            out.append(x)
            if isinstance(x, ast.Name) and x.id not in seen:
                seen.add(x.id)
                work.extend(defs.get(x.id, []))
    return out


def rule_d(repo, res, m, cls, meth):
    op = meth["_output_picture"]
    where = "%s:BitstreamValidator._output_picture" % m.rel
    CTR = None
    # filename = self._output_filename % (self.<ctr>,)
    fname = None
    fstmt = None
    for i, s in enumerate(op.body):
        if isinstance(s, ast.Assign) and isinstance(s.targets[0], ast.Name) and isinstance(s.value, ast.BinOp) and isinstance(s.value.op, ast.Mod) and _self_attr(s.value.left) == "_output_filename":
            r = s.value.right
            elts = r.elts if isinstance(r, ast.Tuple) else [r]
            if len(elts) == 1 and _self_attr(elts[0]):
                CTR = _self_attr(elts[0])
                fname = s.targets[0].id
                fstmt = i
    res.check(fname is not None, "C25.d", "_output_picture:name-from-pattern-and-counter", where, "the file name must be self._output_filename % (self.<counter>,) at the top level of the callback", by="pattern %% (self.%s,)" % CTR)
    if fname is None:
        raise AnalysisError("_output_picture: file name computation not recognised")
    # counter: init 0, +1 once at top level after the name, no other stores in the class
    stores = []
    for fn_name, f in meth.items():
        for n in ast.walk(f):
            if isinstance(n, ast.Assign) and any(_self_attr(t) == CTR for t in n.targets):
                stores.append((fn_name, n))
            elif isinstance(n, ast.AugAssign) and _self_attr(n.target) == CTR:
                stores.append((fn_name, n))
    init = [n for f, n in stores if f == "__init__"]
    ok = len(init) == 1 and isinstance(init[0], ast.Assign) and isinstance(init[0].value, ast.Constant) and init[0].value.value == 0 and type(init[0].value.value) is int and init[0] in meth["__init__"].body
    res.check(ok, "C25.d", "counter:starts-at-0", "%s:BitstreamValidator.__init__" % m.rel, "self.%s must be initialised to the literal 0 in __init__" % CTR, by="self.%s = 0" % CTR)
    incs = [(f, n) for f, n in stores if f != "__init__"]
    ok = len(incs) == 1 and incs[0][0] == "_output_picture" and isinstance(incs[0][1], ast.AugAssign) and isinstance(incs[0][1].op, ast.Add) and isinstance(incs[0][1].value, ast.Constant) and incs[0][1].value.value == 1 and incs[0][1] in op.body
    res.check(ok, "C25.d", "counter:incremented-once-per-call", where, "self.%s must be incremented by exactly 1, unconditionally, once per callback invocation and stored nowhere else (stores: %s)" % (CTR, [(f, short(n)) for f, n in incs]), by="single top-level += 1")
    if ok:
        inc_i = op.body.index(incs[0][1])
        # no early exit before the increment, and name computed before it
        early = [n for s in op.body[: inc_i] for n in ast.walk(s) if isinstance(n, (ast.Return, ast.Raise))]
        res.check(fstmt < inc_i and not early, "C25.d", "counter:used-before-increment", where, "the name must be formatted from the counter before it is incremented (first picture is index 0) with no exit in between", by="format, then increment")
    # other reads of the counter do not alias/write it
    # write(...) call: arguments
    params = [a.arg for a in op.args.args[1:]]
    res.check(len(params) == 3 and not op.args.vararg and not op.args.kwonlyargs, "C25.d", "_output_picture:three-parameters", where, "the callback must take exactly (picture, video_parameters, picture_coding_mode)", by=",".join(params))
    wcalls = [n for n in ast.walk(op) if isinstance(n, ast.Call) and isinstance(n.func, ast.Name) and n.func.id == "write"]
    tgt = repo.resolve(m.name, "write")
    ok = len(wcalls) == 1 and tgt is not None and getattr(tgt, "kind", None) == "func" and tgt.mod.endswith("file_format")
    res.check(ok, "C25.d", "_output_picture:writes-through-file_format.write", where, "exactly one call of file_format.write per callback invocation (found %d)" % len(wcalls), by="one write(...) call")
    if not ok:
        return
    wm, wfn = repo.func("file_format:write")
    wparams = [a.arg for a in wfn.args.args]
    call = wcalls[0]
    bound = {}
    for i, a in enumerate(call.args):
        if i < len(wparams):
            bound[wparams[i]] = a
    for k in call.keywords:
        bound[k.arg] = k.value
    # roles of write's parameters: by how write itself uses them (positions in write_picture / write_metadata)
    roles = write_roles(repo, res, wm, wfn)
    good = roles is not None
    if good:
        for role, p in zip(("picture", "video_parameters", "picture_coding_mode"), params):
            a = bound.get(roles[role])
            if not (isinstance(a, ast.Name) and a.id == p):
                good = False
        a = bound.get(roles["filename"])
        if not (isinstance(a, ast.Name) and a.id == fname):
            good = False
        # the parameters are not rebound before the call
        for n in ast.walk(op):
            if isinstance(n, (ast.Assign, ast.AugAssign)):
                for t in (n.targets if isinstance(n, ast.Assign) else [n.target]):
                    for x in ast.walk(t):
                        if isinstance(x, ast.Name) and x.id in params + [fname] and not (isinstance(n, ast.Assign) and n is op.body[fstmt]):
                            good = False
    res.check(good, "C25.d", "_output_picture:argument-order", where, "write() must receive the callback's (picture, video_parameters, picture_coding_mode) and the formatted name in file_format.write's parameter order %s; call is %s" % (wparams, short(call, 120)), by="arguments match write%s" % (tuple(wparams),))
    # call is unconditional (top level or inside a top-level try body)
    top = False
    for s in op.body:
        if isinstance(s, ast.Expr) and s.value is call:
            top = True
        if isinstance(s, ast.Try):
            for b in s.body:
                if isinstance(b, ast.Expr) and b.value is call:
                    top = True
    res.check(top, "C25.d", "_output_picture:write-unconditional", where, "the write call must run for every decoded picture (not under a condition or loop)", by="top-level statement")


def write_roles(repo, res, wm, wfn):
    """file_format.write: parameter name for each role, from the way write
    forwards them to write_metadata / write_picture and opens the two files."""
    where = "%s:write" % wm.rel
    wparams = [a.arg for a in wfn.args.args]
    opens = []
    fwd = {}
    names_call = None
    for n in ast.walk(wfn):
        if isinstance(n, ast.With):
            for it in n.items:
                c = it.context_expr
                if isinstance(c, ast.Call) and dotted(c.func) == "open" and len(c.args) >= 2 and const_str(c.args[1]) in ("wb", "w"):
                    fvar = it.optional_vars.id if isinstance(it.optional_vars, ast.Name) else None
                    for b in n.body:
                        for x in ast.walk(b):
                            if isinstance(x, ast.Call) and dotted(x.func) in ("write_metadata", "write_picture"):
                                opens.append((dotted(x.func), c.args[0], x, fvar))
        if isinstance(n, ast.Assign) and isinstance(n.value, ast.Call) and dotted(n.value.func) == "get_metadata_and_picture_filenames":
            names_call = n
    ok = len(opens) == 2 and {o[0] for o in opens} == {"write_metadata", "write_picture"} and names_call is not None
    roles = None
    if ok:
        tnames = [t.id for t in names_call.targets[0].elts] if isinstance(names_call.targets[0], ast.Tuple) else []
        ok = len(tnames) == 2 and isinstance(names_call.value.args[0], ast.Name) and names_call.value.args[0].id in wparams
        if ok:
            fileparam = names_call.value.args[0].id
            # metadata name -> write_metadata, picture name -> write_picture; each callee gets the file it was opened as
            for callee, namearg, call, fvar in opens:
                want = tnames[0] if callee == "write_metadata" else tnames[1]
                if not (isinstance(namearg, ast.Name) and namearg.id == want):
                    ok = False
                cm, cf = repo.func("file_format:%s" % callee)
                cparams = [a.arg for a in cf.args.args]
                if len(call.args) != 4 or not all(isinstance(a, ast.Name) for a in call.args):
                    ok = False
                    continue
                m_ = dict(zip(cparams, [a.id for a in call.args]))
                if m_.get("file") != fvar:
                    ok = False
                cur = {r: m_.get(r) for r in ("picture", "video_parameters", "picture_coding_mode")}
                if roles is None:
                    roles = cur
                elif roles != cur:
                    ok = False
            if ok and roles and all(v in wparams for v in roles.values()) and len(set(roles.values())) == 3:
                roles["filename"] = fileparam
            else:
                ok = False
        # get_metadata_and_picture_filenames returns (json, raw) from one base name
        gm, gf = repo.func("file_format:get_metadata_and_picture_filenames")
        r = [n for n in ast.walk(gf) if isinstance(n, ast.Return)]
        exts = []
        if len(r) == 1 and isinstance(r[0].value, ast.Tuple):
            for e in r[0].value.elts:
                s = [const_str(x) for x in ast.walk(e) if const_str(x)]
                exts.append(s[0] if s else None)
        ok = ok and len(exts) == 2 and (exts[0] or "").endswith(".json") and (exts[1] or "").endswith(".raw")
    res.check(ok, "C25.d", "file_format.write:pair", where, "write() must open the .json name for write_metadata and the .raw name for write_picture, forwarding (picture, video_parameters, picture_coding_mode) to each in their parameter order", by="one .json + one .raw per call, arguments forwarded by role")
    return roles if ok else None


def rule_e(repo, res, m, cls, meth, main_try, hnames, gen_idx):
    op = meth["_output_picture"]
    where = "%s:BitstreamValidator._output_picture" % m.rel
    runw = "%s:BitstreamValidator.run" % m.rel
    # file-creating calls beneath the callback: in file_format.write (resolved) -- floor
    wm, wfn = repo.func("file_format:write")
    creates = [n for n in ast.walk(wfn) if isinstance(n, ast.Call) and dotted(n.func) == "open" and len(n.args) >= 2 and (const_str(n.args[1]) or "")[:1] in ("w", "a", "x")]
    if len(creates) < 2:
        raise AnalysisError("file_format.write: file-creating open() calls not found")
    inner_try = any(isinstance(n, ast.Try) for n in ast.walk(wfn))
    wcall = [n for n in ast.walk(op) if isinstance(n, ast.Call) and isinstance(n.func, ast.Name) and n.func.id == "write"]
    if not wcall:
        raise AnalysisError("_output_picture: write call not found")
    wcall = wcall[0]
    # enclosing try statements of the call, innermost first
    encl = []
    n = wcall
    while n is not op:
        p = n._parent
        if isinstance(p, ast.Try) and any(n is b or any(n is x for x in ast.walk(b)) for b in p.body):
            encl.append(p)
        n = p
    # handlers in run before the generic one, with their status
    specific = {}
    for i, h in enumerate(main_try.handlers):
        if gen_idx and i >= gen_idx[0]:
            break
        rets = _returns(h.body)
        vals = set(r.value.value if r.value is not None and isinstance(r.value, ast.Constant) else None for r in rets)
        ends = isinstance(h.body[-1], ast.Return)
        for nme in hnames[i]:
            specific[(nme or "").split(".")[-1]] = (vals, ends)
    for exc in OPEN_RAISES:
        key = "_output_picture:open:%s" % exc
        handled = None
        for t in encl:
            for h in t.handlers:
                if _catches(_handler_names(h), exc):
                    handled = h
                    break
            if handled is not None:
                break
        if inner_try:
            raise AnalysisError("file_format.write now contains a try statement; C25.e needs to be re-derived")
        if handled is None:
            res.bad("C25.e", key, where, "open() of the picture file named by the user's --output pattern may raise %s (%s); nothing between the callback and run()'s generic handler catches it, so a conformant stream ends with the internal-error status 3" % (exc, "missing directory, permissions, full disk" if exc == "OSError" else "a pattern such as %c yields a name with an embedded NUL character"))
            continue
        last = handled.body[-1]
        raised = None
        if isinstance(last, ast.Raise) and last.exc is not None:
            c = last.exc.func if isinstance(last.exc, ast.Call) else last.exc
            raised = (dotted(c) or "").split(".")[-1]
        if raised is None:
            res.bad("C25.e", key, where, "%s from creating a picture file is swallowed: the command would finish without the picture file and still report success" % exc)
            continue
        sp = specific.get(raised)
        ok = sp is not None and sp[1] and sp[0] and not (sp[0] & {0, 2, 3, None})
        res.check(ok, "C25.e", key, where, "%s is translated to %s, which run() does not handle before the generic handler with a status of its own (handlers: %s)" % (exc, raised, {k: sorted(map(str, v[0])) for k, v in specific.items()}), by="translated to %s, handled by run() with status %s" % (raised, sorted(sp[0]) if sp else "?"))
        # the translated class must not be a ConformanceError / caught by an earlier handler with a different meaning
        if ok:
            c = repo.resolve_expr(m.name, last.exc.func if isinstance(last.exc, ast.Call) else last.exc) if hasattr(repo, "resolve_expr") else None
    # the input-file errors: first try returns non-zero, non-2, non-3
    run = meth["run"]
    first = run.body[0]
    ok = isinstance(first, ast.Try) and any(isinstance(nn, ast.Call) and dotted(nn.func) == "open" for b in first.body for nn in ast.walk(b))
    if ok:
        vals = set()
        for h in first.handlers:
            for r in _returns(h.body):
                vals.add(r.value.value if r.value is not None and isinstance(r.value, ast.Constant) else None)
            ok = ok and isinstance(h.body[-1], ast.Return)
        ok = ok and vals and not (vals & {0, 2, 3, None})
    res.check(ok, "C25.e", "run:input-file-errors", runw, "failure to open the input file must end run() with a status that is not 0, 2 or 3", by="returns 1")


def rule_f(repo, res, m):
    mm, main = repo.func(SCRIPT + ":main")
    where = "%s:main" % m.rel
    rets = [n for n in ast.walk(main) if isinstance(n, ast.Return)]
    ok = len(rets) == 1 and isinstance(rets[0].value, ast.Call) and isinstance(rets[0].value.func, ast.Attribute) and rets[0].value.func.attr == "run" and isinstance(main.body[-1], ast.Return)
    v = rets[0].value.func.value.id if ok and isinstance(rets[0].value.func.value, ast.Name) else None
    ctor = None
    for s in main.body:
        if isinstance(s, ast.Assign) and isinstance(s.targets[0], ast.Name) and s.targets[0].id == v and isinstance(s.value, ast.Call) and dotted(s.value.func) == "BitstreamValidator":
            ctor = s.value
    res.check(ok and ctor is not None, "C25.f", "main:returns-run-status", where, "main() must return BitstreamValidator(...).run()", by="return validator.run()")
    if ctor is not None:
        kw = {k.arg: k.value for k in ctor.keywords}
        _, cls = repo.cls(SCRIPT + ":BitstreamValidator")
        ip = [a.arg for a in class_methods(cls)["__init__"].args.args[1:]]
        for i, a in enumerate(ctor.args):
            if i < len(ip):
                kw[ip[i]] = a
        good = dotted(kw.get("filename")) == "args.bitstream" and dotted(kw.get("output_filename")) == "args.output"
        res.check(good, "C25.f", "main:argument-wiring", where, "the validator must be constructed with filename=args.bitstream and output_filename=args.output", by="filename=args.bitstream, output_filename=args.output")
        init = class_methods(cls)["__init__"]
        st = {}
        for s in init.body:
            if isinstance(s, ast.Assign) and _self_attr(s.targets[0]) and isinstance(s.value, ast.Name):
                st[_self_attr(s.targets[0])] = s.value.id
        res.check(st.get("_filename") == "filename" and st.get("_output_filename") == "output_filename", "C25.f", "__init__:stores", "%s:BitstreamValidator.__init__" % m.rel, "__init__ must store filename and output_filename in self._filename / self._output_filename", by="stored unchanged")
    # module entry: sys.exit(main())
    ok = False
    for s in mm.tree.body:
        if isinstance(s, ast.If) and "__name__" in norm(s.test):
            for n in ast.walk(s):
                if isinstance(n, ast.Call) and dotted(n.func) == "sys.exit" and n.args and isinstance(n.args[0], ast.Call) and dotted(n.args[0].func) == "main":
                    ok = True
    res.check(ok, "C25.f", "module:sys.exit(main())", m.rel, "the module entry must be sys.exit(main())", by="sys.exit(main())")
    # parse_args validates the pattern
    pm, pa = repo.func(SCRIPT + ":parse_args")
    ok = False
    for n in ast.walk(pa):
        if isinstance(n, ast.Try):
            tried = any(isinstance(x, ast.BinOp) and isinstance(x.op, ast.Mod) and dotted(x.left) == "args.output" for b in n.body for x in ast.walk(b))
            errs = any(isinstance(x, ast.Call) and dotted(x.func) == "parser.error" for h in n.handlers for b in h.body for x in ast.walk(b))
            if tried and errs:
                ok = True
    res.check(ok, "C25.f", "parse_args:pattern-validated", "%s:parse_args" % m.rel, "the --output pattern must be trial-formatted with an index and rejected through parser.error when that fails", by="args.output % (0,) under try -> parser.error")


def _nonzero_divisor(d):
    if isinstance(d, ast.Constant) and isinstance(d.value, (int, float)) and d.value != 0:
        return "non-zero literal"
    if isinstance(d, ast.BoolOp) and isinstance(d.op, ast.Or) and isinstance(d.values[-1], ast.Constant) and isinstance(d.values[-1].value, (int, float)) and d.values[-1].value != 0:
        return "`... or %r`" % d.values[-1].value
    if isinstance(d, ast.Call) and dotted(d.func) == "max" and any(isinstance(a, ast.Constant) and isinstance(a.value, (int, float)) and a.value > 0 for a in d.args):
        return "max(K, ...)"
    return None


def rule_h(repo, res, m):
    # fixture: the classifier tells the three safe divisor forms from an unsafe one
    fx = ast.parse("a / (n or 1)\na // 8\na / max(1, n)\na / n").body
    if [(_nonzero_divisor(x.value.right) is not None) for x in fx] != [True, True, True, False]:
        raise AnalysisError("divisor classifier no longer recognises its fixture")
    res.ok("C25.h", "division:fixture", "vcheck/props/c25.py", by="3 safe forms accepted, bare name rejected")
    n = 0
    for fn in [f for f in ast.walk(m.tree) if isinstance(f, ast.FunctionDef)]:
        k = 0
        for b in ast.walk(fn):
            if not (isinstance(b, ast.BinOp) and isinstance(b.op, (ast.Div, ast.FloorDiv, ast.Mod))):
                continue
            if isinstance(b.op, ast.Mod) and (isinstance(b.right, ast.Tuple) or isinstance(b.left, (ast.Constant, ast.JoinedStr)) and isinstance(getattr(b.left, "value", ""), str)):
                continue  # string formatting
            if isinstance(b.op, ast.Mod) and isinstance(b.left, ast.Attribute) and b.left.attr in ("_output_filename", "output"):
                continue  # string formatting of the output pattern (decided by C25.f / C25.e)
            k += 1
            n += 1
            why = _nonzero_divisor(b.right)
            res.check(why is not None, "C25.h", "division:%s#%d" % (fn.name, k), "%s:%s" % (m.rel, fn.name), "`%s`: the divisor can be zero (an empty input file has size 0; the status line is drawn before parsing starts, outside run()'s handlers), so the command would end in a traceback instead of a status" % short(b, 80), by="divisor is %s" % (why or ""))
    if n == 0:
        raise AnalysisError("no division found in the validator command (the status line's percentage was the reviewed instance)")
    fm = repo.mod("file_format")
    fn = fm.funcs.get("get_metadata_and_picture_filenames")
    if fn is None:
        raise AnalysisError("anchor vanished: file_format.get_metadata_and_picture_filenames")
    arg = fn.args.args[0].arg
    where = "%s:get_metadata_and_picture_filenames" % fm.rel
    rets = [r for r in ast.walk(fn) if isinstance(r, ast.Return)]
    ok = False
    base_ok = False
    if len(rets) == 1 and isinstance(rets[0].value, ast.Tuple) and len(rets[0].value.elts) == 2:
        exts = []
        bases = set()
        for e in rets[0].value.elts:
            if isinstance(e, ast.Call) and isinstance(e.func, ast.Attribute) and e.func.attr == "format" and const_str(e.func.value) in ("{}.json", "{}.raw") and len(e.args) == 1:
                exts.append(const_str(e.func.value))
                bases.add(norm(e.args[0]))
            elif isinstance(e, ast.BinOp) and isinstance(e.op, ast.Add) and const_str(e.right) in (".json", ".raw"):
                exts.append("{}" + const_str(e.right))
                bases.add(norm(e.left))
        ok = exts == ["{}.json", "{}.raw"] and len(bases) == 1
        if ok:
            b = ast.parse(bases.pop()).body[0].value
            if isinstance(b, ast.Name):
                ds = [a.value for a in ast.walk(fn) if isinstance(a, ast.Assign) and any(isinstance(t, ast.Name) and t.id == b.id for t in a.targets)]
                b = ds[0] if len(ds) == 1 else b
            base_ok = norm(b) in ("os.path.splitext(%s)[0]" % arg, "splitext(%s)[0]" % arg, "str(Path(%s).with_suffix(''))" % arg, "str(pathlib.Path(%s).with_suffix(''))" % arg)
    res.check(ok, "C25.h", "names:json-then-raw-of-one-base", where, "the function must return (base + '.json', base + '.raw') for one base name", by="('{}.json', '{}.raw') of the same base")
    # since the extension of the *formatted* name is replaced, a pattern whose picture index lands in the extension
    # ('pic.%d') names every picture alike: the command must refuse it before decoding (D10)
    vm, pa = repo.func("scripts.vc2_bitstream_validator:parse_args")
    refused = False
    for i in ast.walk(pa):
        if isinstance(i, ast.If) and isinstance(i.test, ast.Compare) and len(i.test.ops) == 1 and isinstance(i.test.ops[0], ast.Eq):
            l, r = i.test.left, i.test.comparators[0]

            def names_of(e, k):
                return isinstance(e, ast.Call) and dotted(e.func) in ("get_metadata_and_picture_filenames", "os.path.splitext", "splitext") and len(e.args) == 1 and norm(e.args[0]).replace(" ", "") in ("args.output%%(%d,)" % k, "args.output%%%d" % k)

            if ((names_of(l, 0) and names_of(r, 1)) or (names_of(l, 1) and names_of(r, 0))) and any(isinstance(c, ast.Call) and norm(c.func) == "parser.error" for b in i.body for c in ast.walk(b)):
                refused = True
    res.check(refused, "C25.h", "names:patterns-naming-every-picture-alike-are-refused", "%s:parse_args" % vm.rel, "parse_args does not compare the file names formed from `args.output % 0` and `args.output % 1`: with the index in the extension ('pic.%d') both are 'pic.raw'/'pic.json', every picture overwrites the previous one and the command still exits 0", by="if names(output % 0) == names(output % 1): parser.error(...)")
    # ... and since other templates repeat a name only for later numbers ('%.1s': 1 and 10..19; '%e': 1 and 10), the
    # writer itself refuses a name it has used before in this run (D12)
    cm_, ccls = repo.cls("scripts.vc2_bitstream_validator:BitstreamValidator")
    op = class_methods(ccls)["_output_picture"]
    guard = False
    wr = [c for c in ast.walk(op) if isinstance(c, ast.Call) and dotted(c.func) == "write"]
    for i in ast.walk(op):
        if isinstance(i, ast.If) and isinstance(i.test, ast.Compare) and len(i.test.ops) == 1 and isinstance(i.test.ops[0], ast.In) and norm(i.test.comparators[0]).startswith("self.") and any(isinstance(r, ast.Raise) for r in ast.walk(i)):
            coll = norm(i.test.comparators[0])
            item = norm(i.test.left)
            grows = any(isinstance(c, ast.Call) and isinstance(c.func, ast.Attribute) and c.func.attr in ("append", "add") and norm(c.func.value) == coll and c.args and norm(c.args[0]) == item for c in ast.walk(op))
            before = bool(wr) and i.lineno < min(w.lineno for w in wr)
            derived = any(isinstance(a, ast.Assign) and norm(a.targets[0]) == item and isinstance(a.value, ast.Call) and dotted(a.value.func) in ("get_metadata_and_picture_filenames", "os.path.splitext", "splitext") for a in ast.walk(op)) or "get_metadata_and_picture_filenames" in item
            if grows and before and derived:
                guard = True
    res.check(guard, "C25.h", "names:no-picture-overwritten-within-a-run", "%s:BitstreamValidator._output_picture" % cm_.rel, "_output_picture does not refuse a file name it has already written in this run (membership test on a collection of the names formed by get_metadata_and_picture_filenames, before write(), growing on every call): templates such as 'pic_%.1s.raw' or 'pic_%e' name picture 10 like picture 1, the earlier picture is overwritten and the command exits 0", by="if names in self.<written>: raise; self.<written>.append(names); write(...)")
    res.check(base_ok, "C25.h", "names:extension-stripped-from-last-component-only", where, "the base name must be os.path.splitext(name)[0]: string splitting on '.' also cuts at a dot in a directory name ('out.v1/picture_%d'), which sends every picture to one file outside the requested directory", by="os.path.splitext(name)[0]")
