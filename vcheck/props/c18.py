"""C18 Data-unit pattern matcher implements its regular-expression language
(structural part: the Thompson construction and the simulation).

The language accepted for *every* pattern is decided by an induction over the
pattern AST whose per-constructor obligations are finite: each gadget built by
NFA.from_ast, with its sub-automata as two-terminal black boxes, must accept
exactly the constructor's language, touch sub-automata only at (start: in,
final: out), and hand back a start without incoming and a final without
outgoing edges -- provided add_transition inserts *directed* edges.
"""
import ast

from ..core import AnalysisError, class_methods, const_str, dotted, norm, short
from ..report import Result
from ..mustflow import MustFlow
from .. import regex, nfa_model, levels

EXPECTED = {
    "eps": ("eps",),
    "sym": ("sym", "SYM"),
    "cat": ("cat", ("sym", "A"), ("sym", "B")),
    "alt": ("alt", ("sym", "A"), ("sym", "B")),
    "star": ("star", ("sym", "A")),
}

CORPUS = [
    "a", "a b", "a | b", "a*", "a+", "a?", "(a b)*", "(a* | b*)", "a? b", ". a", "a $",
    "(a | b)* c", "a (b | c)? d", "(a b | c)+",
]


def gadget_language(g, kind, reverse_eps=False):
    """DFA of the gadget with each sub-automaton replaced by one edge A / B."""
    nfa = regex.NFA()
    fresh = [nfa.new() for _ in range(g["new"])]
    subs = {}
    for name in g["subs"]:
        s, f = nfa.new(), nfa.new()
        nfa.tr[s].append((name.upper(), f))
        subs[name] = (s, f)

    def ref(r):
        if r[0] == "new":
            return fresh[r[1]]
        return subs[r[1]][0 if r[2] == "start" else 1]

    for src, dst, label in g["edges"]:
        if label is None:
            nfa.eps[ref(src)].add(ref(dst))
            if reverse_eps:
                nfa.eps[ref(dst)].add(ref(src))
        else:
            nfa.tr[ref(src)].append(("SYM", ref(dst)))
    nfa.start, nfa.final = ref(g["start"]), ref(g["final"])
    return regex.to_dfa(nfa, ["A", "B", "SYM", regex.OTHER])


def check(repo, tier="quick"):
    res = Result("C18")
    res.explanation = (
        "Thompson-gadget proof obligations extracted from NFA.from_ast by abstract interpretation (5 constructors x 3 "
        "obligations), edge-direction semantics of NFANode.add_transition, shape of the simulation (match_symbol / follow / "
        "is_complete), and exact comparison of the implemented language (extracted gadgets + extracted edge semantics) "
        "with a reference engine on a pattern corpus."
    )
    res.rule("C18.f", "bug patterns with zero expected instances in this property's modules: swapped same-named arguments, lower-bound guard followed by a decrement of the guarded value, presence of a dictionary entry decided by truthiness; the pattern module keeps no state between calls (no cache of parsed patterns or automata)")
    res.rule("C18.g", "the pattern parser builds the tree the reference grammar gives (right-to-left): each item becomes Symbol / Star(item) / Concatenation(item, Star(item)) / Union(item, None) according to its modifier; an item is prepended to everything parsed so far with Concatenation(item, rest); a bar makes Union(<parse of what is to its left>, <everything parsed so far>); the accumulated tree is what is returned")
    res.rule("C18.a", "each from_ast gadget: (i) black-box language = constructor language, (ii) edges touch sub-automata only at start(in)/final(out), (iii) returned start has no incoming / final no outgoing added edge")
    res.rule("C18.b", "NFANode.add_transition inserts exactly one directed edge self -> dest")
    res.rule("C18.c", "simulation shape: follow = closure then symbol step; match_symbol unions symbol and wildcard steps over all current states and leaves the state untouched on failure; is_complete tests the final node in the closure or an end-of-sequence edge")
    res.rule("C18.e", "(thorough tier) composition of the extracted gadgets with directed epsilon edges = reference language for every pattern tree up to 8 nodes over {a, b, ., $} (validates the gadget proof obligation of C18.a independently of known finding K1)")
    res.rule("C18.d", "implemented language (extracted construction) = reference language on the pattern corpus and on every in-repo pattern")

    m = repo.mod("symbol_re")
    where_fa = "%s:NFA.from_ast" % m.rel
    try:
        gadgets, dead = nfa_model.extract_gadgets(repo)
    except AnalysisError as e:
        if "NFA.from_ast[" in str(e) and "anchor vanished" not in str(e):
            # a branch of the construction contains something that is not part of building the gadget (node creation,
            # sub-automaton construction, edge insertion, return): the gadget proof obligation cannot be formed, and a
            # shortcut or extra condition inside a construction arm changes the language for the patterns it applies to
            res.check(False, "C18.a", "from_ast:construction-arms-only-build-gadgets", "vc2_conformance/symbol_re.py:NFA.from_ast", "%s -- every arm of NFA.from_ast must consist of node creations, recursive constructions of its sub-expressions (each exactly once), add_transition calls and the return of the (start, final) pair" % e, by="")
            return res
        raise
    res.info["gadgets_extracted"] = sorted(gadgets)
    res.info["dead_duplicate_branches"] = dead
    for kind in ("eps", "sym", "cat", "alt", "star"):
        if kind not in gadgets:
            res.bad("C18.a", "%s:present" % kind, where_fa, "from_ast has no branch for AST kind %r (the parser produces it)" % kind)
            continue
        g = gadgets[kind]
        # (i)
        d_impl = gadget_language(g, kind)
        d_ref = regex.to_dfa(regex.build(EXPECTED[kind]), ["A", "B", "SYM", regex.OTHER])
        w1, w2 = regex.compare(d_impl, d_ref)
        res.check(
            w1 is None and w2 is None,
            "C18.a",
            "%s:language" % kind,
            where_fa,
            "gadget for %s accepts %s which the constructor does not" % (kind, list(w1)) if w1 is not None else "gadget for %s rejects %s which the constructor accepts" % (kind, list(w2) if w2 is not None else None),
            by="product-automaton equivalence with sub-automata as black boxes",
        )
        # (ii)
        bad = []
        for src, dst, label in g["edges"]:
            if not (src[0] == "new" or (src[0] == "sub" and src[2] == "final")):
                bad.append("edge leaves %s" % (src,))
            if not (dst[0] == "new" or (dst[0] == "sub" and dst[2] == "start")):
                bad.append("edge enters %s" % (dst,))
        res.check(not bad, "C18.a", "%s:interface" % kind, where_fa, "; ".join(bad), by="%d edges respect the start-in/final-out interface" % len(g["edges"]))
        # (iii)
        inc = [e for e in g["edges"] if e[1] == g["start"]]
        outg = [e for e in g["edges"] if e[0] == g["final"]]
        ok3 = not inc and not outg
        if kind == "eps":
            ok3 = ok3 and g["start"] == g["final"]
        res.check(ok3, "C18.a", "%s:terminals" % kind, where_fa, "returned start has %d incoming, final %d outgoing added edges" % (len(inc), len(outg)), by="start: no incoming, final: no outgoing")

    # C18.b
    sem = nfa_model.add_transition_semantics(repo)
    where_at = "%s:NFANode.add_transition" % m.rel
    res.check(sem["eps_forward"] and sem["sym_forward"], "C18.b", "NFANode.add_transition:forward-edge", where_at, "the forward edge self -> dest is not inserted for %s" % [k for k in ("eps", "sym") if not sem[k + "_forward"]], by="self.transitions[symbol].add(dest_node)")
    res.check(not sem["eps_reverse"], "C18.b", "NFANode.add_transition:eps-reverse-edge", where_at, "an empty transition also inserts the reverse edge dest -> self: the two states become one equivalence class, so alternatives and optional parts merge", by="no reverse epsilon edge")
    res.check(not sem["sym_reverse"], "C18.b", "NFANode.add_transition:sym-reverse-edge", where_at, "a symbol transition also inserts a reverse edge", by="no reverse symbol edge")
    res.check(not sem["other"], "C18.b", "NFANode.add_transition:only-edge-insertion", where_at, "unrecognised statements: %s" % sem["other"], by="nothing else")

    simulation_shape(repo, res, m)

    # C18.d implemented vs reference language
    pats = [("corpus", p) for p in CORPUS]
    for lvl_pat in sorted(set(levels.level_patterns(repo).values())):
        pats.append(("level-csv", lvl_pat))
    for src, lit in pattern_literals(repo):
        pats.append((src, lit))
    seen = set()
    for src, p in pats:
        if p in seen:
            continue
        seen.add(p)
        key = "pattern:%s" % " ".join(p.split())
        try:
            a = regex.parse(p)
        except ValueError as e:
            res.bad("C18.d", key, src, "pattern does not parse under the reference grammar: %s" % e)
            continue
        alpha = sorted(regex.symbols_of(a)) + [regex.OTHER]
        d_ref = regex.to_dfa(regex.build(a), alpha)
        try:
            d_impl = regex.to_dfa(regex.build(a, gadgets, bidirectional_eps=sem["eps_reverse"]), alpha)
        except KeyError as e:
            res.bad("C18.d", key, src, "no gadget for %s" % e)
            continue
        w1, w2 = regex.compare(d_impl, d_ref)
        det = ""
        if w1 is not None:
            det = "the implemented automaton accepts %s, which the pattern does not match" % list(w1)
        elif w2 is not None:
            det = "the implemented automaton rejects %s, which the pattern matches" % list(w2)
        res.check(w1 is None and w2 is None, "C18.d", key, src, det, by="DFA equivalence over %d symbols" % len(alpha))
    if tier == "thorough":
        exhaustive(res, gadgets, m)
    from .. import lints as _lints

    rule_parser(repo, res, m)
    res.floor("C18.g", 6)
    _lints.rule(repo, res, "C18.f", ['symbol_re'])
    from .. import globals_state as _gs

    _gs.rule(repo, res, "C18.f", ['symbol_re'], what="the automaton built for one pattern (a later pattern could be answered from an earlier, different one)")
    res.floor("C18.f", 2)
    res.floor("C18.a", 15)
    res.floor("C18.b", 4)
    res.floor("C18.c", 9)
    res.floor("C18.d", len(CORPUS) + 3)
    res.assumptions = [
        "the recursive-descent parser's reading of a pattern equals the reference grammar's (precedence is not decided here)",
        "valid_next_symbols is not decided",
        "set/dict/defaultdict semantics of CPython",
    ]
    res.trusted = ["vcheck.regex reference engine (own parser, subset construction, product comparison)"]
    return res


def pattern_literals(repo):
    """string literals passed to Matcher(...) / make_matching_sequence(...) anywhere in the package."""
    out = []
    for m in repo.modules.values():
        for n in ast.walk(m.tree):
            if isinstance(n, ast.Call) and dotted(n.func) in ("Matcher", "make_matching_sequence", "symbol_re.Matcher"):
                for a in n.args:
                    s = const_str(a)
                    if s is not None and m.name.split(".")[-1] != "symbol_re":
                        out.append(("%s:%s" % (m.rel, dotted(n.func)), s))
    return out


def _method(cls, name):
    for s in cls.body:
        if isinstance(s, ast.FunctionDef) and s.name == name:
            return s
    raise AnalysisError("anchor vanished: %s.%s" % (cls.name, name))


def simulation_shape(repo, res, m):
    node = m.classes.get("NFANode")
    matcher = m.classes.get("Matcher")
    if node is None or matcher is None:
        raise AnalysisError("anchor vanished: NFANode / Matcher")
    # follow: iterates the closure, then the symbol edges of each closure member; a destination is suppressed only if
    # that very node was reported before
    fo = _method(node, "follow")
    sym = fo.args.args[1].arg
    ok = False
    dedup_ok = True
    for loop in ast.walk(fo):
        if isinstance(loop, ast.For) and isinstance(loop.iter, ast.Call) and dotted(loop.iter.func) == "self.equivalent_nodes":
            v = dotted(loop.target)
            for inner in ast.walk(loop):
                if isinstance(inner, ast.For) and inner is not loop:
                    t = norm(inner.iter)
                    if t.startswith("%s.transitions" % v) and sym in [n.id for n in ast.walk(inner.iter) if isinstance(n, ast.Name)]:
                        ok = any(isinstance(y, (ast.Yield,)) for y in ast.walk(inner)) or any(isinstance(c, ast.Call) and isinstance(c.func, ast.Attribute) and c.func.attr in ("add", "append") for c in ast.walk(inner))
                        nb = dotted(inner.target)
                        for i_ in ast.walk(inner):
                            if isinstance(i_, ast.If) and any(isinstance(y, ast.Yield) for y in ast.walk(i_)):
                                tt = i_.test
                                good = isinstance(tt, ast.Compare) and len(tt.ops) == 1 and isinstance(tt.ops[0], ast.NotIn) and dotted(tt.left) == nb
                                adds = [c for c in ast.walk(i_) if isinstance(c, ast.Call) and isinstance(c.func, ast.Attribute) and c.func.attr == "add"]
                                good = good and all(len(c.args) == 1 and dotted(c.args[0]) == nb for c in adds)
                                dedup_ok = dedup_ok and good
                        if len(inner.body) != 1 and not all(isinstance(b, (ast.If, ast.Expr)) for b in inner.body):
                            dedup_ok = False
    res.check(ok, "C18.c", "follow:closure-then-step", "%s:NFANode.follow" % m.rel, "follow() does not step on `symbol` from every member of self.equivalent_nodes()", by="for node in self.equivalent_nodes(): for n in node.transitions[symbol]")
    res.check(ok and dedup_ok, "C18.c", "follow:suppresses-only-repeated-nodes", "%s:NFANode.follow" % m.rel, "follow() may leave out a destination only because that same node has already been reported (`if neighbour not in visited: yield neighbour; visited.add(neighbour)`): merging destinations by any other key (e.g. the symbols they offer next) drops live alternatives that differ later", by="dedup by node identity only")
    # equivalent_nodes: worklist over transitions[None], includes self
    eq = _method(node, "equivalent_nodes")
    txt = norm(eq)
    uses_none = any(
        isinstance(c, ast.Call) and isinstance(c.func, ast.Attribute) and c.func.attr == "get" and c.args and isinstance(c.args[0], ast.Constant) and c.args[0].value is None
        for c in ast.walk(eq)
    ) or any(isinstance(s, ast.Subscript) and isinstance(s.slice, ast.Constant) and s.slice.value is None for s in ast.walk(eq))
    has_loop = any(isinstance(n, ast.While) for n in ast.walk(eq))
    starts_self = "self" in [dotted(e) for n in ast.walk(eq) if isinstance(n, (ast.List, ast.Set, ast.Tuple)) for e in n.elts]
    res.check(uses_none and has_loop and starts_self, "C18.c", "equivalent_nodes:closure", "%s:NFANode.equivalent_nodes" % m.rel, "equivalent_nodes() is not a worklist closure over the None-labelled edges starting from self", by="worklist from self over transitions[None]")
    # match_symbol
    ms = _method(matcher, "match_symbol")
    symp = ms.args.args[1].arg
    follows = set()
    for loop in ast.walk(ms):
        if isinstance(loop, ast.For) and norm(loop.iter) == "self.cur_states":
            v = dotted(loop.target)
            for c in ast.walk(loop):
                if isinstance(c, ast.Call) and dotted(c.func) == "%s.follow" % v and c.args:
                    follows.add(dotted(c.args[0]))
    res.check({symp, "WILDCARD"} <= follows, "C18.c", "match_symbol:symbol-and-wildcard", "%s:Matcher.match_symbol" % m.rel, "match_symbol steps on %s for every current state (needs both the symbol and WILDCARD)" % sorted(x for x in follows if x), by="follow(symbol) and follow(WILDCARD) over self.cur_states")
    # both steps are unconditional and accumulate into the set that becomes cur_states
    stored_from = set(dotted(a.value) for a in ast.walk(ms) if isinstance(a, ast.Assign) and any(norm(t) == "self.cur_states" for t in a.targets))
    uncond = {}
    for c in ast.walk(ms):
        if isinstance(c, ast.Call) and isinstance(c.func, ast.Attribute) and c.func.attr == "follow" and c.args and dotted(c.args[0]) in (symp, "WILDCARD"):
            okc = True
            why = ""
            q, p = c, getattr(c, "_parent", None)
            acc = None
            if isinstance(p, ast.Call) and isinstance(p.func, ast.Attribute) and p.func.attr == "update" and len(p.args) == 1 and p.args[0] is c:
                acc = dotted(p.func.value)
            elif isinstance(p, ast.AugAssign) and isinstance(p.op, ast.BitOr) and p.value is c:
                acc = dotted(p.target)
            if acc is None or acc not in stored_from:
                okc, why = False, "its result is not accumulated into the set stored to self.cur_states"
            while p is not None and p is not ms:
                if isinstance(p, (ast.If, ast.While, ast.Try, ast.IfExp)):
                    okc, why = False, "it is conditional (`%s`)" % short(getattr(p, "test", p), 50)
                if isinstance(p, ast.For) and not (norm(p.iter) == "self.cur_states" and dotted(c.func.value) == dotted(p.target)):
                    okc, why = False, "it is not applied to every member of self.cur_states"
                q, p = p, getattr(p, "_parent", None)
            k = dotted(c.args[0])
            uncond[k] = uncond.get(k, False) or okc
            if not okc:
                uncond.setdefault(k + ":why", why)
    res.check(uncond.get(symp) and uncond.get("WILDCARD"), "C18.c", "match_symbol:steps-unconditional", "%s:Matcher.match_symbol" % m.rel, "the %s step of match_symbol is not taken on every call: %s -- an alternative reached only through that step is dropped" % ("wildcard" if not uncond.get("WILDCARD") else "symbol", uncond.get("WILDCARD:why") or uncond.get(symp + ":why") or "not found"), by="both steps run for every current state on every call")
    # the matcher's observable state is (nfa, cur_states) only; queries are pure and return fresh objects
    stores = {}
    for name_, f_ in class_methods(matcher).items():
        for a in ast.walk(f_):
            tg = a.targets if isinstance(a, ast.Assign) else [a.target] if isinstance(a, (ast.AugAssign, ast.AnnAssign)) else []
            for t in tg:
                for y in ast.walk(t):
                    if isinstance(y, ast.Attribute) and isinstance(y.value, ast.Name) and y.value.id == "self" and not isinstance(y.ctx, ast.Load):
                        stores.setdefault(y.attr, set()).add(name_)
            if isinstance(a, ast.Call) and dotted(a.func) == "setattr":
                stores.setdefault("<setattr>", set()).add(name_)
    allowed = {"nfa": {"__init__"}, "cur_states": {"__init__", "match_symbol"}}
    extra = {k: sorted(v) for k, v in stores.items() if not v <= allowed.get(k, set())}
    res.check(not extra and set(allowed) <= set(stores), "C18.c", "Matcher:state-is-nfa-and-cur_states", "%s:Matcher" % m.rel, "Matcher keeps further state %s: answers of is_complete/valid_next_symbols must be functions of the NFA and the current state set alone (a cached answer can go stale or be edited by a caller)" % extra, by="only self.nfa (constructor) and self.cur_states (constructor, match_symbol) are ever stored")
    vn = _method(matcher, "valid_next_symbols")
    fresh = True
    rets = [r for r in ast.walk(vn) if isinstance(r, ast.Return)]
    for r in rets:
        if isinstance(r.value, ast.Name):
            ds = [a for a in ast.walk(vn) if isinstance(a, ast.Assign) and any(isinstance(t, ast.Name) and t.id == r.value.id for t in a.targets)]
            if not ds or not all((isinstance(d.value, ast.Call) and dotted(d.value.func) in ("set", "frozenset")) or isinstance(d.value, (ast.Set, ast.SetComp)) for d in ds):
                fresh = False
        elif not (isinstance(r.value, (ast.Set, ast.SetComp)) or (isinstance(r.value, ast.Call) and dotted(r.value.func) in ("set", "frozenset"))):
            fresh = False
    res.check(bool(rets) and fresh, "C18.c", "valid_next_symbols:fresh-result", "%s:Matcher.valid_next_symbols" % m.rel, "valid_next_symbols must return a set built during the call (callers such as make_matching_sequence edit the returned set in place)", by="returns a set constructed in the call")
    # no store to cur_states on a path that returns False
    bad = []

    def on(node_, st):
        if isinstance(node_, ast.Assign):
            if any(norm(t) == "self.cur_states" for t in node_.targets):
                return st.add("stored")
        elif isinstance(node_, ast.Return):
            v = node_.value
            falsy = isinstance(v, ast.Constant) and not v.value
            truthy = isinstance(v, ast.Constant) and v.value is True
            if falsy and "stored" in st.may:
                bad.append("cur_states may be replaced before `return False`")
            if truthy and "stored" not in st.must:
                bad.append("`return True` without advancing cur_states")
            if not falsy and not truthy:
                bad.append("match_symbol returns a non-literal: %s" % norm(v))
        return st

    MustFlow(ms, on, node_types=(ast.Assign, ast.Return)).run()
    res.check(not bad, "C18.c", "match_symbol:no-advance-on-failure", "%s:Matcher.match_symbol" % m.rel, "; ".join(bad), by="cur_states stored exactly on the paths returning True")
    # is_complete
    ic = _method(matcher, "is_complete")
    from ..core import pmatch as _pm

    body = [x for x in ic.body if not (isinstance(x, ast.Expr) and isinstance(x.value, ast.Constant))]
    shape = len(body) == 2 and isinstance(body[0], ast.For) and norm(body[0].iter) == "self.cur_states" and isinstance(body[0].target, ast.Name) and not body[0].orelse and isinstance(body[1], ast.Return) and isinstance(body[1].value, ast.Constant) and body[1].value.value is False
    tests = []
    if shape:
        v = body[0].target.id
        for st in body[0].body:
            if isinstance(st, ast.If) and not st.orelse and len(st.body) == 1 and isinstance(st.body[0], ast.Return) and isinstance(st.body[0].value, ast.Constant) and st.body[0].value.value is True:
                tests.extend(st.test.values if isinstance(st.test, ast.BoolOp) and isinstance(st.test.op, ast.Or) else [st.test])
            else:
                shape = False
        final_forms = ["self.nfa.final in list(%s.equivalent_nodes())", "self.nfa.final in %s.equivalent_nodes()", "self.nfa.final in set(%s.equivalent_nodes())"]
        eos_forms = ["list(%s.follow(END_OF_SEQUENCE))", "set(%s.follow(END_OF_SEQUENCE))", "any(True for ANY_ in %s.follow(END_OF_SEQUENCE))", "len(list(%s.follow(END_OF_SEQUENCE))) > 0", "len(list(%s.follow(END_OF_SEQUENCE))) != 0"]
        has_final = sum(1 for t in tests if any(_pm(f % v, t) is not None for f in final_forms))
        has_eos = sum(1 for t in tests if any(_pm(f % v, t) is not None for f in eos_forms))
        shape = shape and len(tests) == 2 and has_final == 1 and has_eos == 1
    res.check(shape, "C18.c", "is_complete:final-in-closure", "%s:Matcher.is_complete" % m.rel, "is_complete() must return True exactly when, for some current state, the final node is in its epsilon closure or it has *any* end-of-sequence edge (the language comparison of C18.d/e assumes exactly this acceptance condition), and False otherwise (tests found: %s)" % [short(t, 60) for t in tests], by="for each current state: final in equivalent_nodes() or follow(END_OF_SEQUENCE) non-empty; else False")
    # constructor
    init = _method(matcher, "__init__")
    t = norm(init)
    ok = "NFA.from_ast(parse_regex(" in t and ("set([self.nfa.start])" in t or "{self.nfa.start}" in t)
    res.check(ok, "C18.c", "Matcher.__init__:start-state", "%s:Matcher.__init__" % m.rel, "Matcher does not start from {nfa.start} of NFA.from_ast(parse_regex(pattern))", by="cur_states = {nfa.start}")


def _trees(n, memo={}):
    """all pattern ASTs with exactly n nodes over leaves a, b, any, end"""
    if n in memo:
        return memo[n]
    out = []
    if n == 1:
        out = [("sym", "a"), ("sym", "b"), ("any",), ("end",)]
    else:
        for t in _trees(n - 1):
            if t[0] != "star":
                out.append(("star", t))
        for k in range(1, n - 1):
            for l in _trees(k):
                for r in _trees(n - 1 - k):
                    out.append(("cat", l, r))
                    if l <= r:
                        out.append(("alt", l, r))
    memo[n] = out
    return out


def _show(t):
    k = t[0]
    if k == "sym":
        return t[1]
    if k == "any":
        return "."
    if k == "end":
        return "$"
    if k == "star":
        return "(%s)*" % _show(t[1])
    return "(%s %s %s)" % (_show(t[1]), "|" if k == "alt" else "", _show(t[2]))


def exhaustive(res, gadgets, m, max_nodes=8):
    alpha = ["a", "b", "any", "end", regex.OTHER]
    where = "%s:NFA.from_ast" % m.rel
    for n in range(1, max_nodes + 1):
        trees = _trees(n)
        bad = None
        for t in trees:
            d_ref = regex.to_dfa(regex.build(t), alpha)
            d_impl = regex.to_dfa(regex.build(t, gadgets, bidirectional_eps=False), alpha)
            w1, w2 = regex.compare(d_impl, d_ref)
            if w1 is not None or w2 is not None:
                bad = (t, w1, w2)
                break
        res.check(bad is None, "C18.e", "exhaustive:trees-of-%d-nodes" % n, where, "with directed epsilon edges the extracted construction differs from the reference on `%s` (%s %s)" % (_show(bad[0]), "accepts" if bad[1] is not None else "rejects", list(bad[1] if bad[1] is not None else bad[2])) if bad else "", by="%d pattern trees, composed gadgets = reference" % len(trees))


def rule_parser(repo, res, m):
    from ..core import pfind, pall, pmatch

    fn = m.funcs.get("parse_expression")
    if fn is None:
        raise AnalysisError("anchor vanished: symbol_re.parse_expression")
    where = "%s:parse_expression" % m.rel
    tk = fn.args.args[0].arg
    rets = [r for r in ast.walk(fn) if isinstance(r, ast.Return)]
    A = dotted(rets[0].value) if len(rets) == 1 and fn.body[-1] is rets[0] else None
    res.check(A is not None, "C18.g", "parser:returns-the-accumulated-tree", where, "parse_expression must end with a single `return <accumulated tree>`", by="return %s" % A)
    n, e = pfind("X_n = Symbol(%s.pop(-1)[1])" % tk, fn)
    N = e["X_n"] if n is not None else None
    res.check(N is not None, "C18.g", "parser:symbol-item", where, "a string token must become Symbol(<its text>)", by="%s = Symbol(tokens.pop(-1)[1])" % N)
    if A is None or N is None:
        return
    checks = [
        ("parser:bar-joins-left-parse-with-everything-so-far", "%s = Union(parse_expression(%s), %s)" % (A, tk, A), "a bar must build Union(parse_expression(tokens), <everything parsed so far>): using only the most recent item drops the rest of an unparenthesised right-hand alternative"),
        ("parser:item-prepended-to-rest", "if %s is None:\n    %s = %s\nelse:\n    %s = Concatenation(%s, %s)" % (A, A, N, A, N, A), "each item must be prepended to the accumulated tree with Concatenation(item, rest) (tokens are consumed right to left)"),
        ("parser:star", "%s = Star(%s)" % (N, N), "`*` must wrap the item in Star"),
        ("parser:plus", "%s = Concatenation(%s, Star(%s))" % (N, N, N), "`+` must build Concatenation(item, Star(item))"),
        ("parser:optional", "%s = Union(%s, None)" % (N, N), "`?` must build Union(item, None)"),
        ("parser:group", "%s = parse_expression(%s)" % (N, tk), "a parenthesised group must become the parse of its contents"),
    ]
    for key, pat, why in checks:
        hits = pall(pat, fn)
        res.check(len(hits) == 1, "C18.g", key, where, "%s (found %d statement(s) of the form `%s`)" % (why, len(hits), pat.replace("\n", " ")), by=pat.replace("\n", " "))
    # nothing else assigns the accumulated tree
    stores = [a for a in ast.walk(fn) if isinstance(a, ast.Assign) and dotted(a.targets[0]) == A]
    res.check(len(stores) == 4, "C18.g", "parser:no-other-store-into-the-tree", where, "the accumulated tree must be assigned only by its initialisation to None, the bar rule and the two arms of the prepend rule (found %d stores)" % len(stores), by="4 stores")
