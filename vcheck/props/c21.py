"""C21 Serialiser/deserialiser framework round-trips arbitrary description
programs (structural part): primitive exhaustiveness and pairing, ownership of
the context dictionary, enter/leave and begin/end pairing inside the framework
and balance in the VC-2 description program, context-type replacement."""
import ast
from collections import OrderedDict

from ..core import AnalysisError, class_methods, const_str, dotted, norm, short
from ..report import Result
from ..mustflow import MustFlow, FS
from ..serdes_model import SerdesModel, PRIMS

PRIM_IO = {"bool": "bit", "nbits": "nbits", "uint_lit": "uint_lit", "bitarray": "bitarray", "bytes": "bytes", "uint": "uint", "sint": "sint"}
CONTEXT_WRITERS = {"_set_context_value", "_setdefault_context_value", "declare_list", "set_context_type"}
CONTEXT_REBINDERS = {"__init__", "subcontext_enter", "subcontext_leave", "set_context_type"}


def check(repo, tier="quick"):
    res = Result("C21")
    res.explanation = (
        "Class-table agreement of the seven serdes primitives across SerDes/Deserialiser/Serialiser/MonitoredMixin and the "
        "reader/writer they call; effect analysis of who writes the context dictionary; must-flow pairing inside the framework; "
        "typestate (sub-context depth, bounded-block alternation, list declaration) over every function of the VC-2 description program."
    )
    res.rule("C21.h", "bug patterns with zero expected instances in this property's modules: swapped same-named arguments, lower-bound guard followed by a decrement of the guarded value, presence of a dictionary entry decided by truthiness")
    res.rule("C21.a", "the primitive set declared abstract in SerDes = overridden in Deserialiser = Serialiser = MonitoredMixin; each pair calls io.read_X / io.write_X for the same X with the size argument passed through")
    res.rule("C21.b", "only the four context-writer methods store into the context; deserialiser primitives reach it only through _set_context_value (which refuses reuse), serialiser primitives only through _get_context_value")
    res.rule("C21.c", "framework pairing: subcontext_leave verifies completeness before popping; __exit__ verifies when no exception is in flight; context managers call begin/enter before and end/leave after the yield")
    res.rule("C21.d", "description program: sub-context depth balanced at every exit, bounded blocks alternate strictly and are closed at exit, every repeated target is declared as a list before use")
    res.rule("C21.e", "set_context_type rewrites the parent's reference (scalar and list arms) whenever it replaces the context object and a parent exists")

    m = repo.mod("bitstream.serdes")
    classes = {n: m.classes.get(n) for n in ("SerDes", "Deserialiser", "Serialiser", "MonitoredMixin")}
    for n, c in classes.items():
        if c is None:
            raise AnalysisError("anchor vanished: bitstream.serdes:%s" % n)
    meth = {n: class_methods(c) for n, c in classes.items()}
    where = m.rel
    rule_a(repo, res, m, meth, where)
    rule_b(repo, res, m, meth, where)
    rule_c(repo, res, m, meth, where)
    rule_d(repo, res)
    rule_e(repo, res, m, meth, where)
    rule_defaults(res, meth, where)
    from .. import lints as _lints

    _lints.rule(repo, res, "C21.h", ['bitstream.serdes', 'fixeddict', 'bitstream.vc2_fixeddicts'])
    res.floor("C21.h", 4)
    res.floor("C21.a", 34)
    res.floor("C21.b", 15)
    res.floor("C21.c", 5)
    res.floor("C21.d", 45)
    res.floor("C21.e", 3)
    res.assumptions = [
        "value-level inverse-ness of io.read_X / io.write_X is C20's subject",
        "description programs other than bitstream/vc2.py are not analysed",
    ]
    res.trusted = ["CPython ast", "MRO of MonitoredSerialiser/MonitoredDeserialiser: MonitoredMixin first"]
    return res


def rule_defaults(res, meth, where):
    """serialisation fails when a needed value is missing and no default exists: in Serialiser._get_context_value the
    handler of the lookup failure returns only a *subscript by the target* of the defaults (which raises when the
    target has no default) or re-raises; a dict.get() there turns a missing value into None, which bool() writes as 0"""
    fn = meth["Serialiser"].get("_get_context_value")
    key = "Serialiser._get_context_value"
    if fn is None:
        res.check(False, "C21.b", "%s:default-fallback" % key, where, "Serialiser no longer overrides _get_context_value", by="")
        return
    tgt = fn.args.args[1].arg
    handlers = [h for t in ast.walk(fn) if isinstance(t, ast.Try) for h in t.handlers]
    ok = len(handlers) == 1
    detail = "expected one except clause around the inherited lookup"
    if ok:
        h = handlers[0]
        rets = [r for r in ast.walk(h) if isinstance(r, ast.Return)]
        soft = [r for r in rets if not (isinstance(r.value, ast.Subscript) and dotted(r.value.slice) == tgt)]
        reraises = [r for r in ast.walk(h) if isinstance(r, ast.Raise) and r.exc is None]
        falls = not isinstance(h.body[-1], (ast.Raise, ast.Return, ast.If))
        if isinstance(h.body[-1], ast.If):
            falls = not h.body[-1].orelse or not isinstance(h.body[-1].orelse[-1], (ast.Raise, ast.Return)) or not isinstance(h.body[-1].body[-1], (ast.Raise, ast.Return))
        ok = not soft and bool(reraises) and not falls
        detail = "the fallback returns %s / re-raises %d time(s)%s: a target that is missing from the description *and* from the defaults must propagate the original error, not become a value" % ([short(r, 50) for r in soft] or "only defaults[...][target]", len(reraises), ", and can fall off its end (returning None)" if falls else "")
    res.check(ok, "C21.b", "%s:default-fallback-raises-when-no-default" % key, "%s:%s" % (where, key), detail, by="return <defaults>[...][target] or bare raise")


def abstract_prims(meth):
    out = []
    for name, fn in meth["SerDes"].items():
        body = [s for s in fn.body if not (isinstance(s, ast.Expr) and isinstance(s.value, ast.Constant))]
        if len(body) == 1 and isinstance(body[0], ast.Raise) and isinstance(body[0].exc, ast.Call) and dotted(body[0].exc.func) == "NotImplementedError":
            out.append(name)
    return out


def rule_a(repo, res, m, meth, where):
    prims = abstract_prims(meth)
    res.info["primitives"] = prims
    res.check(set(prims) == set(PRIM_IO), "C21.a", "SerDes:abstract-primitives", "%s:SerDes" % where, "abstract primitives %s differ from the seven the description program uses %s" % (sorted(prims), sorted(PRIM_IO)), by="7 abstract primitives")
    im, rd = repo.cls("bitstream.io:BitstreamReader")
    wm, wr = repo.cls("bitstream.io:BitstreamWriter")
    rmeth, wmeth = class_methods(rd), class_methods(wr)
    for p in prims:
        for cname in ("Deserialiser", "Serialiser", "MonitoredMixin"):
            res.check(p in meth[cname], "C21.a", "%s.%s:overridden" % (cname, p), "%s:%s" % (where, cname), "%s does not override the primitive %s (calls would raise NotImplementedError / skip the monitor)" % (cname, p), by="overridden")
        d, s = meth["Deserialiser"].get(p), meth["Serialiser"].get(p)
        if d is None or s is None:
            continue
        x = PRIM_IO.get(p, p)
        dcalls = [c for c in ast.walk(d) if isinstance(c, ast.Call) and (dotted(c.func) or "").startswith("self.io.")]
        scalls = [c for c in ast.walk(s) if isinstance(c, ast.Call) and (dotted(c.func) or "").startswith("self.io.")]
        dn = [dotted(c.func).split(".")[-1] for c in dcalls]
        sn = [dotted(c.func).split(".")[-1] for c in scalls]
        res.check(dn == ["read_" + x] and sn == ["write_" + x], "C21.a", "%s:io-pair" % p, where, "Deserialiser.%s calls %s, Serialiser.%s calls %s; expected read_%s / write_%s" % (p, dn, p, sn, x, x), by="read_%s / write_%s" % (x, x))
        # size argument passed through in the same role
        dparams = [a.arg for a in d.args.args][2:]
        sparams = [a.arg for a in s.args.args][2:]
        res.check(dparams == sparams, "C21.a", "%s:same-signature" % p, where, "Deserialiser.%s%s and Serialiser.%s%s take different size parameters" % (p, dparams, p, sparams), by="same parameters %s" % dparams)
        if dcalls and scalls and dparams:
            dargs = [dotted(a) for a in dcalls[0].args]
            sargs = [dotted(a) for a in scalls[0].args]
            ok = dargs == dparams and sargs[: len(dparams)] == sparams and len(sargs) == len(sparams) + 1
            # the io methods take the size first on both sides
            r_io, w_io = rmeth.get("read_" + x), wmeth.get("write_" + x)
            if r_io is not None and w_io is not None:
                ok = ok and [a.arg for a in r_io.args.args][1 : 1 + len(dparams)] == [a.arg for a in w_io.args.args][1 : 1 + len(dparams)] or ok and len(dparams) == 1
            res.check(ok, "C21.a", "%s:size-argument" % p, where, "size argument not passed through identically: reader%s writer%s" % (dargs, sargs), by="reader(%s) / writer(%s, value)" % (", ".join(dparams), ", ".join(sparams)))
        # each side performs its stream access and its context access unconditionally, once, on every call
        for cname, f, ctx, io_call in (("Deserialiser", d, "_set_context_value", "read_" + x), ("Serialiser", s, "_get_context_value", "write_" + x)):
            body = [b for b in f.body if not (isinstance(b, ast.Expr) and isinstance(b.value, ast.Constant))]

            def top_index(name):
                for i, b in enumerate(body):
                    if isinstance(b, (ast.Expr, ast.Assign, ast.Return)) and any(isinstance(c, ast.Call) and (dotted(c.func) or "").endswith("." + name) for c in ast.walk(b)):
                        return i
                return None

            i_ctx, i_io = top_index(ctx), top_index(io_call)
            early = [b for b in body[: max(i_ctx or 0, i_io or 0)] if any(isinstance(z, (ast.Return, ast.Raise, ast.If, ast.While, ast.For, ast.Try)) for z in ast.walk(b))]
            res.check(i_ctx is not None and i_io is not None and not early, "C21.a", "%s.%s:unconditional" % (cname, p), "%s:%s" % (where, cname), "%s.%s must call self.%s and self.io.%s as statements of its body on every call, with no branch or exit before them: a shortcut for some argument value (e.g. zero width) makes one side skip a target that the other side stores or requires" % (cname, p, ctx, io_call), by="%s and io.%s at the top level of the body" % (ctx, io_call))
        # deserialiser returns what it read and stored; serialiser returns what it wrote
        mon = meth["MonitoredMixin"].get(p)
        if mon is not None:
            calls_super = any(isinstance(c, ast.Call) and isinstance(c.func, ast.Attribute) and c.func.attr == p and isinstance(c.func.value, ast.Call) and dotted(c.func.value.func) == "super" for c in ast.walk(mon))
            res.check(calls_super, "C21.a", "MonitoredMixin.%s:delegates" % p, where, "MonitoredMixin.%s does not delegate to super().%s" % (p, p), by="super().%s(...)" % p)


def stores_into_context(fn):
    """statements of fn that store into self.cur_context (or a list in it)."""
    out = []
    aliases = set()
    for n in ast.walk(fn):
        if isinstance(n, ast.Assign) and isinstance(n.targets[0], ast.Name) and "self.cur_context" in norm(n.value) and not isinstance(n.value, ast.Call):
            aliases.add(n.targets[0].id)
    for n in ast.walk(fn):
        if isinstance(n, (ast.Assign, ast.AugAssign, ast.Delete)):
            tg = n.targets if isinstance(n, (ast.Assign, ast.Delete)) else [n.target]
            for t in tg:
                if isinstance(t, ast.Subscript):
                    b = t.value
                    while isinstance(b, ast.Subscript):
                        b = b.value
                    if dotted(b) == "self.cur_context" or (isinstance(b, ast.Name) and b.id in aliases):
                        out.append(n)
        elif isinstance(n, ast.Call) and isinstance(n.func, ast.Attribute) and n.func.attr in ("append", "setdefault", "update", "pop", "insert", "extend", "clear"):
            b = n.func.value
            while isinstance(b, ast.Subscript):
                b = b.value
            if dotted(b) == "self.cur_context" or (isinstance(b, ast.Name) and b.id in aliases):
                out.append(n)
    return out


def rule_b(repo, res, m, meth, where):
    for cname, ms in meth.items():
        for name, fn in ms.items():
            st = stores_into_context(fn)
            rebinds = [n for n in ast.walk(fn) if isinstance(n, ast.Assign) and any(norm(t) == "self.cur_context" for t in n.targets)]
            key = "%s.%s" % (cname, name)
            if st:
                res.check(name in CONTEXT_WRITERS and cname == "SerDes", "C21.b", "%s:context-store" % key, "%s:%s" % (where, key), "%s stores into the context dictionary outside the four writer methods: %s" % (key, short(st[0])), by="one of the four writers")
            if rebinds:
                res.check(name in CONTEXT_REBINDERS and cname == "SerDes", "C21.b", "%s:context-rebind" % key, "%s:%s" % (where, key), "%s rebinds self.cur_context: %s" % (key, short(rebinds[0])), by="allowed rebinder")
    prims = abstract_prims(meth)
    for p in prims:
        d, s = meth["Deserialiser"].get(p), meth["Serialiser"].get(p)
        if d is not None:
            calls = [dotted(c.func) for c in ast.walk(d) if isinstance(c, ast.Call) and (dotted(c.func) or "").startswith("self._")]
            uses_ctx = "self.cur_context" in norm(d)
            res.check(calls == ["self._set_context_value"] and not uses_ctx, "C21.b", "Deserialiser.%s:via-set" % p, where, "Deserialiser.%s reaches the context through %s" % (p, calls or "direct access"), by="_set_context_value only")
        if s is not None:
            calls = [dotted(c.func) for c in ast.walk(s) if isinstance(c, ast.Call) and (dotted(c.func) or "").startswith("self._")]
            uses_ctx = "self.cur_context" in norm(s)
            res.check(calls == ["self._get_context_value"] and not uses_ctx, "C21.b", "Serialiser.%s:via-get" % p, where, "Serialiser.%s reaches the context through %s" % (p, calls or "direct access"), by="_get_context_value only")
    # reuse is refused
    setv = meth["SerDes"].get("_set_context_value")
    ok = False
    if setv is not None:
        for n in ast.walk(setv):
            if isinstance(n, ast.If):
                for b in [n] + [x for x in ast.walk(n) if isinstance(x, ast.If)]:
                    if "is True" in norm(b.test) and any(isinstance(x, ast.Raise) and isinstance(x.exc, ast.Call) and dotted(x.exc.func) == "ReusedTargetError" for x in b.body):
                        ok = True
    res.check(ok, "C21.b", "_set_context_value:refuses-reuse", "%s:SerDes._set_context_value" % where, "a second write to a non-list target must raise ReusedTargetError (deserialisation never overwrites a value)", by="raises ReusedTargetError")
    getv = meth["SerDes"].get("_get_context_value")
    ok = getv is not None and any(isinstance(x, ast.Raise) and isinstance(x.exc, ast.Call) and dotted(x.exc.func) == "ReusedTargetError" for x in ast.walk(getv)) and any(isinstance(x, ast.Raise) and isinstance(x.exc, ast.Call) and dotted(x.exc.func) == "ListTargetExhaustedError" for x in ast.walk(getv))
    res.check(ok, "C21.b", "_get_context_value:refuses-reuse-and-exhaustion", "%s:SerDes._get_context_value" % where, "reading a used target / an exhausted list must raise", by="raises ReusedTargetError / ListTargetExhaustedError")
    # the "used" mark precedes the lookup that may fail: Serialiser._get_context_value catches the KeyError of a
    # missing value and substitutes the default, so a mark placed after the lookup is skipped exactly when a
    # default is used and the target can then be consumed again
    ok = False
    det = "branch `if target not in self._cur_context_indices` not found"
    if getv is not None:
        tp = getv.args.args[1].arg
        for n in ast.walk(getv):
            if isinstance(n, ast.If) and isinstance(n.test, ast.Compare) and isinstance(n.test.ops[0], ast.NotIn) and dotted(n.test.left) == tp and norm(n.test.comparators[0]) == "self._cur_context_indices":
                first = n.body[0]
                ok = isinstance(first, ast.Assign) and norm(first.targets[0]) == "self._cur_context_indices[%s]" % tp and isinstance(first.value, ast.Constant) and first.value.value is True
                det = "in the not-yet-used branch the first statement is `%s`; the target must be marked used (self._cur_context_indices[target] = True) before self.cur_context[target] is read, because the serialiser turns the KeyError of a missing value into its default and would otherwise never mark the target" % short(first, 60)
    sget = meth.get("Serialiser", {}).get("_get_context_value")
    catches = sget is not None and any(isinstance(h, ast.ExceptHandler) and h.type is not None and "KeyError" in norm(h.type) for h in ast.walk(sget))
    res.check(ok or not catches, "C21.b", "_get_context_value:marked-before-lookup", "%s:SerDes._get_context_value" % where, det, by="marked used before the lookup that may raise KeyError")


def rule_c(repo, res, m, meth, where):
    sd = meth["SerDes"]
    leave = sd.get("subcontext_leave")
    if leave is None:
        raise AnalysisError("anchor vanished: SerDes.subcontext_leave")
    problems = []

    def on(node, st):
        d = dotted(node.func)
        if d == "self._verify_context_is_complete":
            return st.add("verified")
        if d and d.endswith(".pop") and d.startswith("self._"):
            if "verified" not in st.must:
                problems.append("%s before the completeness check" % d)
            return st.add("popped")
        return st

    MustFlow(leave, on).run()
    npop = sum(1 for c in ast.walk(leave) if isinstance(c, ast.Call) and (dotted(c.func) or "").endswith(".pop"))
    res.check(not problems and npop == 3, "C21.c", "subcontext_leave:verify-then-pop", "%s:SerDes.subcontext_leave" % where, "; ".join(problems) or "%d pops (expected the three stacks)" % npop, by="completeness verified before the three stack pops")
    ex = sd.get("__exit__")
    ok = False
    if ex is not None:
        for n in ast.walk(ex):
            if isinstance(n, ast.If) and norm(n.test) in ("exc_type is None",) and any(isinstance(c, ast.Call) and dotted(c.func) == "self.verify_complete" for c in ast.walk(n)):
                ok = True
    res.check(ok, "C21.c", "__exit__:verifies", "%s:SerDes.__exit__" % where, "__exit__ must call verify_complete() when no exception is in flight", by="if exc_type is None: self.verify_complete()")
    for name, before, after in (("subcontext", "self.subcontext_enter", "self.subcontext_leave"), ("bounded_block", "self.bounded_block_begin", "self.bounded_block_end")):
        fn = sd.get(name)
        ok = False
        if fn is not None:
            seq = []
            for s in fn.body:
                if isinstance(s, ast.Expr) and isinstance(s.value, ast.Call):
                    seq.append(dotted(s.value.func))
                elif isinstance(s, ast.Expr) and isinstance(s.value, ast.Yield):
                    seq.append("yield")
                elif isinstance(s, ast.Expr) and isinstance(s.value, ast.Constant):
                    continue
                else:
                    seq.append("?")
            ok = seq == [before, "yield", after] and any(dotted(d) == "contextmanager" for d in fn.decorator_list)
        res.check(ok, "C21.c", "%s:enter-yield-leave" % name, "%s:SerDes.%s" % (where, name), "context manager %s must be exactly %s; yield; %s" % (name, before, after), by="%s, yield, %s" % (before, after))
    vc = sd.get("verify_complete")
    t = norm(vc) if vc is not None else ""
    raised = set(dotted(r.exc.func) for r in ast.walk(vc) if isinstance(r, ast.Raise) and isinstance(r.exc, ast.Call)) if vc is not None else set()
    ok = vc is not None and any(isinstance(c, ast.Call) and dotted(c.func) == "self._verify_context_is_complete" for c in ast.walk(vc)) and {"UnclosedNestedContextError", "UnclosedBoundedBlockError"} <= raised
    res.check(ok, "C21.c", "verify_complete:three-checks", "%s:SerDes.verify_complete" % where, "verify_complete must check unused values, unclosed nested contexts and unclosed bounded blocks", by="three checks present")
    # _verify_context_is_complete checks EVERY target of the current context
    vcc = sd.get("_verify_context_is_complete")
    ok = False
    det = "loop over self.cur_context not found"
    if vcc is not None:
        for loop in ast.walk(vcc):
            if isinstance(loop, ast.For) and norm(loop.iter) in ("self.cur_context", "self.cur_context.keys()", "self.cur_context.items()", "list(self.cur_context)", "list(self.cur_context.keys())"):
                tvar = dotted(loop.target) if isinstance(loop.target, ast.Name) else dotted(loop.target.elts[0]) if isinstance(loop.target, ast.Tuple) else None
                skipped = []

                def on(node, st, tvar=tvar):
                    if isinstance(node, ast.Continue):
                        if "verified" not in st.must:
                            skipped.append("continue before the target is verified")
                        return st
                    if isinstance(node, ast.Call) and dotted(node.func) == "self._verify_target_complete" and node.args and dotted(node.args[0]) == tvar:
                        return st.add("verified")
                    return st

                body = ast.FunctionDef(name="_", args=vcc.args, body=[ast.While(test=ast.Constant(value=True), body=list(loop.body) + [ast.Break()], orelse=[])], decorator_list=[], lineno=loop.lineno, col_offset=0)
                ast.fix_missing_locations(body)
                mf = MustFlow(body, on, node_types=(ast.Call, ast.Continue)).run()
                ex = mf.normal_exit_state()
                ok = not skipped and ex is not None and "verified" in ex.must
                det = "; ".join(skipped) or "a path through the loop body does not call _verify_target_complete(target)"
    res.check(ok, "C21.c", "_verify_context_is_complete:every-target", "%s:SerDes._verify_context_is_complete" % where, "every target of the context must be verified (unused values must make serialisation fail): %s" % det, by="_verify_target_complete(target) on every path of the loop over the context")
    vt = sd.get("_verify_target_complete")
    t = norm(vt) if vt is not None else ""
    n_raise = sum(1 for r in ast.walk(vt) if isinstance(r, ast.Raise) and isinstance(r.exc, ast.Call) and dotted(r.exc.func) == "UnusedTargetError") if vt is not None else 0
    notin = any(isinstance(c, ast.Compare) and isinstance(c.ops[0], ast.NotIn) and norm(c.comparators[0]) == "self._cur_context_indices" for c in ast.walk(vt)) if vt is not None else False
    lens = any(isinstance(c, ast.Call) and dotted(c.func) == "len" for c in ast.walk(vt)) if vt is not None else False
    ok = n_raise >= 2 and notin and lens
    res.check(ok, "C21.c", "_verify_target_complete:unused-and-partial", "%s:SerDes._verify_target_complete" % where, "unused targets and partially used lists must raise UnusedTargetError", by="both arms raise")


def rule_d(repo, res):
    sm = SerdesModel(repo)
    helper_uses = {}

    def uses_of_helper(callee, bound):
        """(target, repeated_inside_helper) pairs of a helper without its own
        context type, for one call site's parameter binding (recursively)."""
        out = []
        for op in sm.ops(callee, bound or {}):
            if op.op == "call":
                c2 = list(op.targets)[0]
                if sm.funcs[c2].ctype is None and c2 != callee:
                    inner = uses_of_helper(c2, op.nested)
                    rep = bool(_loops_between(op.node))
                    g = _guards(op.node)
                    out.extend((t, r or rep, gs | g) for t, r, gs in inner)
            elif op.targets and op.op not in ("declare_list", "computed_value"):
                rep = bool(_loops_between(op.node))
                for t in op.targets:
                    out.append((t, rep, _guards(op.node)))
        return out

    for name, sf in sm.funcs.items():
        where = "%s:%s" % (sf.mod.rel, name)
        problems = []
        list_obs = []  # (target, ok, why, node)
        env_ops = {id(op.node): op for op in sm.ops(name)}

        def depth_of(st):
            ds = [t for t in st.must if t[0] == "d" and t[1:].isdigit()]
            return int(ds[0][1:]) if len(ds) == 1 else None

        def set_depth(st, d):
            old = [t for t in st.may if t[0] == "d" and t[1:].isdigit()]
            return st.drop(*old).add("d%d" % d)

        def use(st, t, node, repeated_elsewhere=False, guards=frozenset()):
            d = depth_of(st)
            d = 0 if d is None else d
            guards = guards | _guards(node)
            if "L%d:%s" % (d, t) in st.must or any("L%d:%s@%s" % (d, t, g) in st.must for g in guards):
                list_obs.append((t, True, "declared list", node))
                return st
            used = "u%d:%s" % (d, t) in st.may
            if used or repeated_elsewhere:
                list_obs.append((t, False, "used again in the same context instance" if used else "used in a loop of a helper", node))
            return st.add("u%d:%s" % (d, t))

        def on(node, st):
            if isinstance(node, ast.If):
                # `if P: serdes.declare_list(t)` -- "declared when P" survives the join
                d = depth_of(st) or 0
                for b in node.body:
                    if isinstance(b, ast.Expr) and isinstance(b.value, ast.Call) and dotted(b.value.func) == "serdes.declare_list":
                        o = env_ops.get(id(b.value))
                        if o is not None:
                            for t in o.targets:
                                st = st.add("L%d:%s@%s" % (d, t, norm(node.test)))
                return st
            f = dotted(node.func)
            op = env_ops.get(id(node))
            if f == "serdes.subcontext_enter":
                d = depth_of(st)
                if d is None:
                    problems.append("sub-context depth differs between paths reaching %s" % short(node))
                    return st
                if op is not None:
                    for t in op.targets:
                        st = use(st, t, node)
                return set_depth(st, d + 1)
            if f == "serdes.subcontext_leave":
                d = depth_of(st)
                if d is None:
                    problems.append("sub-context depth differs between paths reaching %s" % short(node))
                    return st
                if d == 0:
                    problems.append("subcontext_leave without a matching subcontext_enter")
                    return st
                inner = [t for t in st.may if t.startswith("u%d:" % d) or t.startswith("L%d:" % d)]
                return set_depth(st.drop(*inner), d - 1)
            if f == "serdes.bounded_block_begin":
                if "bb" in st.may:
                    problems.append("bounded_block_begin while a bounded block may be open")
                return st.add("bb")
            if f == "serdes.bounded_block_end":
                if "bb" not in st.must:
                    problems.append("bounded_block_end without an open bounded block on every path")
                st = st.drop("bb")
            if op is None:
                return st
            if op.op == "declare_list":
                d = depth_of(st) or 0
                for t in op.targets:
                    if "u%d:%s" % (d, t) in st.may:
                        problems.append("declare_list(%r) after the target was used" % t)
                    st = st.add("L%d:%s" % (d, t))
                return st
            if op.op == "call":
                callee = list(op.targets)[0]
                if sm.funcs[callee].ctype is None:
                    for t, rep, gs in uses_of_helper(callee, op.nested):
                        st = use(st, t, node, repeated_elsewhere=rep, guards=gs)
                return st
            if op.op == "computed_value" or not op.targets:
                return st
            if len(op.targets) > 1:
                # one target per iteration of an enclosing literal-list loop: distinct targets, each used once
                lit = [l for l in _loops_between(node) if isinstance(l, ast.For) and isinstance(l.iter, (ast.List, ast.Tuple)) and len(l.iter.elts) == len(op.targets)]
                if lit:
                    return st
            for t in op.targets:
                st = use(st, t, node)
            return st

        mf = MustFlow(sf.fn, on, entry=FS(frozenset(["d0"]), frozenset(["d0"])), node_types=(ast.Call, ast.If)).run()
        if sf.ctype is None:
            list_obs = []  # helpers work on their caller's context: checked inlined at each caller
        for kind, node, st in mf.exits:
            if kind == "raise":
                continue
            if depth_of(st) != 0:
                problems.append("a normal exit leaves sub-context depth %s" % depth_of(st))
            if "bb" in st.may:
                problems.append("a normal exit may leave a bounded block open")
        res.check(not problems, "C21.d", "%s:balanced" % name, where, "; ".join(sorted(set(problems))), by="depth 0 and no open bounded block at every exit")
        by_t = {}
        for t, ok, why, node in list_obs:
            cur = by_t.get(t)
            if cur is None or (cur[0] and not ok):
                by_t[t] = (ok, why, node)
        for t, (ok, why, node) in by_t.items():
            res.check(ok, "C21.d", "%s.%s:list-declared" % (name, t), where, "target %r is %s (%s) but no declare_list(%r) precedes it in this context instance: the second use raises ReusedTargetError" % (t, why, short(node, 50), t), by="declare_list precedes every repeated use")


def _guards(node):
    """texts of the positive `if` tests enclosing node inside its function."""
    out = set()
    c = node
    p = getattr(node, "_parent", None)
    while p is not None and not isinstance(p, ast.FunctionDef):
        if isinstance(p, ast.If) and any(c is x for x in p.body):
            out.add(norm(p.test))
        c = p
        p = getattr(p, "_parent", None)
    return frozenset(out)


def _loops_between(node, stop_fn_ok=True):
    """loops enclosing `node` inside its function, innermost first."""
    out = []
    p = getattr(node, "_parent", None)
    while p is not None and not isinstance(p, ast.FunctionDef):
        if isinstance(p, (ast.For, ast.While)):
            out.append(p)
        p = getattr(p, "_parent", None)
    return out


def _in_loop(node):
    p = getattr(node, "_parent", None)
    while p is not None and not isinstance(p, ast.FunctionDef):
        if isinstance(p, (ast.For, ast.While)):
            return True
        p = getattr(p, "_parent", None)
    return False


def _exclusive(a, b):
    """a and b sit in different arms of the same if statement."""
    if a is b:
        return False

    def chain(n):
        out = []
        c = n
        p = getattr(n, "_parent", None)
        while p is not None:
            if isinstance(p, ast.If):
                out.append((id(p), "body" if any(c is x or _contains(x, c) for x in p.body) else "orelse"))
            c = p
            p = getattr(p, "_parent", None)
        return out

    ca, cb = dict(chain(a)), dict(chain(b))
    return any(k in cb and cb[k] != v for k, v in ca.items())


def _contains(root, node):
    return any(n is node for n in ast.walk(root))


def rule_e(repo, res, m, meth, where):
    fn = meth["SerDes"].get("set_context_type")
    if fn is None:
        raise AnalysisError("anchor vanished: SerDes.set_context_type")
    w = "%s:SerDes.set_context_type" % where
    outer = None
    for s in fn.body:
        if isinstance(s, ast.If) and "type(self.cur_context)" in norm(s.test) and "context_type" in norm(s.test):
            outer = s
    ok_replace = outer is not None and any(isinstance(x, ast.Assign) and norm(x.targets[0]) == "self.cur_context" and isinstance(x.value, ast.Call) and dotted(x.value.func) == "context_type" and norm(x.value.args[0]) == "self.cur_context" for x in outer.body)
    res.check(ok_replace, "C21.e", "replace:copy-constructs", w, "the context must be replaced by context_type(self.cur_context) only when its type differs", by="self.cur_context = context_type(self.cur_context) under a type test")
    if outer is None:
        return
    problems = []

    def on(node, st):
        if isinstance(node, ast.Assign):
            t = node.targets[0]
            if norm(t) == "self.cur_context":
                return st.add("replaced")
            if isinstance(t, ast.Subscript) and norm(node.value) == "self.cur_context" and "parent_context" in norm(t):
                kind = "list" if isinstance(t.value, ast.Subscript) else "scalar"
                return st.add("parent_updated", "arm:" + kind)
        return st

    body = ast.FunctionDef(name="_", args=fn.args, body=outer.body, decorator_list=[], lineno=outer.lineno, col_offset=0)
    stack_if = [s for s in outer.body if isinstance(s, ast.If) and norm(s.test) == "self._context_stack"]
    ok_parent = False
    arms = set()
    if stack_if:
        sub = ast.FunctionDef(name="_", args=fn.args, body=stack_if[0].body, decorator_list=[], lineno=outer.lineno, col_offset=0)
        mf = MustFlow(sub, on, node_types=(ast.Assign,)).run()
        ex = mf.normal_exit_state()
        ok_parent = ex is not None and "parent_updated" in ex.must
        arms = set(t for t in (ex.may if ex is not None else ()) if t.startswith("arm:"))
    res.check(ok_parent, "C21.e", "parent:updated-on-every-path", w, "when a parent context exists, its reference to the replaced context must be rewritten on every path", by="must-pass-through under `if self._context_stack:`")
    res.check(arms == {"arm:list", "arm:scalar"}, "C21.e", "parent:scalar-and-list-arms", w, "both the scalar-target and the list-target arm must rewrite the parent (found %s)" % sorted(arms), by="both arms present")
    # the list arm addresses the element just entered: index - 1
    ok_idx = any(isinstance(n, ast.Subscript) and isinstance(n.slice, ast.BinOp) and isinstance(n.slice.op, ast.Sub) and isinstance(n.slice.right, ast.Constant) and n.slice.right.value == 1 and "parent_target_index" in norm(n.slice.left) for n in ast.walk(outer))
    res.check(ok_idx, "C21.e", "parent:list-index-minus-one", w, "the list arm must address element parent_target_index - 1 (the index stored is that of the next element)", by="index - 1")
