"""C24 Test case generation is deterministic and schedule-independent
(structural part).

Byte equality of output trees across runs is behaviour.  The necessary
conditions visible in the code: nothing on the generator's module closure
draws on a source that differs between runs, processes or hash seeds; no
function keeps state between calls (a worker process starts fresh, the serial
run does not); every file a unit of work creates is named from its own output
directory and test-case name, and the units' names are distinct; only
picklable module-level callables cross the process boundary.
"""
import ast

from ..core import AnalysisError, class_methods, const_str, dotted, norm, short
from ..report import Result
from .. import globals_state
from ..settypes import SetTypes

GEN = "scripts.vc2_test_case_generator"
# scripts that are not part of test-case generation
EXCLUDED = ("scripts.vc2_bitstream_viewer", "scripts.vc2_bitstream_validator", "scripts.vc2_picture_explain", "scripts.vc2_picture_compare", "docs.")

# call name (dotted, as written after import resolution) -> why it differs between runs
SOURCES = {
    "time.time": "wall clock", "time.time_ns": "wall clock", "time.monotonic": "clock", "time.perf_counter": "clock", "time.clock": "clock",
    "time.localtime": "wall clock", "time.gmtime": "wall clock", "time.strftime": "wall clock", "time.ctime": "wall clock",
    "datetime.now": "wall clock", "datetime.datetime.now": "wall clock", "datetime.utcnow": "wall clock", "datetime.datetime.utcnow": "wall clock", "datetime.today": "wall clock", "datetime.date.today": "wall clock", "date.today": "wall clock",
    "uuid.uuid1": "host/time based id", "uuid.uuid4": "random id", "uuid1": "host/time based id", "uuid4": "random id",
    "os.getpid": "process id", "os.getppid": "process id", "os.urandom": "OS entropy", "os.times": "clock",
    "id": "object address", "hash": "hash of str/bytes/objects depends on PYTHONHASHSEED or addresses",
    "tempfile.mktemp": "random name", "tempfile.mkdtemp": "random name", "tempfile.mkstemp": "random name", "tempfile.NamedTemporaryFile": "random name",
    "socket.gethostname": "host name", "platform.node": "host name", "getpass.getuser": "user name",
    "os.listdir": "directory order is file-system dependent", "os.scandir": "directory order is file-system dependent", "os.walk": "directory order is file-system dependent", "glob.glob": "directory order is file-system dependent", "glob.iglob": "directory order is file-system dependent", "glob": "directory order is file-system dependent",
    "threading.get_ident": "thread id", "os.cpu_count": "host dependent", "multiprocessing.cpu_count": "host dependent",
}
SEEDED_RNG_CTORS = {"RandomState", "default_rng", "Random", "Generator", "SeedSequence", "PCG64", "MT19937"}

# closed triage of today's order-sensitive set iterations: (module suffix, function) -> reason.
SET_ITERATION_SANCTIONED = {
    ("constraint_table", "*"): "ValueSet fields hold ints, bools and int pairs only (read_constraints_from_csv, C17.e; the encoder passes ints/IntEnums): their hashes, hence set order, depend on neither PYTHONHASHSEED nor addresses",
    ("codec_features", "read_codec_features_csv"): "text of an InvalidCodecFeaturesError message (raise statement) only",
    ("decoder.assertions", "assert_parse_code_in_sequence"): "list of expected parse codes attached to a ConformanceError (raise) only",
    ("decoder.assertions", "assert_parse_code_sequence_ended"): "list of expected parse codes attached to a ConformanceError (raise) only",
}


def closure_modules(repo):
    out = []
    for name in sorted(repo.modules):
        rel = name.split("vc2_conformance.", 1)[-1] if name != "vc2_conformance" else ""
        if any(rel.startswith(e) for e in EXCLUDED):
            continue
        out.append(name)
    return out


def check(repo, tier="quick"):
    res = Result("C24")
    res.explanation = (
        "Who-may-call rule for run-varying sources (clocks, ids, unseeded random generators, directory listings, hash/id) over the module "
        "closure of the test case generator; light set-type inference flagging order-sensitive iteration over hash-ordered sets; hidden-state "
        "analysis (state kept between calls makes a fresh worker differ from the serial run); dataflow of output paths to the unit's own "
        "directory and test-case name; picklability of what crosses the process boundary."
    )
    res.rule("C24.a", "no call on the generator's module closure reads a source that differs between runs, processes or hash seeds; random generators are constructed with an explicit seed")
    res.rule("C24.b", "no ordered result is derived from the iteration order of a hash-ordered set (sets of ints/IntEnums excepted: their order is seed independent)")
    res.rule("C24.c", "no function on the closure keeps state between calls (a worker process starts fresh, the serial run does not)")
    res.rule("C24.d", "write-set discipline: every file or directory created by a unit of work is named from the unit's output directory and the test case's name (or a picture index under it); directories are created with exist_ok=True")
    res.rule("C24.f", "no generator (or anything it calls) edits the codec features it is given: in a serial run all generators of a configuration share that one object, whereas every worker process unpickles its own copy")
    res.rule("C24.g", "pickling is faithful (C27.c re-evaluated): the codec features and video parameters a worker command carries are restored through __reduce__ = (type, (), dict(self)) and the validated update path, so the worker sees the same entries in the same order as the serial run (file contents such as the picture metadata JSON are written in dictionary order)")
    res.rule("C24.e", "units of work: one per registered generator function, names distinct per registry, every generator module star-imported by its package; what is pickled is a partial of module-level functions only")

    mods = closure_modules(repo)
    res.info["closure_modules"] = len(mods)
    rule_a(repo, res, mods)
    rule_b(repo, res, mods)
    globals_state.rule(repo, res, "C24.c", [n.split("vc2_conformance.", 1)[-1] for n in mods if n != "vc2_conformance"], sanctioned={("pseudocode.metadata", "pseudocode_derived_functions"): "appended by the @ref_pseudocode decorator while modules are imported; same content in every process"}, what="the generated test cases")
    rule_d(repo, res)
    rule_e(repo, res)
    rule_f(repo, res)
    # what a worker process unpickles is what the serial run holds, entry for entry and in the same order
    from . import c27 as _c27
    from ..report import Ob as _Ob

    for _o in _c27.check(repo, "quick").obs:
        if _o.rule == "C27.c":
            res._add(_Ob("C24.g", "%s/%s" % (_o.rule, _o.key), _o.where, _o.status, _o.detail, _o.by, _o.path))
    res.floor("C24.g", 5)
    res.floor("C24.f", 20)
    res.floor("C24.a", 40)
    res.floor("C24.b", 40)
    res.floor("C24.c", 40)
    res.floor("C24.d", 6)
    res.floor("C24.e", 20)
    res.assumptions = [
        "numpy/Python arithmetic is deterministic for equal inputs; json.dump of insertion-ordered dicts is deterministic",
        "the environment variable VC2_BIT_WIDTHS_BUNDLE and the codec-features CSV are inputs, equal across the compared runs",
        "byte equality of whole output trees under real concurrency is behaviour and is not decided",
    ]
    res.trusted = ["table of run-varying library calls", "set-type inference is local (no inter-procedural element types)"]
    return res


def _import_map(m):
    """local name -> dotted origin for imports of the module"""
    out = {}
    for n in ast.walk(m.tree):
        if isinstance(n, ast.Import):
            for a in n.names:
                out[(a.asname or a.name).split(".")[0]] = a.name if a.asname else a.name.split(".")[0]
        elif isinstance(n, ast.ImportFrom) and n.module and not n.level:
            for a in n.names:
                out[a.asname or a.name] = "%s.%s" % (n.module, a.name)
    return out


def rule_a(repo, res, mods):
    for name in mods:
        m = repo.modules[name]
        imp = _import_map(m)
        bad = []
        n_calls = 0
        local_defs = set(m.funcs) | set(m.classes)
        for c in ast.walk(m.tree):
            if not isinstance(c, ast.Call):
                continue
            n_calls += 1
            d = dotted(c.func)
            if not d:
                continue
            head = d.split(".")[0]
            full = d
            if head in imp:
                full = imp[head] + d[len(head):]
            # shadowing: a local function/param called id/hash etc.
            if d in ("id", "hash") and d in local_defs:
                continue
            short_names = {full, d}
            if full.startswith("numpy."):
                short_names.add("np." + full[len("numpy."):])
            why = None
            for s_ in short_names:
                if s_ in SOURCES:
                    why = SOURCES[s_]
            # random / numpy.random
            parts = full.split(".")
            if parts[0] == "random" and len(parts) >= 2:
                if parts[-1] in SEEDED_RNG_CTORS:
                    if not c.args and not c.keywords:
                        why = "random generator constructed without a seed"
                elif parts[-1] == "seed":
                    if not c.args:
                        why = "re-seeding from the OS"
                else:
                    why = "module-level random generator (shared, unseeded)"
            if len(parts) >= 3 and parts[0] == "numpy" and parts[1] == "random":
                if parts[-1] in SEEDED_RNG_CTORS:
                    if not c.args and not c.keywords:
                        why = "random generator constructed without a seed"
                elif parts[-1] == "seed":
                    if not c.args:
                        why = "re-seeding from the OS"
                else:
                    why = "numpy's global random generator (shared, unseeded)"
            if why is None:
                continue
            # hash(<int constant>) is a constant
            if d == "hash" and c.args and isinstance(c.args[0], ast.Constant) and isinstance(c.args[0].value, int):
                continue
            # os.listdir used only for emptiness / counted
            p = getattr(c, "_parent", None)
            if full in ("os.listdir",) and isinstance(p, ast.Call) and dotted(p.func) in ("len", "sorted", "set", "frozenset", "bool", "any"):
                continue
            fn = m.enclosing_function(c)
            bad.append("%s at line %d in %s: %s" % (d, c.lineno, fn.name if fn is not None else "<module>", why))
        res.check(not bad, "C24.a", "sources:%s" % name.split("vc2_conformance.", 1)[-1], m.rel, "; ".join(bad), by="%d call sites, none reads a run-varying source" % n_calls)


def rule_b(repo, res, mods):
    st = SetTypes(repo)
    res.info["set_returning_functions"] = sorted(st.set_funcs)
    n_uses = 0
    for name in mods:
        m = repo.modules[name]
        rel = name.split("vc2_conformance.", 1)[-1]
        bad = []
        okd = []
        for fn, node, what in st.ordered_uses(m):
            n_uses += 1
            reason = SET_ITERATION_SANCTIONED.get((rel, fn.name)) or SET_ITERATION_SANCTIONED.get((rel, "*"))
            if reason is not None and _sanction_holds(rel, fn, node):
                okd.append("%s:%d" % (fn.name, node.lineno))
                continue
            # existence searches are order free
            if isinstance(node, ast.For) and _existence_search(node):
                continue
            bad.append("%s in %s (line %d): `%s`" % (what, fn.name, node.lineno, short(node, 60)))
        res.check(not bad, "C24.b", "set-order:%s" % rel, m.rel, "iteration order of a hash-ordered set reaches an ordered result -- %s -- which differs between PYTHONHASHSEED values / processes for sets of strings or objects" % "; ".join(bad), by="no order-sensitive set iteration" + (" (%d triaged: %s)" % (len(okd), ", ".join(okd[:4])) if okd else ""))
    res.info["ordered_set_uses_examined"] = n_uses
    # positive fixture: the inference must see a plain case
    src = "def f(names):\n    s = set(names)\n    out = []\n    for n in s:\n        out.append(n)\n    return out + list(s) + [x for x in s]\n"

    class M(object):
        pass

    fm = M()
    fm.tree = ast.parse(src)
    fm.name = "fixture"
    for p in ast.walk(fm.tree):
        for ch in ast.iter_child_nodes(p):
            ch._parent = p
    got = st.ordered_uses(fm)
    if len(got) < 3:
        raise AnalysisError("set-order inference no longer recognises its positive fixture (%d of 3 uses)" % len(got))
    res.ok("C24.b", "set-order:fixture", "vcheck/settypes.py", by="inference finds the 3 ordered uses of its positive fixture")


def _existence_search(loop):
    """for x in S: ... if c: return <const>  (all returns in the loop return the same constant, nothing else order-sensitive)"""
    rets = [n for n in ast.walk(loop) if isinstance(n, ast.Return)]
    if not rets or not all(isinstance(r.value, ast.Constant) for r in rets) or len(set(repr(r.value.value) for r in rets)) != 1:
        return False
    for n in ast.walk(loop):
        if isinstance(n, (ast.Yield, ast.YieldFrom, ast.Break)):
            return False
        if isinstance(n, ast.Call) and isinstance(n.func, ast.Attribute) and n.func.attr in ("append", "extend", "insert", "write"):
            return False
    return True


def _sanction_holds(rel, fn, node):
    if rel == "constraint_table":
        return True
    if rel == "codec_features":
        p = node
        while p is not None:
            if isinstance(p, ast.Raise):
                return True
            p = getattr(p, "_parent", None)
        return False
    if rel == "decoder.assertions":
        # the list appended to in the loop is used only as an argument of a raised exception
        if not isinstance(node, ast.For):
            return False
        lists = set(dotted(c.func.value) for c in ast.walk(node) if isinstance(c, ast.Call) and isinstance(c.func, ast.Attribute) and c.func.attr == "append")
        if len(lists) != 1:
            return False
        lv = lists.pop()
        for n in ast.walk(fn):
            if isinstance(n, ast.Name) and n.id == lv and isinstance(n.ctx, ast.Load):
                p = getattr(n, "_parent", None)
                if isinstance(p, ast.Attribute) and p.attr == "append":
                    continue
                if isinstance(p, ast.Compare) and len(p.ops) == 1 and isinstance(p.ops[0], (ast.Is, ast.IsNot)) and isinstance(p.comparators[0], ast.Constant) and p.comparators[0].value is None:
                    continue
                q = p
                in_raise = False
                while q is not None and q is not fn:
                    if isinstance(q, ast.Raise):
                        in_raise = True
                    q = getattr(q, "_parent", None)
                if not in_raise:
                    return False
        return not any(isinstance(n, (ast.Return, ast.Yield)) and n.value is not None and lv in norm(n.value) for n in ast.walk(fn))
    return False


def _path_parts(e, env, depth=0):
    """flatten os.path.join(...) / format / local names into the set of root names and literal pieces"""
    names, lits = set(), []
    if depth > 6:
        return names, lits
    if isinstance(e, ast.Call) and dotted(e.func) == "os.path.join":
        for a in e.args:
            n2, l2 = _path_parts(a, env, depth + 1)
            names |= n2
            lits += l2
    elif isinstance(e, ast.Call) and isinstance(e.func, ast.Attribute) and e.func.attr == "format" and const_str(e.func.value) is not None:
        lits.append(const_str(e.func.value))
        for a in e.args:
            n2, l2 = _path_parts(a, env, depth + 1)
            names |= n2
    elif isinstance(e, ast.Name):
        if e.id in env:
            n2, l2 = _path_parts(env[e.id], {k: v for k, v in env.items() if k != e.id}, depth + 1)
            names |= n2
            lits += l2
        else:
            names.add(e.id)
    elif isinstance(e, ast.Attribute):
        names.add(dotted(e))
    elif isinstance(e, ast.Subscript):
        names.add(norm(e))
    elif const_str(e) is not None:
        lits.append(const_str(e))
    else:
        names.add("<%s>" % short(e, 30))
    return names, lits


def rule_d(repo, res):
    m = repo.mod(GEN + ".cli")
    ALLOWED_ROOTS = {"output_dir", "test_case.name", "i", "index[0]"}
    n = 0
    for fname in ("output_encoder_test_case", "output_decoder_test_case", "output_encoder_test_cases", "output_decoder_test_cases"):
        fn = m.funcs.get(fname)
        if fn is None:
            raise AnalysisError("anchor vanished: cli.%s" % fname)
        where = "%s:%s" % (m.rel, fname)
        env = {}
        for a in ast.walk(fn):
            if isinstance(a, ast.Assign) and len(a.targets) == 1 and isinstance(a.targets[0], ast.Name):
                env.setdefault(a.targets[0].id, a.value)
        for c in ast.walk(fn):
            if not isinstance(c, ast.Call):
                continue
            d = dotted(c.func)
            patharg = None
            if d == "open" and len(c.args) >= 2 and (const_str(c.args[1]) or "r")[0] in "wax":
                patharg = c.args[0]
            elif d == "makedirs" and c.args:
                patharg = c.args[0]
                ok = any(k.arg == "exist_ok" and isinstance(k.value, ast.Constant) and k.value.value is True for k in c.keywords)
                res.check(ok, "C24.d", "%s:makedirs(%s):exist_ok" % (fname, short(c.args[0], 30)), where, "directories shared by several units of work must be created with exist_ok=True (another worker may create them first)", by="exist_ok=True")
                n += 1
            elif d == "file_format.write" and len(c.args) >= 4:
                patharg = c.args[3]
            if patharg is None:
                continue
            names, lits = _path_parts(patharg, env)
            n += 1
            extra = names - ALLOWED_ROOTS
            rooted = "output_dir" in names
            named = "test_case.name" in names or d == "makedirs" and names == {"output_dir"}
            res.check(rooted and named and not extra, "C24.d", "%s:%s(%s)" % (fname, d, short(patharg, 40)), where, "the path `%s` is built from %s: files must live under the unit's output_dir and carry the test case's name, or two units of work can write the same file" % (short(patharg, 60), sorted(names)), by="output_dir + test_case.name%s" % (" + " + "/".join(lits) if lits else ""))
    # per-configuration output directories: <output>/<name>/<encoder|decoder> with <name> the configuration's own
    # (unique) name, used as it is -- a function of the name need not be injective
    mfn = m.funcs.get("main")
    if mfn is None:
        raise AnalysisError("anchor vanished: cli.main")
    loops = [l for l in ast.walk(mfn) if isinstance(l, ast.For) and isinstance(l.iter, ast.Call) and dotted(l.iter.func) == "codec_feature_sets.items" and isinstance(l.target, ast.Tuple) and len(l.target.elts) == 2]
    dirs = []
    for l in loops:
        key = dotted(l.target.elts[0])
        for a in ast.walk(l):
            if isinstance(a, ast.Assign) and dotted(a.targets[0]) == "output_dir" and isinstance(a.value, ast.Call) and dotted(a.value.func) == "os.path.join":
                parts = a.value.args
                good = len(parts) == 3 and dotted(parts[0]) == "args.output" and dotted(parts[1]) == key and const_str(parts[2]) in ("encoder", "decoder")
                dirs.append(const_str(parts[2]) if len(parts) == 3 else "?")
                res.check(good, "C24.d", "main:output_dir:%s" % (const_str(parts[2]) if len(parts) == 3 else short(a.value, 30)), "%s:main" % m.rel, "each configuration's units of work must write under os.path.join(args.output, <the configuration's own name>, 'encoder'|'decoder') (found %s): names are unique per CSV, a transformed name need not be, and two configurations sharing a directory overwrite each other's files in an order that depends on the schedule" % short(a.value, 80), by="args.output / name / kind, name used unchanged")
                n += 1
    res.check(sorted(dirs) == ["decoder", "encoder"], "C24.d", "main:two-output-dirs-per-configuration", "%s:main" % m.rel, "main must derive exactly an encoder and a decoder output directory inside the loop over the configurations (found %s)" % dirs, by="encoder, decoder")
    # a unit of work creates the directories it writes into itself: every write site of an output_* function comes after
    # a makedirs call of the same function (or its output_*_cases caller creates output_dir before calling it) -- never
    # relying on another unit of work having created the directory first
    callers = {"output_encoder_test_case": "output_encoder_test_cases", "output_decoder_test_case": "output_decoder_test_cases"}
    for fname, caller in sorted(callers.items()):
        f_ = m.funcs.get(fname)
        c_ = m.funcs.get(caller)
        if f_ is None or c_ is None:
            raise AnalysisError("anchor vanished: cli.%s / %s" % (fname, caller))
        mk_lines = [c.lineno for c in ast.walk(f_) if isinstance(c, ast.Call) and dotted(c.func) == "makedirs"]
        caller_makes = any(isinstance(c, ast.Call) and dotted(c.func) == "makedirs" and c.args and dotted(c.args[0]) == "output_dir" for c in ast.walk(c_))
        writes = []
        for c in ast.walk(f_):
            if isinstance(c, ast.Call) and ((dotted(c.func) == "open" and len(c.args) >= 2 and (const_str(c.args[1]) or "r")[0] in "wax") or dotted(c.func) == "file_format.write"):
                writes.append(c)
        early = [w for w in writes if not caller_makes and not any(l < w.lineno for l in mk_lines)]
        res.check(bool(writes) and not early, "C24.d", "%s:directory-created-before-writing" % fname, "%s:%s" % (m.rel, fname), "%s writes a file (line %s) before it has created any directory itself, and %s does not create output_dir either: the write only succeeds if another unit of work of the same configuration happened to run first" % (fname, [w.lineno for w in early], caller), by="makedirs precedes every write%s" % (" (output_dir created by %s)" % caller if caller_makes else ""))
        n += 1
    # the makedirs the units of work call is os.makedirs itself (atomic with respect to a concurrent creator), the
    # test-then-create fallback being reachable only where os.makedirs has no exist_ok (Python 2)
    pm = repo.mod("py2x_compat")
    alias_try = None
    for s_ in pm.tree.body:
        if isinstance(s_, ast.Try) and any(isinstance(a, ast.Assign) and dotted(a.targets[0]) == "makedirs" and dotted(a.value) == "os.makedirs" for a in s_.body):
            alias_try = s_
    defs_elsewhere = [d for d in ast.walk(pm.tree) if isinstance(d, ast.FunctionDef) and d.name == "makedirs" and not (alias_try is not None and any(d in h.body and dotted(h.type) == "TypeError" for h in alias_try.handlers))]
    other_binds = [a for a in ast.walk(pm.tree) if isinstance(a, ast.Assign) and dotted(a.targets[0]) == "makedirs" and dotted(a.value) != "os.makedirs"]
    probe = alias_try is not None and any(isinstance(x, ast.Expr) and isinstance(x.value, ast.Call) and dotted(x.value.func) == "os.makedirs" and any(k.arg == "exist_ok" for k in x.value.keywords) for x in alias_try.body)
    plain_alias = not defs_elsewhere and not other_binds and not any(isinstance(d, ast.FunctionDef) and d.name == "makedirs" for d in ast.walk(pm.tree)) and (any(isinstance(a, ast.Assign) and dotted(a.targets[0]) == "makedirs" and dotted(a.value) == "os.makedirs" for a in pm.tree.body) or any(isinstance(i_, ast.ImportFrom) and i_.module == "os" and any(al.name == "makedirs" and al.asname in (None, "makedirs") for al in i_.names) for i_ in pm.tree.body))
    res.check(plain_alias or (alias_try is not None and probe and not defs_elsewhere and not other_binds), "C24.d", "makedirs:is-os.makedirs", pm.rel, "py2x_compat.makedirs must be os.makedirs itself wherever os.makedirs accepts exist_ok (bound in a try whose probe call passes exist_ok; the isdir-then-create fallback only in its `except TypeError`): a test-then-create helper lets two workers of one configuration both find the shared directory missing, and the loser dies with FileExistsError, so the files produced depend on the schedule", by="makedirs = os.makedirs after an exist_ok probe; fallback only under except TypeError")
    n += 1
    # no other file-creating calls in the module's unit-of-work functions
    res.info["write_sites"] = n
    # index starts at 0 and is incremented once per picture (decoder model answers)
    fn = m.funcs["output_decoder_test_case"]
    idx_ok = any(isinstance(a, ast.Assign) and dotted(a.targets[0]) == "index" and norm(a.value) == "[0]" for a in ast.walk(fn)) and sum(1 for a in ast.walk(fn) if isinstance(a, ast.AugAssign) and norm(a.target) == "index[0]" and isinstance(a.op, ast.Add) and norm(a.value) == "1") == 1
    res.check(idx_ok, "C24.d", "output_decoder_test_case:picture-index", "%s:output_decoder_test_case" % m.rel, "model-answer pictures must be numbered from 0 in decode order by a counter local to the test case", by="index = [0]; index[0] += 1 per picture")


def rule_e(repo, res):
    # generator registration: names distinct per registry, modules star-imported
    for kind in ("decoder", "encoder"):
        pkg = repo.mod("test_cases.%s" % kind)
        star = set()
        for n in pkg.tree.body:
            if isinstance(n, ast.ImportFrom) and any(a.name == "*" for a in n.names):
                star.add(n.module)
        names = {}
        deco = "%s_test_case_generator" % kind
        n_mods = 0
        for name, m in sorted(repo.modules.items()):
            if not name.startswith("vc2_conformance.test_cases.%s." % kind):
                continue
            regs = [f for f in m.tree.body if isinstance(f, ast.FunctionDef) and any(dotted(d) == deco for d in f.decorator_list)]
            if not regs:
                continue
            n_mods += 1
            res.check(name in star, "C24.e", "%s:module-imported:%s" % (kind, name.rsplit(".", 1)[-1]), pkg.rel, "%s registers generators but is not star-imported by the %s package: its test cases are silently missing" % (name, kind), by="from %s import *" % name)
            exported = None
            for s in m.tree.body:
                if isinstance(s, ast.Assign) and dotted(s.targets[0]) == "__all__" and isinstance(s.value, (ast.List, ast.Tuple)):
                    exported = [const_str(e) for e in s.value.elts]
            for f in regs:
                names.setdefault(f.name, []).append(name)
                # generator functions must be module-level (picklable by reference): they are, being in m.tree.body
        dup = {k: v for k, v in names.items() if len(v) > 1}
        res.check(not dup and len(names) >= 3, "C24.e", "%s:generator-names-distinct" % kind, pkg.rel, "generator functions registered under the same name %s: their test cases share file names in one output directory" % dup, by="%d generators, pairwise distinct names" % len(names))
        res.info["%s_generators" % kind] = sorted(names)
        # nested registrations (not picklable by reference)
        for name, m in sorted(repo.modules.items()):
            if not name.startswith("vc2_conformance.test_cases.%s." % kind):
                continue
            for outer in ast.walk(m.tree):
                if isinstance(outer, ast.FunctionDef):
                    for inner in ast.walk(outer):
                        if inner is not outer and isinstance(inner, ast.FunctionDef) and any(dotted(d) == deco for d in inner.decorator_list):
                            res.bad("C24.e", "%s:nested-generator:%s" % (kind, inner.name), m.rel, "generator %s is registered from inside %s: it cannot be pickled by reference for the worker command" % (inner.name, outer.name))
    # registry: one unit per registered function, in registration order
    tm, rcls = repo.cls("test_cases:Registry")
    meth = class_methods(rcls)
    it = meth.get("iter_independent_generators")
    ok = False
    if it is not None:
        for n in ast.walk(it):
            if isinstance(n, ast.For) and norm(n.iter) == "self._test_case_generators":
                ys = [y for y in ast.walk(n) if isinstance(y, ast.Yield)]
                ok = len(ys) == 1 and isinstance(ys[0].value, ast.Call) and dotted(ys[0].value.func) == "partial" and dotted(ys[0].value.args[0]) == "normalise_test_case_generator" and dotted(ys[0].value.args[1]) == dotted(n.target)
    res.check(ok, "C24.e", "Registry.iter_independent_generators:one-unit-per-generator", "%s:Registry.iter_independent_generators" % tm.rel, "each registered generator must become exactly one partial(normalise_test_case_generator, generator, ...)", by="partial(normalise_test_case_generator, generator, *args)")
    reg = meth.get("register_test_case_generator")
    ok = reg is not None and any(isinstance(c, ast.Call) and norm(c.func) == "self._test_case_generators.append" for c in ast.walk(reg)) and isinstance(reg.body[-1], ast.Return)
    res.check(ok, "C24.e", "Registry.register:append-in-order", "%s:Registry.register_test_case_generator" % tm.rel, "registration must append (import order = generation order)", by="list append")
    # normalise: names from the function name and the position
    nm, nf = repo.func("test_cases:normalise_test_case_generator")
    fparam = nf.args.args[0].arg
    ok = False
    for lp in ast.walk(nf):
        if isinstance(lp, ast.For) and isinstance(lp.iter, ast.Call) and dotted(lp.iter.func) == "enumerate" and isinstance(lp.target, ast.Tuple) and len(lp.target.elts) == 2:
            idx, val = [dotted(e) for e in lp.target.elts]
            cn = [a for a in ast.walk(lp) if isinstance(a, ast.Assign) and isinstance(a.targets[0], ast.Attribute) and a.targets[0].attr == "case_name" and dotted(a.targets[0].value) == val]
            sn = [a for a in ast.walk(lp) if isinstance(a, ast.Assign) and isinstance(a.targets[0], ast.Attribute) and a.targets[0].attr == "subcase_name" and dotted(a.targets[0].value) == val]
            ok = (len(cn) == 1 and dotted(cn[0].value) == "%s.__name__" % fparam and len(sn) == 1 and isinstance(sn[0].value, ast.Call) and dotted(sn[0].value.func) == "str" and len(sn[0].value.args) == 1 and dotted(sn[0].value.args[0]) == idx)
    res.check(ok, "C24.e", "normalise:names-from-function-and-position", "%s:normalise_test_case_generator" % nm.rel, "default case names must come from the generator's name and default sub-case names from the position in its output", by="case_name = f.__name__; subcase_name = str(i)")
    # what is pickled: partial(set_log_level_and_call, log_level, output_*_test_cases, output_dir, codec_features, generator_function)
    cm = repo.mod(GEN + ".cli")
    main = cm.funcs["main"]
    parts = [c for c in ast.walk(main) if isinstance(c, ast.Call) and dotted(c.func) == "partial"]
    ok = len(parts) == 2
    for c in parts:
        fnames = [dotted(a) for a in c.args[:3]]
        ok = ok and fnames[0] in cm.funcs and fnames[2] in cm.funcs and not any(isinstance(a, ast.Lambda) for a in c.args)
    res.check(ok, "C24.e", "main:pickled-callables-module-level", "%s:main" % cm.rel, "the units of work must be partials of module-level functions (no lambdas or nested functions)", by="partial(set_log_level_and_call, level, output_*_test_cases, dir, features, generator)")
    # serial and parallel run the same list
    ok = False
    for n in ast.walk(main):
        if isinstance(n, ast.If) and norm(n.test) == "args.parallel":
            a = [norm(s) for s in n.body]
            b = [norm(s) for s in n.orelse]
            ok = len(n.body) == 1 and len(n.orelse) == 1 and isinstance(n.body[0], ast.For) and isinstance(n.orelse[0], ast.For) and norm(n.body[0].iter) == norm(n.orelse[0].iter) == "to_call"
    res.check(ok, "C24.e", "main:same-units-serial-and-parallel", "%s:main" % cm.rel, "the serial run and the emitted commands must iterate the same list of units", by="both branches iterate to_call")
    wm = repo.mod(GEN + ".worker")
    enc, dec = wm.funcs.get("encode"), wm.funcs.get("decode")
    ok = enc is not None and dec is not None
    if ok:
        dumps = [c for c in ast.walk(enc) if isinstance(c, ast.Call) and dotted(c.func) == "pickle.dumps"]
        ok = len(dumps) == 1 and dumps[0].args and isinstance(dumps[0].args[0], ast.Call) and dotted(dumps[0].args[0].func) == "partial" and dotted(dumps[0].args[0].args[0]) == enc.args.args[0].arg and any(isinstance(c, ast.Call) and dotted(c.func) == "pickle.loads" for c in ast.walk(dec))
    chain_e = [dotted(c.func) for c in ast.walk(enc) if isinstance(c, ast.Call)] if enc else []
    chain_d = [dotted(c.func) for c in ast.walk(dec) if isinstance(c, ast.Call)] if dec else []
    inv = {"base64.urlsafe_b64encode": "base64.urlsafe_b64decode", "zlib.compress": "zlib.decompress", "pickle.dumps": "pickle.loads"}
    ok = ok and all(inv[k] in chain_d for k in inv if k in chain_e) and all(k in chain_e for k in inv)
    res.check(ok, "C24.e", "worker:encode-decode-inverse", "%s:encode/decode" % wm.rel, "decode must undo encode step by step (base64, zlib, pickle)", by="b64(zlib(pickle)) / unpickle(unzlib(unb64))")
    wmain = wm.funcs.get("main")
    ok = wmain is not None and any(isinstance(c, ast.Call) and dotted(c.func) == "decode" for c in ast.walk(wmain)) and any(isinstance(s, ast.Expr) and isinstance(s.value, ast.Call) and isinstance(s.value.func, ast.Name) and not s.value.args for s in wmain.body)
    res.check(ok, "C24.e", "worker:calls-decoded-unit", "%s:main" % wm.rel, "the worker must decode its argument and call it once with no arguments", by="fn = decode(code); fn()")


def rule_f(repo, res):
    pm = globals_state.ParamMutation(repo)
    # positive fixture
    src = "def helper(cf):\n    cf['x'] = 1\n\ndef gen(codec_features):\n    vp = codec_features['video_parameters']\n    vp['frame_width'] = 1\n    helper(codec_features)\n    codec_features.update(a=1)\n"

    class M(object):
        pass

    fm = M()
    fm.tree = ast.parse(src)
    fm.name = "fixture"
    fm.rel = "<fixture>"
    fm.funcs = {f.name: f for f in fm.tree.body}

    class R(object):
        def resolve(self, modname, name):
            class S(object):
                pass

            if name in fm.funcs:
                s_ = S()
                s_.kind, s_.mod, s_.name, s_.node = "func", "fixture", name, fm.funcs[name]
                return s_
            return None

        def mod(self, name):
            return fm

    fx = globals_state.ParamMutation(R(), follow_prefixes=("fixture",)).mutations(fm, fm.funcs["gen"], 0)
    if len(fx) < 3:
        raise AnalysisError("parameter-mutation analysis no longer recognises its positive fixture (%d of 3)" % len(fx))
    res.ok("C24.f", "param-mutation:fixture", "vcheck/globals_state.py", by="analysis finds the 3 mutations of its positive fixture")
    for kind in ("decoder", "encoder"):
        deco = "%s_test_case_generator" % kind
        for name, m in sorted(repo.modules.items()):
            if not name.startswith("vc2_conformance.test_cases.%s." % kind):
                continue
            for f in m.tree.body:
                if isinstance(f, ast.FunctionDef) and any(dotted(d) == deco for d in f.decorator_list):
                    muts = pm.mutations(m, f, 0)
                    res.check(not muts, "C24.f", "%s:%s:input-not-mutated" % (kind, f.name), "%s:%s" % (m.rel, f.name), "generator %s edits the codec features object it was given -- %s -- so generators run after it in the same process see other features than a worker process does" % (f.name, "; ".join(sorted(set("%s in %s line %d" % (how, fn.name, n.lineno) for _, fn, n, how in muts))[:3])), by="codec_features is only read (through all callees)")
