"""C03 Encoder output is always a conformant stream in the requested format
(structural part, thin).

End-to-end acceptance and decoded equality are behaviour.  The statement splits
into clauses that other checks decide (headers: C15; level tables: C16; data
unit ordering search: C19; autofilled fields: C07; pixel exactness: C04/C11)
and a remainder that is the shape of encoder/sequence.py and the data-unit
builders of encoder/pictures.py, decided here: one picture's worth of data
units per input picture, in order; parse codes matching the profile; picture
numbers taken from the input; fragments carrying every slice exactly once in
raster order with the offsets of their first slice.
"""
import ast

from ..core import AnalysisError, const_str, dotted, norm, short, subscript_key
from ..report import Result, Ob
from ..mustflow import MustFlow

SEQ = "encoder.sequence"
PIC = "encoder.pictures"


def check(repo, tier="quick"):
    res = Result("C03")
    res.explanation = (
        "Shape of make_sequence (per-picture data units in input order, FIFO hand-out to the ordering search's result), of the picture and "
        "fragment data-unit builders (profile -> parse code table agreement with vc2_data_tables, picture-number provenance, slice "
        "distribution over fragments as a counting argument on the loop), plus re-evaluation of the clauses shared with C19.e, C07.c and C15.e."
    )
    res.rule("C03.a", "make_sequence builds the picture data units of each input picture in input order, asks the ordering search for a sequence containing them, and hands them out first-in first-out where the search placed a picture symbol")
    res.rule("C03.b", "picture parse codes follow the profile (and fragment setting) as vc2_data_tables.PROFILES allows; the slice list name follows the same profile")
    res.rule("C03.c", "picture numbers: the picture header / every fragment header of a picture carries the input picture's pic_num when given, and nothing else writes picture_number")
    res.rule("C03.d", "fragments: first fragment holds the transform parameters and no slices; every slice is appended exactly once, in raster order; a new fragment starts exactly when the previous one holds fragment_slice_count slices and carries the coordinates of its first slice")
    res.rule("C03.e", "shared clauses re-evaluated: data-unit patterns (C19.e), every rule of C07 (the encoder leaves parse offsets, picture numbers and major_version to automatic filling), every rule of C15 (the emitted sequence header decodes to the configured format), lossless slice-size scaler fits the length field (C04.f)")
    res.rule("C03.g", "no call in the encoder passes same-named coordinates/sizes to the wrong parameters, and no size guard is followed by a further decrement of the guarded quantity")
    res.rule("C03.h", "what the validator rejects about the configured format the encoder rejects too: the validator refuses frame sizes that are not whole multiples of the luma and colour-difference picture sizes (PictureDimensionsNotMultipleOfFrameDimensions, e.g. an odd width with 4:2:2 sampling or an odd height coded as fields); the encoder or the codec-features reader must raise for the same condition (a divisibility test on the frame dimensions guarding a raise), otherwise it accepts a configuration whose stream the validator rejects; likewise for a clean area that does not fit inside the frame (CleanAreaOutOfRange)")
    res.rule("C03.f", "scratch State dictionaries the encoder builds for the pseudocode helpers (slice_bytes, picture_dimensions, ...) bind every key to its own source: codec_features[k] under key k, width()/height() of the slice array under the _x/_y key, a same-named local under its own name")

    rule_a(repo, res)
    rule_b(repo, res)
    rule_c(repo, res)
    rule_d(repo, res)
    rule_e(repo, res)
    rule_f(repo, res)
    rule_h(repo, res)
    from .. import lints

    lints.rule(repo, res, "C03.g", [n.split("vc2_conformance.", 1)[-1] for n in sorted(repo.modules) if n.startswith("vc2_conformance.encoder.")] + ["codec_features", "pseudocode.picture_encoding", "bitstream.vc2_autofill"])
    res.floor("C03.g", 8)
    res.floor("C03.f", 4)
    res.floor("C03.a", 5)
    res.floor("C03.b", 4)
    res.floor("C03.c", 3)
    res.floor("C03.d", 6)
    res.floor("C03.e", 150)
    res.info["decided_elsewhere"] = {"sequence header encodes the format, accepted under the level": "C15", "level-constrained values": "C16", "ordering search": "C19 (known finding K2)", "autofilled offsets/versions/numbers": "C07", "lossless pixel exactness": "C04, C11", "validator accepts": "behaviour; the validator's own totality is C02"}
    res.assumptions = ["acceptance by the validator and equality of decoded pictures are behaviour and are not decided", "slice payload sizes and quantisation (C12-C14) are arithmetic on runtime values"]
    res.trusted = ["vc2_data_tables PROFILES table (parsed from the installed package source)"]
    return res


def rule_a(repo, res):
    m, fn = repo.func(SEQ + ":make_sequence")
    where = "%s:make_sequence" % m.rel
    pics_param = fn.args.args[1].arg
    # loop over the input pictures, in order
    loop = None
    for n in fn.body:
        if isinstance(n, ast.For):
            it = n.iter
            src = it.args[0] if isinstance(it, ast.Call) and dotted(it.func) in ("zip", "enumerate") and it.args else it
            if dotted(src) == pics_param:
                loop = n
    ok = False
    seqv = None
    if loop is not None:
        pv = loop.target.elts[0].id if isinstance(loop.target, ast.Tuple) else dotted(loop.target)
        ext = [c for c in ast.walk(loop) if isinstance(c, ast.Call) and isinstance(c.func, ast.Attribute) and c.func.attr == "extend" and c.args and isinstance(c.args[0], ast.Call) and dotted(c.args[0].func) == "make_picture_data_units"]
        if len(ext) == 1 and len(loop.body) == 1:
            inner = ext[0].args[0]
            ok = len(inner.args) >= 2 and dotted(inner.args[0]) == fn.args.args[0].arg and dotted(inner.args[1]) == pv
            seqv = norm(ext[0].func.value)
    res.check(ok, "C03.a", "make_sequence:per-picture-units-in-order", where, "each input picture, in input order, must contribute make_picture_data_units(codec_features, picture, ...) appended to one list", by="for picture in pictures: units.extend(make_picture_data_units(codec_features, picture, ...))")
    if seqv is None:
        raise AnalysisError("make_sequence: picture data unit list not recognised")
    # the names given to the search are the parse-code names of exactly those units, in order
    names = None
    for n in fn.body:
        if isinstance(n, ast.Assign) and isinstance(n.value, ast.ListComp) and norm(n.value.generators[0].iter) == seqv and not n.value.generators[0].ifs:
            du = dotted(n.value.generators[0].target)
            if norm(n.value.elt) == "%s['parse_info']['parse_code'].name" % du:
                names = dotted(n.targets[0])
    call = [c for c in ast.walk(fn) if isinstance(c, ast.Call) and dotted(c.func) == "make_matching_sequence"]
    ok = names is not None and len(call) == 1 and call[0].args and dotted(call[0].args[0]) == names
    res.check(ok, "C03.a", "make_sequence:search-gets-the-picture-units", where, "the required symbols given to make_matching_sequence must be the parse-code names of the picture data units, in order", by="[unit['parse_info']['parse_code'].name for unit in units]")
    # the makers dictionary: the local assigned a dict literal keyed by data-unit names
    MK = None
    for n in ast.walk(fn):
        if isinstance(n, ast.Assign) and isinstance(n.targets[0], ast.Name) and isinstance(n.value, ast.Dict) and n.value.keys and all(const_str(k) is not None for k in n.value.keys) and "sequence_header" in [const_str(k) for k in n.value.keys]:
            MK = n.targets[0].id
    if MK is None:
        raise AnalysisError("make_sequence: dictionary of data unit makers not found")
    # makers: picture symbol -> pop(0) of that same list
    pop_ok = False
    key_ok = False
    for n in ast.walk(fn):
        if isinstance(n, ast.Assign) and isinstance(n.targets[0], ast.Subscript) and dotted(n.targets[0].value) == MK and isinstance(n.value, ast.Call) and dotted(n.value.func) == "partial":
            a = n.value.args
            pop_ok = len(a) == 2 and norm(a[0]) == "%s.pop" % seqv and isinstance(a[1], ast.Constant) and a[1].value == 0
            k = n.targets[0].slice
            kd = dotted(k)
            if kd and kd.endswith(".name"):
                base = kd[: -len(".name")]
                ds = [x for x in ast.walk(fn) if isinstance(x, ast.Assign) and dotted(x.targets[0]) == base]
                key_ok = len(ds) == 1 and norm(ds[0].value) == "%s[0]['parse_info']['parse_code']" % seqv
    res.check(pop_ok and key_ok, "C03.a", "make_sequence:pictures-handed-out-fifo", where, "where the search placed a picture symbol the next picture data unit must be taken from the front of the list (partial(units.pop, 0)) under the units' own parse-code name", by="data_unit_makers[units[0] parse code name] = partial(units.pop, 0)")
    # the result: one maker call per symbol of the search's result, in order
    ret = [r for r in ast.walk(fn) if isinstance(r, ast.Return)]
    ok = False
    resv = dotted([n for n in ast.walk(fn) if isinstance(n, ast.Assign) and n.value in call][0].targets[0]) if call and [n for n in ast.walk(fn) if isinstance(n, ast.Assign) and n.value in call] else None
    if len(ret) == 1 and isinstance(ret[0].value, ast.Call) and dotted(ret[0].value.func) == "Sequence":
        kw = {k.arg: k.value for k in ret[0].value.keywords}
        lc = kw.get("data_units")
        if isinstance(lc, ast.ListComp) and len(lc.generators) == 1 and dotted(lc.generators[0].iter) == resv and not lc.generators[0].ifs:
            sym = dotted(lc.generators[0].target)
            ok = norm(lc.elt) == "%s[%s]()" % (MK, sym)
    res.check(ok, "C03.a", "make_sequence:one-unit-per-symbol", where, "the sequence must consist of data_unit_makers[symbol]() for each symbol of the search's result, in order", by="[data_unit_makers[name]() for name in required names]")
    # makers of the non-picture units build the unit of their own name
    makers = {}
    for n in ast.walk(fn):
        if isinstance(n, ast.Assign) and dotted(n.targets[0]) == MK and isinstance(n.value, ast.Dict):
            for k, v in zip(n.value.keys, n.value.values):
                f = v.args[0] if isinstance(v, ast.Call) and dotted(v.func) == "partial" else v
                makers[const_str(k)] = dotted(f)
    bad = []
    for sym, fname in makers.items():
        tgt = repo.resolve(m.name, fname) if fname else None
        if tgt is None or getattr(tgt, "kind", None) != "func":
            bad.append("%s -> %s (unresolved)" % (sym, fname))
            continue
        tf = tgt.node
        codes = set(dotted(k.value) for c in ast.walk(tf) if isinstance(c, ast.Call) and dotted(c.func) == "ParseInfo" for k in c.keywords if k.arg == "parse_code")
        if codes != {"ParseCodes.%s" % sym}:
            bad.append("%s -> %s builds %s" % (sym, fname, sorted(codes)))
    res.check(not bad and {"sequence_header", "end_of_sequence", "padding_data", "auxiliary_data"} <= set(makers), "C03.a", "make_sequence:makers-build-their-symbol", where, "data unit makers do not build the unit they are registered for: %s" % bad, by="%d makers, each builds ParseInfo(parse_code=ParseCodes.<its symbol>)" % len(makers))
    # make_picture_data_units dispatch
    pm, pf = repo.func(PIC + ":make_picture_data_units")
    ok = False
    for n in pf.body:
        if isinstance(n, ast.If) and isinstance(n.test, ast.Compare) and subscript_key(n.test.left, pf.args.args[0].arg) == "fragment_slice_count" and isinstance(n.test.comparators[0], ast.Constant) and n.test.comparators[0].value == 0:
            whole, frag = (n.body, n.orelse) if isinstance(n.test.ops[0], ast.Eq) else (n.orelse, n.body)
            w = [dotted(c.func) for s in whole for c in ast.walk(s) if isinstance(c, ast.Call)]
            f = [dotted(c.func) for s in frag for c in ast.walk(s) if isinstance(c, ast.Call)]
            ok = "make_picture_parse_data_unit" in w and "make_fragment_parse_data_units" in f and "make_fragment_parse_data_units" not in w
            lst = [r for s in whole for r in ast.walk(s) if isinstance(r, ast.Return)]
            ok = ok and len(lst) == 1 and isinstance(lst[0].value, ast.List) and len(lst[0].value.elts) == 1
    res.check(ok, "C03.a", "make_picture_data_units:one-picture-or-its-fragments", "%s:make_picture_data_units" % pm.rel, "a picture must become exactly one picture data unit when fragment_slice_count == 0 and its fragments otherwise", by="[picture unit] if fragment_slice_count == 0 else fragments")


def _profile_map(expr_or_stmts, feat):
    """profile member -> ParseCodes member chosen, from an if/elif chain or a conditional expression"""
    out = {}

    def prof(t):
        if isinstance(t, ast.Compare) and isinstance(t.ops[0], ast.Eq) and subscript_key(t.left, feat) == "profile":
            return dotted(t.comparators[0])
        return None

    def walk_ifexp(e):
        if isinstance(e, ast.IfExp):
            p = prof(e.test)
            if p:
                out[p] = dotted(e.body)
            walk_ifexp(e.orelse)

    if isinstance(expr_or_stmts, ast.expr):
        walk_ifexp(expr_or_stmts)
    else:
        for s in expr_or_stmts:
            n = s
            while isinstance(n, ast.If):
                p = prof(n.test)
                if p:
                    for b in n.body:
                        if isinstance(b, ast.Assign) and dotted(b.value) and dotted(b.value).startswith("ParseCodes."):
                            out[p] = dotted(b.value)
                        if isinstance(b, ast.Assign) and const_str(b.value) in ("hq_slices", "ld_slices"):
                            out[p + ":slices"] = const_str(b.value)
                n = n.orelse[0] if len(n.orelse) == 1 else None
    return out


def rule_b(repo, res):
    allowed = repo.ext.profile_allowed_parse_codes()  # profile member name -> set of parse code member names
    m = repo.mod(PIC)
    want = {
        "make_picture_parse_data_unit": {"Profiles.high_quality": "ParseCodes.high_quality_picture", "Profiles.low_delay": "ParseCodes.low_delay_picture"},
        "make_fragment_parse_data_units": {"Profiles.high_quality": "ParseCodes.high_quality_picture_fragment", "Profiles.low_delay": "ParseCodes.low_delay_picture_fragment"},
    }
    for fname, w in want.items():
        fn = m.funcs.get(fname)
        if fn is None:
            raise AnalysisError("anchor vanished: %s" % fname)
        feat = fn.args.args[0].arg
        got = {}
        for c in ast.walk(fn):
            if isinstance(c, ast.Call) and dotted(c.func) == "ParseInfo":
                for k in c.keywords:
                    if k.arg == "parse_code" and isinstance(k.value, ast.IfExp):
                        got.update(_profile_map(k.value, feat))
        got.update(_profile_map(fn.body, feat))
        codes = {k: v for k, v in got.items() if not k.endswith(":slices")}
        res.check(codes == w, "C03.b", "%s:profile->parse-code" % fname, "%s:%s" % (m.rel, fname), "parse codes chosen per profile are %s, expected %s" % (codes, w), by=", ".join("%s->%s" % (k.split(".")[1], v.split(".")[1]) for k, v in sorted(codes.items())))
        # against the data tables
        bad = []
        for p, c in codes.items():
            al = allowed.get(repo.ext.enums.get("Profiles", {}).get(p.split(".")[1]))
            if al is None or c.split(".")[1] not in al:
                bad.append("%s not allowed for %s (%s)" % (c, p, sorted(al) if al else "unknown profile"))
        res.check(not bad, "C03.b", "%s:allowed-by-PROFILES" % fname, "%s:%s" % (m.rel, fname), "; ".join(bad), by="each chosen parse code is in vc2_data_tables.PROFILES[profile].allowed_parse_codes")
        if fname == "make_fragment_parse_data_units":
            sl = {k: v for k, v in got.items() if k.endswith(":slices")}
            res.check(sl == {"Profiles.high_quality:slices": "hq_slices", "Profiles.low_delay:slices": "ld_slices"}, "C03.b", "%s:slice-list-name" % fname, "%s:%s" % (m.rel, fname), "slice list names per profile are %s" % sl, by="high_quality->hq_slices, low_delay->ld_slices")


def rule_c(repo, res):
    m = repo.mod(PIC)
    fn = m.funcs["make_picture_parse"]
    picp = fn.args.args[1].arg
    where = "%s:make_picture_parse" % m.rel
    ok = False
    for n in ast.walk(fn):
        if isinstance(n, ast.If) and isinstance(n.test, ast.Compare) and isinstance(n.test.ops[0], ast.In) and const_str(n.test.left) == "pic_num" and dotted(n.test.comparators[0]) == picp:
            ok = any(isinstance(b, ast.Assign) and isinstance(b.targets[0], ast.Subscript) and const_str(b.targets[0].slice) == "picture_number" and subscript_key(b.value, picp) == "pic_num" for b in n.body)
    res.check(ok, "C03.c", "make_picture_parse:picture-number-from-input", where, "the picture header's picture_number must be picture['pic_num'] when the input provides one", by="if 'pic_num' in picture: header['picture_number'] = picture['pic_num']")
    ff = m.funcs["make_fragment_parse_data_units"]
    picp = ff.args.args[1].arg
    where = "%s:make_fragment_parse_data_units" % m.rel
    ok = False
    for n in ff.body:
        if isinstance(n, ast.If) and isinstance(n.test, ast.Compare) and isinstance(n.test.ops[0], ast.In) and const_str(n.test.left) == "pic_num":
            for loop in n.body:
                if isinstance(loop, ast.For):
                    lst = dotted(loop.iter)
                    ret = [r for r in ast.walk(ff) if isinstance(r, ast.Return)]
                    same_list = len(ret) == 1 and dotted(ret[0].value) == lst
                    st = [b for b in ast.walk(loop) if isinstance(b, ast.Assign) and isinstance(b.targets[0], ast.Subscript) and const_str(b.targets[0].slice) == "picture_number" and subscript_key(b.value, picp) == "pic_num"]
                    ok = same_list and len(st) == 1 and not any(isinstance(x, (ast.If, ast.Break, ast.Continue)) for x in ast.walk(loop))
    res.check(ok, "C03.c", "make_fragment_parse_data_units:every-fragment-numbered", where, "every fragment data unit returned for a picture must carry picture['pic_num'] when given", by="for every returned unit: fragment_header['picture_number'] = picture['pic_num']")
    # nothing else in the encoder writes picture_number
    others = []
    for name, mod in repo.modules.items():
        if not name.startswith("vc2_conformance.encoder."):
            continue
        for n in ast.walk(mod.tree):
            if isinstance(n, (ast.Assign, ast.AugAssign)):
                for t in (n.targets if isinstance(n, ast.Assign) else [n.target]):
                    if isinstance(t, ast.Subscript) and const_str(t.slice) == "picture_number":
                        f = mod.enclosing_function(n)
                        others.append("%s:%s" % (mod.rel, f.name if f else "<module>"))
            if isinstance(n, ast.keyword) and n.arg == "picture_number":
                f = mod.enclosing_function(n)
                others.append("%s:%s (keyword)" % (mod.rel, f.name if f else "<module>"))
    exp = sorted(["%s:make_picture_parse" % m.rel, "%s:make_fragment_parse_data_units" % m.rel])
    res.check(sorted(others) == exp, "C03.c", "encoder:picture_number-writers", m.rel, "picture_number is written in %s (expected only the two builders)" % sorted(others), by="written only by make_picture_parse and make_fragment_parse_data_units")


def rule_d(repo, res):
    m = repo.mod(PIC)
    fn = m.funcs["make_fragment_parse_data_units"]
    feat = fn.args.args[0].arg
    where = "%s:make_fragment_parse_data_units" % m.rel
    ret = [r for r in ast.walk(fn) if isinstance(r, ast.Return)]
    lst = dotted(ret[0].value) if len(ret) == 1 else None
    # first append: before the loops, slice count 0, transform_parameters
    first = None
    loops = [n for n in fn.body if isinstance(n, ast.For)]
    outer = None
    for lp in loops:
        if isinstance(lp.iter, ast.Call) and dotted(lp.iter.func) == "range" and subscript_key(lp.iter.args[-1], feat) == "slices_y":
            outer = lp
    if outer is None:
        raise AnalysisError("make_fragment_parse_data_units: loop over slices_y not found")
    for n in fn.body[: fn.body.index(outer)]:
        if isinstance(n, ast.Expr) and isinstance(n.value, ast.Call) and norm(n.value.func) == "%s.append" % lst:
            first = n.value.args[0]
    ok = False
    if first is not None:
        t = norm(first)
        ok = "fragment_slice_count=0" in t and "transform_parameters=" in t and "fragment_data=" not in t
    res.check(ok, "C03.d", "fragments:first-holds-parameters", where, "the first fragment must carry the transform parameters, fragment_slice_count 0 and no slices", by="FragmentHeader(fragment_slice_count=0), transform_parameters, no fragment_data")
    inner = [n for n in outer.body if isinstance(n, ast.For)]
    ok = len(inner) == 1 and len(outer.body) == 1 and isinstance(inner[0].iter, ast.Call) and dotted(inner[0].iter.func) == "range" and subscript_key(inner[0].iter.args[-1], feat) == "slices_x" and len(outer.iter.args) == 1 and len(inner[0].iter.args) == 1
    res.check(ok, "C03.d", "fragments:raster-order", where, "slices must be visited for sy in range(slices_y): for sx in range(slices_x) (the order of the transform data and of the decoder's fragment offsets)", by="sy outer, sx inner, full ranges")
    if not ok:
        return
    sy, sx = dotted(outer.target), dotted(inner[0].target)
    body = inner[0].body
    # slice iterator: iter(transform_data[slices_name]) consumed once per iteration
    itv = None
    for n in fn.body:
        if isinstance(n, ast.Assign) and isinstance(n.value, ast.Call) and dotted(n.value.func) == "iter":
            itv = dotted(n.targets[0])
            src = norm(n.value.args[0])
    nexts = [c for s in body for c in ast.walk(s) if isinstance(c, ast.Call) and dotted(c.func) == "next" and dotted(c.args[0]) == itv]
    top_next = [c for s in body if not isinstance(s, (ast.If, ast.For, ast.While)) for c in ast.walk(s) if isinstance(c, ast.Call) and dotted(c.func) == "next"]
    ok = itv is not None and len(nexts) == 1 and len(top_next) == 1 and "slices_name" in src and "transform_data" in src
    appended = any(isinstance(c, ast.Call) and isinstance(c.func, ast.Attribute) and c.func.attr == "append" and c.args and c.args[0] is nexts[0] for s in body for c in ast.walk(s)) if nexts else False
    res.check(ok and appended, "C03.d", "fragments:every-slice-once", where, "each (sy, sx) iteration must append exactly one next(slice_iterator) over transform_data[slices_name], unconditionally", by="one unconditional next(iter(transform_data[slices_name])) per slice position")
    # counting: remaining == 0 -> remaining = fragment_slice_count + new fragment at (sx, sy); then count += 1, remaining -= 1
    remv = None
    new_if = None
    for s in body:
        if isinstance(s, ast.If) and isinstance(s.test, ast.Compare) and isinstance(s.test.ops[0], ast.Eq) and isinstance(s.test.comparators[0], ast.Constant) and s.test.comparators[0].value == 0 and isinstance(s.test.left, ast.Name):
            remv = s.test.left.id
            new_if = s
    ok = False
    offs = False
    if new_if is not None:
        reset = [b for b in new_if.body if isinstance(b, ast.Assign) and dotted(b.targets[0]) == remv and subscript_key(b.value, feat) == "fragment_slice_count"]
        app = [c for b in new_if.body for c in ast.walk(b) if isinstance(c, ast.Call) and norm(c.func) == "%s.append" % lst]
        ok = len(reset) == 1 and len(app) == 1 and not new_if.orelse
        if app:
            kws = {k.arg: k.value for c in ast.walk(app[0]) if isinstance(c, ast.Call) and dotted(c.func) == "FragmentHeader" for k in c.keywords}
            offs = dotted(kws.get("fragment_x_offset")) == sx and dotted(kws.get("fragment_y_offset")) == sy and isinstance(kws.get("fragment_slice_count"), ast.Constant) and kws["fragment_slice_count"].value == 0
    init0 = any(isinstance(n, ast.Assign) and dotted(n.targets[0]) == remv and isinstance(n.value, ast.Constant) and n.value.value == 0 for n in fn.body[: fn.body.index(outer)])
    dec = [s for s in body if isinstance(s, ast.AugAssign) and dotted(s.target) == remv and isinstance(s.op, ast.Sub) and isinstance(s.value, ast.Constant) and s.value.value == 1]
    inc = [s for s in body if isinstance(s, ast.AugAssign) and isinstance(s.target, ast.Subscript) and const_str(s.target.slice) == "fragment_slice_count" and isinstance(s.op, ast.Add) and isinstance(s.value, ast.Constant) and s.value.value == 1]
    other_rem = [n for n in ast.walk(fn) if isinstance(n, (ast.Assign, ast.AugAssign)) and any(dotted(t) == remv for t in (n.targets if isinstance(n, ast.Assign) else [n.target]))]
    res.check(ok and init0 and len(dec) == 1 and len(other_rem) == 3 and body.index(new_if) < body.index(dec[0]), "C03.d", "fragments:new-fragment-exactly-when-full", where, "a new slice-carrying fragment must start exactly when the previous one is full: counter initialised 0, reset to fragment_slice_count when 0 (and a fragment appended), decremented once per slice", by="remaining: 0 -> fragment_slice_count (+new fragment) ; -= 1 per slice")
    res.check(offs, "C03.d", "fragments:offsets-of-first-slice", where, "a new fragment's fragment_x_offset / fragment_y_offset must be the (sx, sy) of its first slice and its slice count start at 0", by="fragment_x_offset=sx, fragment_y_offset=sy, fragment_slice_count=0")
    res.check(len(inc) == 1 and body.index(new_if) < body.index(inc[0]), "C03.d", "fragments:slice-count-incremented", where, "the current fragment's fragment_slice_count must be incremented once per appended slice", by="fragment_slice_count += 1 per slice")


def rule_e(repo, res):
    from . import c19, c07, c16

    sub = Result("C19")
    c19.rule_e(repo, sub)
    for o in sub.obs:
        res._add(Ob("C03.e", "%s/%s" % (o.rule, o.key), o.where, o.status, o.detail, o.by, o.path))
    # the whole of C07: the encoder's sequences leave offsets, picture numbers and major_version to automatic filling
    sub = c07.check(repo, "quick")
    for o in sub.obs:
        res._add(Ob("C03.e", "%s/%s" % (o.rule, o.key), o.where, o.status, o.detail, o.by, o.path))
    from . import c04

    sub = Result("C04")
    c04.rule_f(repo, sub)
    for o in sub.obs:
        res._add(Ob("C03.e", "%s/%s" % (o.rule, o.key), o.where, o.status, o.detail, o.by, o.path))
    from .. import quantmatrix

    quantmatrix.rule(repo, res, "C03.e")
    from . import c14 as _c14

    _c14.rule_h(repo, res, "C03.e")
    # the whole of C15: the sequence header make_sequence emits is the first of iter_sequence_headers
    from . import c15

    sub = c15.check(repo, "quick")
    for o in sub.obs:
        res._add(Ob("C03.e", "%s/%s" % (o.rule, o.key), o.where, o.status, o.detail, o.by, o.path))


STATE_KEYS_XY = {"slices_x": "x", "slices_y": "y", "luma_width": "x", "luma_height": "y", "color_diff_width": "x", "color_diff_height": "y"}


def _axis_of(e, fn, depth=0):
    """'x' / 'y' when e is width(...)/height(...) of an array (or a local so defined); None otherwise"""
    if isinstance(e, ast.Call) and dotted(e.func) in ("width", "height") and len(e.args) == 1:
        return "x" if dotted(e.func) == "width" else "y"
    if isinstance(e, ast.Name) and depth < 2:
        ds = [a.value for a in ast.walk(fn) if isinstance(a, ast.Assign) and any(isinstance(t, ast.Name) and t.id == e.id for t in a.targets)]
        ax = set(_axis_of(d, fn, depth + 1) for d in ds)
        if len(ax) == 1:
            return ax.pop()
    return None


def rule_f(repo, res):
    n = 0
    for name, m in sorted(repo.modules.items()):
        rel = name.split("vc2_conformance.", 1)[-1]
        if not (rel.startswith("encoder.") or rel == "codec_features" or rel.startswith("test_cases.")):
            continue
        for fn in [f for f in ast.walk(m.tree) if isinstance(f, ast.FunctionDef)]:
            for c in ast.walk(fn):
                if not (isinstance(c, ast.Call) and dotted(c.func) == "State" and c.keywords):
                    continue
                if m.enclosing_function(c) is not fn:
                    continue
                bad = []
                for k in c.keywords:
                    if k.arg is None:
                        continue
                    v = k.value
                    src = None
                    if isinstance(v, ast.Subscript) and const_str(v.slice) is not None and isinstance(v.value, ast.Name):
                        src = const_str(v.slice)
                        if src != k.arg:
                            bad.append("%s=%s[%r]" % (k.arg, v.value.id, src))
                    ax = _axis_of(v, fn)
                    if ax is not None and k.arg in STATE_KEYS_XY and STATE_KEYS_XY[k.arg] != ax:
                        bad.append("%s=%s (a %s extent under a%s key)" % (k.arg, short(v, 30), "horizontal" if ax == "x" else "vertical", " vertical" if ax == "x" else " horizontal"))
                    if isinstance(v, ast.Name) and v.id in STATE_KEYS_XY and v.id != k.arg:
                        bad.append("%s=%s" % (k.arg, v.id))
                n += 1
                res.check(not bad, "C03.f", "%s:State(%s)" % (fn.name, ",".join(k.arg or "**" for k in c.keywords)[:60]), "%s:%s" % (m.rel, fn.name), "scratch State built with mismatched sources: %s -- the pseudocode helper then computes for a different configuration than the one written to the stream" % "; ".join(bad), by="every key bound to its own source")
    res.info["scratch_states"] = n


def rule_h(repo, res):
    # the validator's side exists
    dm = repo.mod("decoder.sequence_header")
    v_raises = [r for r in ast.walk(dm.tree) if isinstance(r, ast.Raise) and isinstance(r.exc, ast.Call) and dotted(r.exc.func) == "PictureDimensionsNotMultipleOfFrameDimensions"]
    if not v_raises:
        raise AnalysisError("validator no longer raises PictureDimensionsNotMultipleOfFrameDimensions")
    # the encoder's side: an `if ... % ...` on frame/picture dimensions guarding a raise, anywhere in the encoder or the reader
    found = []
    for name, m in sorted(repo.modules.items()):
        if not (name.startswith("vc2_conformance.encoder.") or name.endswith(".codec_features")):
            continue
        for i in ast.walk(m.tree):
            if isinstance(i, ast.If) and any(isinstance(x, ast.Raise) for x in ast.walk(i)):
                t = norm(i.test)
                if "%" in t and any(k in t for k in ("frame_width", "frame_height", "luma_width", "luma_height", "color_diff_width", "color_diff_height")):
                    found.append("%s:%d" % (m.rel, i.lineno))
    # same for the clean area: the validator raises CleanAreaOutOfRange when clean size + offset exceeds the frame
    v2 = [r for r in ast.walk(dm.tree) if isinstance(r, ast.Raise) and isinstance(r.exc, ast.Call) and dotted(r.exc.func) == "CleanAreaOutOfRange"]
    if not v2:
        raise AnalysisError("validator no longer raises CleanAreaOutOfRange")
    found2 = []
    for name, m in sorted(repo.modules.items()):
        if not (name.startswith("vc2_conformance.encoder.") or name.endswith(".codec_features")):
            continue
        for i in ast.walk(m.tree):
            if isinstance(i, ast.If) and any(isinstance(x, ast.Raise) for x in ast.walk(i)):
                t = norm(i.test)
                if ("clean_width" in t or "clean_height" in t) and ("frame_width" in t or "frame_height" in t):
                    found2.append("%s:%d" % (m.rel, i.lineno))
    # field coding: the validator wants an even number of fields per sequence (10.4.3) and an even picture number on the
    # first field of each frame (12.2); make_sequence takes any picture list and copies caller-given numbers
    for exc, vmod, key, words, detail in (
        ("OddNumberOfFieldsInSequence", "decoder.stream", "even-field-count:encoder-counterpart", ("pictures", "% 2"), "the validator rejects a field-coded sequence with an odd number of pictures (OddNumberOfFieldsInSequence, 10.4.3), but make_sequence accepts any picture list: with pictures_are_fields and 1 or 3 pictures it returns a sequence that serialises and is then rejected"),
        ("EarliestFieldHasOddPictureNumber", "decoder.assertions", "first-field-even-picture-number:encoder-counterpart", ("pic_num", "% 2"), "the validator rejects a first field with an odd picture number (EarliestFieldHasOddPictureNumber, 12.2), but the encoder copies caller-given picture numbers unchecked: pic_num [1, 2] or [4294967295, 0] with pictures_are_fields is accepted, serialised and then rejected"),
    ):
        vm_ = repo.mod(vmod)
        if not [r for r in ast.walk(vm_.tree) if isinstance(r, ast.Raise) and isinstance(r.exc, ast.Call) and dotted(r.exc.func) == exc]:
            raise AnalysisError("validator no longer raises %s" % exc)
        hits = []
        for name, m in sorted(repo.modules.items()):
            if not name.startswith("vc2_conformance.encoder."):
                continue
            for i in ast.walk(m.tree):
                if isinstance(i, ast.If) and any(isinstance(x, ast.Raise) for x in ast.walk(i)):
                    t = norm(i.test)
                    if all(w in t for w in words) or (words[0] in t and ("& 1" in t)):
                        hits.append("%s:%d" % (m.rel, i.lineno))
        res.check(bool(hits), "C03.h", key, "vc2_conformance/encoder", detail, by="guarded raise at %s" % ", ".join(hits))
    res.check(bool(found2), "C03.h", "clean-area-within-frame:encoder-counterpart", "vc2_conformance/encoder", "the validator rejects a clean area that does not fit inside the frame (CleanAreaOutOfRange, 11.4.8), but neither the encoder nor read_codec_features_csv tests this: e.g. hd1080p_50 with frame_width/height overridden to 1280x720 and the clean area left at its default (1920x1080) is accepted, and every generated sequence header is rejected by the validator", by="guarded raise at %s" % ", ".join(found2))
    res.check(bool(found), "C03.h", "frame-size-divisibility:encoder-counterpart", "vc2_conformance/encoder", "the validator rejects frame sizes that are not whole multiples of the picture component sizes (decoder/sequence_header.py), but neither the encoder nor read_codec_features_csv tests this: e.g. a 7x4 4:2:2 configuration is accepted, encoded, and the stream is then rejected by the validator", by="guarded raise at %s" % ", ".join(found))
