"""C01 Validator accepts exactly the structurally conformant data-unit
histories (structural part).

The iff over histories is behaviour and is not decided.  Decided: the
preconditions of every structure check hold on all paths (a), the
header-first/EOS-last axiom's side conditions (b), the repeated-sequence-header
byte comparison brackets all header reads (c), every structure rule keeps a
reachable conditional raise site (d), the level ordering patterns mean what
they say under the automaton construction the code performs (e), and the
bookkeeping each rule depends on is updated on every path (f).
"""
import ast
import os
from collections import OrderedDict

from ..core import AnalysisError, const_str, dotted, norm, short, subscript_key
from ..report import Result
from ..mustflow import MustFlow, FS
from .. import analyses, regex, levels, nfa_model, tables

STRUCTURE_EXCEPTIONS = OrderedDict([
    ("BadParseInfoPrefix", "parse info prefix"),
    ("BadParseCode", "parse code is a known value"),
    ("InconsistentNextParseOffset", "next parse offset equals the true distance"),
    ("MissingNextParseOffset", "next parse offset present where mandatory"),
    ("InvalidNextParseOffset", "next parse offset not inside the parse info"),
    ("NonZeroNextParseOffsetAtEndOfSequence", "next parse offset 0 at end of sequence"),
    ("InconsistentPreviousParseOffset", "previous parse offset equals the true distance"),
    ("NonZeroPreviousParseOffsetAtStartOfSequence", "previous parse offset 0 at start of sequence"),
    ("GenericInvalidSequence", "sequence header first, end of sequence last"),
    ("LevelInvalidSequence", "level's data-unit ordering pattern"),
    ("ParseCodeNotAllowedInProfile", "profile-permitted parse codes"),
    ("ParseCodeNotSupportedByVersion", "version-permitted parse codes"),
    ("NonConsecutivePictureNumbers", "consecutive picture numbers mod 2^32"),
    ("EarliestFieldHasOddPictureNumber", "even first field"),
    ("OddNumberOfFieldsInSequence", "whole frames"),
    ("FragmentedPictureRestarted", "fragmented picture: no restart before completion"),
    ("PictureNumberChangedMidFragmentedPicture", "fragmented picture: same picture number"),
    ("TooManySlicesInFragmentedPicture", "fragmented picture: initial zero-slice fragment / no extra slices"),
    ("FragmentSlicesNotContiguous", "fragmented picture: contiguous raster-order slices"),
    ("SequenceContainsIncompleteFragmentedPicture", "fragmented picture complete before the sequence ends"),
    ("PictureInterleavedWithFragmentedPicture", "no interleaving of pictures with a fragmented picture"),
    ("SequenceHeaderChangedMidSequence", "byte-identical repeated sequence headers"),
    ("MajorVersionTooHigh", "major_version minimality"),
])

STRUCTURE_MODULES = ("decoder.stream", "decoder.fragment_syntax", "decoder.assertions")

# Rule C01.g: the state keys / parse-code predicates on which the *evaluation*
# of each structure check may depend (control dependence: enclosing `if` tests,
# early returns before it, and the definitions of the locals those tests use).
# Confirmed by reading the pinned tree; one line of reason each.  A check that
# becomes dependent on anything else is skipped for histories it used to cover.
ALLOWED_GUARD_DEPS = {
    "BadParseInfoPrefix": set(),
    "BadParseCode": set(),
    "InconsistentNextParseOffset": {"next_parse_offset"},  # only checkable when the previous unit declared a non-zero offset
    "MissingNextParseOffset": {"parse_code", "is_picture()", "is_fragment()"},  # mandatory for units that are neither pictures nor fragments (nor end of sequence)
    "InvalidNextParseOffset": set(),
    "NonZeroNextParseOffsetAtEndOfSequence": {"parse_code"},  # applies to the end-of-sequence unit
    "InconsistentPreviousParseOffset": {"_last_parse_info_offset"},  # applies to every unit but the first
    "NonZeroPreviousParseOffsetAtStartOfSequence": {"_last_parse_info_offset"},  # applies to the first unit
    "GenericInvalidSequence": set(),
    "LevelInvalidSequence": {"_level_sequence_matcher"},  # once the level is known
    "ParseCodeNotAllowedInProfile": {"profile"},  # once the profile is known
    "ParseCodeNotSupportedByVersion": set(),
    "NonConsecutivePictureNumbers": {"_last_picture_number"},  # from the second picture on
    "EarliestFieldHasOddPictureNumber": {"picture_coding_mode"},  # fields only
    "OddNumberOfFieldsInSequence": {"picture_coding_mode"},  # fields only
    "FragmentedPictureRestarted": {"fragment_slice_count"},  # first fragments
    "PictureNumberChangedMidFragmentedPicture": {"fragment_slice_count"},  # slice-bearing fragments
    "TooManySlicesInFragmentedPicture": {"fragment_slice_count"},  # slice-bearing fragments
    "FragmentSlicesNotContiguous": {"fragment_slice_count"},  # slice-bearing fragments
    "SequenceContainsIncompleteFragmentedPicture": set(),
    "PictureInterleavedWithFragmentedPicture": {"is_seq_header()", "is_picture()"},  # picture data units
    "SequenceHeaderChangedMidSequence": {"_last_sequence_header_bytes"},  # repeated headers
    "MajorVersionTooHigh": {"_num_pictures_in_sequence", "major_version"},  # documented exception: empty sequence labelled version 3
}


# What each structure check's *own* condition may read (state keys and calls), frozen from the
# reviewed tree: a site's condition must read exactly one of the listed sets.  A conjunct on
# anything else makes the rule depend on an unrelated circumstance (position in the stream,
# another unit's fields); a dropped operand changes what the rule compares.
OWN_CONDITION_READS = {
    "BadParseInfoPrefix": [{"read_uint_lit()"}],
    "InconsistentNextParseOffset": [{"_last_parse_info_offset", "next_parse_offset", "tell()"}],
    "MissingNextParseOffset": [{"next_parse_offset"}],
    "InvalidNextParseOffset": [{"next_parse_offset"}],
    "NonZeroNextParseOffsetAtEndOfSequence": [{"next_parse_offset"}],
    "InconsistentPreviousParseOffset": [{"_last_parse_info_offset", "previous_parse_offset", "tell()"}],
    "NonZeroPreviousParseOffsetAtStartOfSequence": [{"previous_parse_offset"}],
    "ParseCodeNotAllowedInProfile": [{"parse_code", "profile"}],
    "ParseCodeNotSupportedByVersion": [{"major_version", "parse_code"}],
    "NonConsecutivePictureNumbers": [{"_last_picture_number", "picture_number"}],
    "EarliestFieldHasOddPictureNumber": [{"_num_pictures_in_sequence", "picture_coding_mode", "picture_number"}],
    "OddNumberOfFieldsInSequence": [{"_num_pictures_in_sequence"}],
    "FragmentedPictureRestarted": [{"_fragment_slices_remaining"}],
    "PictureNumberChangedMidFragmentedPicture": [{"_last_picture_number", "picture_number"}],
    "TooManySlicesInFragmentedPicture": [{"_fragment_slices_remaining"}, {"_fragment_slices_remaining", "fragment_slice_count"}],
    "FragmentSlicesNotContiguous": [{"fragment_slice_count", "fragment_slices_received", "fragment_x_offset", "fragment_y_offset", "slices_x"}],
    "SequenceContainsIncompleteFragmentedPicture": [{"_fragment_slices_remaining"}],
    "PictureInterleavedWithFragmentedPicture": [{"_fragment_slices_remaining"}],
    "SequenceHeaderChangedMidSequence": [{"_last_sequence_header_bytes", "record_bitstream_finish()"}],
    "MajorVersionTooHigh": [{"_expected_major_version", "major_version"}],
}


def check(repo, tier="quick"):
    res = Result("C01")
    res.explanation = (
        "Structure-rule analysis of the validator: StateFlow preconditions of every check in stream/fragment/assertion code, "
        "axiom A1 side conditions, must-flow bracket of the sequence-header recording, reachability of a conditional raise "
        "site for each of the 23 structure rules, language of each level ordering pattern under the extracted automaton "
        "construction, and must-pass-through of the bookkeeping updates the rules rely on."
    )
    res.rule("C01.h", "bug patterns with zero expected instances in this property's modules: swapped same-named arguments, lower-bound guard followed by a decrement of the guarded value, presence of a dictionary entry decided by truthiness")
    res.rule("C01.a", "every state read made by a structure check is definitely assigned on every path (StateFlow)")
    res.rule("C01.b", "axiom A1 side conditions: sequence header first, end of sequence last")
    res.rule("C01.c", "repeated sequence header is recorded around all of its reads and compared byte for byte")
    res.rule("C01.d", "each structure rule of the statement keeps a reachable, conditional raise site")
    res.rule("C01.e", "level ordering patterns: symbols are parse-code names, admit sequence_header first, and implemented language = reference language")
    res.rule("C01.f", "bookkeeping the rules depend on is updated on every normal path (offsets, picture numbers, fragment counters, level matcher)")
    res.rule("C01.i", "raster order of fragment slices: FragmentSlicesNotContiguous is raised exactly when the coded (x, y) offset of a fragment's first slice differs, coordinate by coordinate, from (received % slices_x, received // slices_x); a comparison of the raster index y*slices_x + x alone also accepts x >= slices_x")
    res.rule("C01.j", "every level can be satisfied: for each level of level_constraints.csv, some column's allowed major_version values include a version that the minimality rule (assert_major_version_is_minimal: the version must equal the largest implication logged) can produce for the column's profile -- max(profile implication, r) with r ranging over the literal results of the profile-independent implication functions; otherwise no stream at that level is ever accepted")
    res.rule("C01.g", "the evaluation of each structure check depends only on its documented applicability conditions (control-dependence signature within the allowed set)")

    sf = analyses.validator_stateflow(repo)
    rule_a(repo, res, sf)
    for cid, ok, where, detail in analyses.a1_conditions(repo):
        res.check(ok, "C01.b", cid, where, detail, by="checked")
    rule_c(repo, res)
    rule_d(repo, res, sf)
    rule_e(repo, res)
    rule_f(repo, res)
    rule_g(repo, res, sf)
    res.floor("C01.g", len(STRUCTURE_EXCEPTIONS))
    rule_i(repo, res)
    res.floor("C01.i", 2)
    from .c07 import version_logging_rule

    version_logging_rule(repo, res, "C01.f")
    rule_j(repo, res)
    res.floor("C01.j", 8)
    from .. import lints as _lints

    _lints.rule(repo, res, "C01.h", ['decoder.stream', 'decoder.fragment_syntax', 'decoder.assertions', 'decoder.sequence_header', 'decoder.picture_syntax', 'decoder.transform_data_syntax', 'decoder.io', 'pseudocode.state'])
    res.floor("C01.h", 9)
    res.floor("C01.a", 40)
    res.floor("C01.b", 6)
    res.floor("C01.c", 4)
    res.floor("C01.d", len(STRUCTURE_EXCEPTIONS))
    res.floor("C01.e", 6)
    res.floor("C01.f", 8)
    res.assumptions = [
        "the arithmetic of each comparison (offset distances, picture-number wrap, raster order) is not decided",
        "the recursive-descent pattern parser reads patterns as the reference grammar does",
        "spec-pinned lines are as the standard's pseudocode",
    ]
    res.trusted = ["vcheck.regex reference engine", "axiom A1 (side conditions machine-checked)", "vc2_data_tables ParseCodes"]
    return res


def level_patterns_admit_sequence_header(repo):
    """Used by C02.5 to discharge `assert matcher.match_symbol("sequence_header")`.
    Decided under the *implemented* construction (extracted gadgets/edges)."""
    bad = []
    pats = levels.level_patterns(repo)
    gadgets, _ = nfa_model.extract_gadgets(repo)
    sem = nfa_model.add_transition_semantics(repo)
    for lvl, pat in pats.items():
        try:
            a = regex.parse(pat)
        except ValueError as e:
            bad.append("level %d: pattern does not parse (%s)" % (lvl, e))
            continue
        alpha = sorted(regex.symbols_of(a) | {"sequence_header"}) + [regex.OTHER]
        d = regex.to_dfa(regex.build(a, gadgets, bidirectional_eps=sem["eps_reverse"]), alpha)
        # match_symbol succeeds iff some transition exists (liveness is not required by the assert)
        if "sequence_header" not in d.trans[0]:
            bad.append("level %d pattern cannot start with sequence_header" % lvl)
    if bad:
        return False, "; ".join(bad)
    return True, "all %d level patterns admit sequence_header as first symbol (implemented construction)" % len(pats)


def rule_a(repo, res, sf):
    groups = OrderedDict()
    for r in sf.reads:
        modn = r.mod.name
        if not (any(modn.endswith(x) for x in STRUCTURE_MODULES) or r.fn in ("picture_header", "sequence_header")):
            continue
        g = groups.setdefault((r.mod.rel, r.fn, r.key), dict(ok=True, bad=None, by=set()))
        if not r.ok and r.kind != "excepted":
            g["ok"] = False
            g["bad"] = g["bad"] or r
        if r.by:
            g["by"].add(r.by)
    for (rel, fn, key), g in groups.items():
        where = "%s:%s" % (rel, fn)
        if g["ok"]:
            res.ok("C01.a", "%s:state[%s]" % (fn, key), where, by=",".join(sorted(g["by"])))
        else:
            r = g["bad"]
            res.bad("C01.a", "%s:state[%s]" % (fn, key), where, "precondition of a structure check: state[%r] may be undefined here, so a malformed history is not reported as a conformance error" % key, path=list(r.stack))
    # locals of the structure-check functions (D1 class of defect)
    from ..locals_da import LocalsDA

    for spec in ("decoder.stream:parse_info", "decoder.stream:parse_sequence", "decoder.fragment_syntax:fragment_header", "decoder.assertions:assert_picture_number_incremented_as_expected", "decoder.assertions:assert_major_version_is_minimal", "decoder.sequence_header:sequence_header"):
        m, fn = repo.func(spec)
        fails = LocalsDA(fn).run()
        where = "%s:%s" % (m.rel, fn.name)
        if fails:
            for f in fails:
                res.bad("C01.a", "%s:local:%s" % (fn.name, f.name), where, "local %r may be unbound when the check fires" % f.name)
        else:
            res.ok("C01.a", "%s:locals" % fn.name, where, by="definite assignment")


def rule_c(repo, res):
    m, fn = repo.func("decoder.sequence_header:sequence_header")
    where = "%s:sequence_header" % m.rel
    cg = analyses.callgraph(repo)
    # functions that (transitively) read the bitstream
    readers = set()
    target = cg.get("decoder.io:read_bit").id
    for fid, fr in cg.funcs.items():
        if not fr.mod.name.startswith("vc2_conformance.decoder") and not fr.mod.name.startswith("vc2_conformance.pseudocode"):
            continue
        if target in cg.reachable([fid[len(repo.PKG) + 1:]] if False else [fid], follow_unknown_methods=False):
            readers.add(fr.node.name)
    problems = []
    nreads = [0]
    rec_var = [None]

    def on(node, st):
        if isinstance(node, ast.If):
            t = node.test
            if isinstance(t, ast.Compare) and isinstance(t.ops[0], ast.NotIn) and const_str(t.left) == "_last_sequence_header_bytes" and "fin" in st.must:
                # `if key not in state: state[key] = recording` -- on the other branch the
                # key already holds the (equal) bytes of the earlier header
                for b in node.body:
                    if isinstance(b, ast.Assign) and any(subscript_key(x, "state") == "_last_sequence_header_bytes" for x in b.targets) and rec_var[0] is not None and dotted(b.value) == rec_var[0]:
                        return st.add("stored")
            return st
        if isinstance(node, ast.Assign):
            if isinstance(node.value, ast.Call) and dotted(node.value.func) == "record_bitstream_finish" and isinstance(node.targets[0], ast.Name):
                rec_var[0] = node.targets[0].id
            if any(subscript_key(t, "state") == "_last_sequence_header_bytes" for t in node.targets):
                if rec_var[0] is not None and dotted(node.value) == rec_var[0] and "fin" in st.must:
                    return st.add("stored")
            return st
        f = dotted(node.func)
        if f == "record_bitstream_start":
            if "rec" in st.may:
                problems.append("recording started twice")
            if "read" in st.may:
                problems.append("a bitstream read precedes record_bitstream_start")
            return st.add("rec")
        if f == "record_bitstream_finish":
            if "rec" not in st.must:
                problems.append("record_bitstream_finish not dominated by record_bitstream_start")
            return st.add("fin")
        if f in readers:
            nreads[0] += 1
            if "rec" not in st.must:
                problems.append("bitstream read %s() not dominated by record_bitstream_start" % f)
            if "fin" in st.may:
                problems.append("bitstream read %s() after record_bitstream_finish" % f)
            return st.add("read")
        return st

    mf = MustFlow(fn, on, node_types=(ast.Call, ast.Assign, ast.If)).run()
    ex = mf.normal_exit_state()
    res.check(not problems and nreads[0] >= 3, "C01.c", "sequence_header:recording-brackets-reads", where, "; ".join(sorted(set(problems))) or "only %d reads seen" % nreads[0], by="start dominates and finish follows all %d reading calls" % nreads[0])
    res.check(ex is not None and "fin" in ex.must, "C01.c", "sequence_header:finish-on-every-exit", where, "a normal exit does not pass record_bitstream_finish", by="must-pass-through")
    res.check(ex is not None and "stored" in ex.must, "C01.c", "sequence_header:bytes-stored", where, "the recorded bytes are not stored into state['_last_sequence_header_bytes'] on every normal exit", by="must-pass-through")
    # comparison under the `in state` guard
    ok = False
    for n in ast.walk(fn):
        if isinstance(n, ast.If) and isinstance(n.test, ast.Compare) and isinstance(n.test.ops[0], ast.In) and const_str(n.test.left) == "_last_sequence_header_bytes" and dotted(n.test.comparators[0]) == "state":
            for i in ast.walk(n):
                if isinstance(i, ast.If) and isinstance(i.test, ast.Compare) and len(i.test.ops) == 1 and isinstance(i.test.ops[0], ast.NotEq):
                    sides = [i.test.left, i.test.comparators[0]]
                    has_state = any(subscript_key(s, "state") == "_last_sequence_header_bytes" for s in sides)
                    has_rec = any(rec_var[0] is not None and dotted(s) == rec_var[0] for s in sides)
                    raises = any(isinstance(b, ast.Raise) and isinstance(b.exc, ast.Call) and dotted(b.exc.func) == "SequenceHeaderChangedMidSequence" for b in i.body)
                    if has_state and has_rec and raises:
                        ok = True
    res.check(ok, "C01.c", "sequence_header:byte-comparison", where, "no `if recorded != state['_last_sequence_header_bytes']: raise SequenceHeaderChangedMidSequence` under an `in state` guard", by="!= comparison of the recording with the stored bytes raises")
    # finish returns every recorded byte: record_bitstream_finish returns the bytearray it read from state
    im, fin = repo.func("decoder.io:record_bitstream_finish")
    rets = [n for n in ast.walk(fin) if isinstance(n, ast.Return)]
    var = None
    for s in fin.body:
        if isinstance(s, ast.Assign) and subscript_key(s.value, "state") == "_recorded_bytes" and isinstance(s.targets[0], ast.Name):
            var = s.targets[0].id
    res.check(bool(rets) and var is not None and all(dotted(r.value) == var for r in rets), "C01.c", "record_bitstream_finish:returns-recording", "%s:record_bitstream_finish" % im.rel, "record_bitstream_finish does not return state['_recorded_bytes']", by="returns the recorded bytearray")
    # the partially consumed last byte: bits already read are kept, unread bits zeroed.  next_bit is the index of the
    # next bit to be read (7 = nothing read yet), so the bits read are those above it: mask = ~((1 << (next_bit + 1)) - 1)
    from ..core import pfind as _pf
    from .c20 import inline_locals as _inl

    st_ = fin.args.args[0].arg
    ok = False
    found = "no append of the masked current byte found"
    for c in ast.walk(fin):
        if isinstance(c, ast.Call) and isinstance(c.func, ast.Attribute) and c.func.attr == "append" and dotted(c.func.value) == var and c.args:
            e = _inl(fin, c.args[0])
            found = short(e, 120)
            forms = [
                "%(s)s['current_byte'] & ~((1 << %(s)s['next_bit'] + 1) - 1)",
                "~((1 << %(s)s['next_bit'] + 1) - 1) & %(s)s['current_byte']",
                "%(s)s['current_byte'] & 255 << %(s)s['next_bit'] + 1 & 255",
                "%(s)s['current_byte'] >> %(s)s['next_bit'] + 1 << %(s)s['next_bit'] + 1",
            ]
            masked = norm(e) in [norm(ast.parse(f % {"s": st_}).body[0].value) for f in forms]
            gs = [norm(t) for t, pol in _guards_chain(c, fin) if pol]
            ok = masked and gs in (["%s['next_bit'] != 7" % st_], ["%s['next_bit'] < 7" % st_])
    res.check(ok, "C01.c", "record_bitstream_finish:partial-byte-mask", "%s:record_bitstream_finish" % im.rel, "when the recording ends inside a byte (next_bit != 7) the byte must be appended with exactly the bits already read kept, i.e. masked with ~((1 << (next_bit + 1)) - 1) (found `%s`): another mask makes headers that differ in their last bits compare equal, or equal headers followed by different padding compare different" % found, by="current_byte & ~((1 << (next_bit + 1)) - 1) under next_bit != 7")
    rm, rb = repo.func("decoder.io:read_byte")
    appends = any(
        isinstance(n, ast.Call) and isinstance(n.func, ast.Attribute) and n.func.attr == "append" and subscript_key(n.func.value, "state") == "_recorded_bytes" and n.args and subscript_key(n.args[0], "state") == "current_byte"
        for n in ast.walk(rb)
    )
    res.check(appends, "C01.c", "read_byte:records-consumed-byte", "%s:read_byte" % rm.rel, "read_byte does not append the consumed byte to state['_recorded_bytes']", by="append(state['current_byte']) under the recording guard")


def raise_sites(repo, sf):
    """exception class name -> list of (module, function, node, kind)."""
    out = {}
    helpers = {}
    hm = repo.mod("decoder.assertions")
    for name, fn in hm.funcs.items():
        params = [a.arg for a in fn.args.args]
        if "exception_type" in params:
            helpers[name] = params.index("exception_type")
    for (modname, fname) in sf.functions:
        m = repo.modules[modname]
        fn = m.funcs.get(fname)
        if fn is None:
            continue
        for n in ast.walk(fn):
            if isinstance(n, ast.Raise) and n.exc is not None:
                t = n.exc.func if isinstance(n.exc, ast.Call) else n.exc
                nm = dotted(t)
                if nm:
                    out.setdefault(nm, []).append((m, fn, n, "raise"))
            elif isinstance(n, ast.Call) and isinstance(n.func, ast.Name) and n.func.id in helpers:
                idx = helpers[n.func.id]
                if idx < len(n.args):
                    nm = dotted(n.args[idx])
                    if nm:
                        out.setdefault(nm, []).append((m, fn, n, "via " + n.func.id))
    return out


def reachable_nodes(fn):
    seen = set()

    def on(node, st):
        seen.add(id(node))
        return st

    MustFlow(fn, on, node_types=(ast.Call, ast.Raise)).run()
    return seen


def rule_d(repo, res, sf):
    exc = tables.ExcTable(repo)
    sites = raise_sites(repo, sf)
    cache = {}
    for cls, clause in STRUCTURE_EXCEPTIONS.items():
        where = "vc2_conformance/decoder/exceptions.py:%s" % cls
        if cls not in exc.classes or not exc.is_sub(cls):
            res.bad("C01.d", "rule:%s" % cls, where, "exception class for rule %r vanished" % clause)
            continue
        good = []
        for m, fn, node, kind in sites.get(cls, []):
            if id(fn) not in cache:
                cache[id(fn)] = reachable_nodes(fn)
            if id(node) not in cache[id(fn)]:
                continue
            # conditional: enclosed by an If / loop / try inside its function
            p = getattr(node, "_parent", None)
            cond = False
            while p is not None and p is not fn:
                if isinstance(p, (ast.If, ast.While, ast.For, ast.Try, ast.ExceptHandler)):
                    cond = True
                p = getattr(p, "_parent", None)
            if kind.startswith("via") or cond:
                good.append("%s:%s (%s)" % (m.rel, fn.name, kind))
        res.check(bool(good), "C01.d", "rule:%s" % cls, where, "rule %r: no reachable conditional raise site of %s in code reachable from parse_stream (sites seen: %d)" % (clause, cls, len(sites.get(cls, []))), by="; ".join(good[:3]))


def rule_e(repo, res):
    pcs = repo.ext.enums["ParseCodes"]
    pats = levels.level_patterns(repo)
    gadgets, _ = nfa_model.extract_gadgets(repo)
    sem = nfa_model.add_transition_semantics(repo)
    lv = repo.ext.enums.get("Levels", {})
    where = levels.CSV
    # every level enum value has a row (LEVEL_SEQUENCE_RESTRICTIONS[state["level"]] cannot miss)
    missing = sorted(set(lv.values()) - set(pats))
    res.check(not missing, "C01.e", "levels:rows-cover-enum", where, "Levels values without a sequence-restriction row: %s" % missing, by="%d Levels values all have rows" % len(lv))
    by_text = OrderedDict()
    for lvl, pat in pats.items():
        by_text.setdefault(" ".join(pat.split()), []).append(lvl)
    m_, fn_, st_, generic = __import__("vcheck.a1", fromlist=["generic_pattern"]).generic_pattern(repo)
    items = [("levels %s" % lvls, text) for text, lvls in by_text.items()]
    if generic is not None:
        items.append(("generic (decoder/stream.py:parse_sequence)", " ".join(generic.split())))
    for label, text in items:
        key = "pattern:%s" % text
        try:
            a = regex.parse(text)
        except ValueError as e:
            res.bad("C01.e", key, where, "%s: pattern does not parse: %s" % (label, e))
            continue
        syms = regex.symbols_of(a)
        unknown = sorted(s for s in syms if s not in pcs)
        res.check(not unknown, "C01.e", "symbols:%s" % text, where, "%s: symbols that are not ParseCodes member names (can never match): %s" % (label, unknown), by="%d symbols are ParseCodes names" % len(syms))
        alpha = sorted(set(pcs) | syms)
        d_ref = regex.to_dfa(regex.build(a), alpha)
        d_impl = regex.to_dfa(regex.build(a, gadgets, bidirectional_eps=sem["eps_reverse"]), alpha)
        w1, w2 = regex.compare(d_impl, d_ref)
        det = ""
        if w1 is not None:
            det = "%s: the matcher accepts the data-unit sequence %s, which the ordering pattern forbids" % (label, list(w1))
        elif w2 is not None:
            det = "%s: the matcher rejects the data-unit sequence %s, which the ordering pattern allows" % (label, list(w2))
        res.check(w1 is None and w2 is None, "C01.e", key, where, det, by="%s: implemented language = reference language over the %d parse codes" % (label, len(alpha)))
        if label.startswith("levels"):
            res.check("sequence_header" in d_impl.trans[0], "C01.e", "first:%s" % text, where, "%s: pattern cannot start with sequence_header" % label, by="sequence_header is a valid first symbol")


def cond_raises(repo, m, node, excname, depth=0):
    """node is an `if ...: raise X(...)` statement, or a call to a resolvable
    function whose body contains one (check moved into a helper)."""
    if isinstance(node, ast.If):
        for b in node.body + node.orelse:
            if isinstance(b, ast.Raise) and isinstance(b.exc, ast.Call) and dotted(b.exc.func) == excname:
                return node.test
            if isinstance(b, ast.If):
                t = cond_raises(repo, m, b, excname, depth)
                if t is not None:
                    return node.test
        return None
    if isinstance(node, ast.Call) and isinstance(node.func, ast.Name) and depth < 2:
        sym = repo.resolve(m.name, node.func.id)
        if sym is not None and sym.kind == "func":
            sm = repo.modules[sym.mod]
            for s_ in sym.node.body:
                if isinstance(s_, ast.If):
                    t = cond_raises(repo, sm, s_, excname, depth + 1)
                    if t is not None:
                        return t
    return None


def rule_f(repo, res):
    # parse_info: _last_parse_info_offset stored on every normal exit, from the tell() taken right after byte_align
    m, fn = repo.func("decoder.stream:parse_info")
    where = "%s:parse_info" % m.rel
    var = [None]

    def on(node, st):
        if isinstance(node, ast.Assign):
            if isinstance(node.targets[0], ast.Name) and isinstance(node.value, ast.Subscript) and isinstance(node.value.value, ast.Call) and dotted(node.value.value.func) == "tell" and "aligned" in st.must and "read" not in st.may:
                var[0] = node.targets[0].id
                return st
            if any(subscript_key(t, "state") == "_last_parse_info_offset" for t in node.targets) and var[0] and dotted(node.value) == var[0]:
                return st.add("offset_stored")
            return st
        f = dotted(node.func)
        if f == "byte_align":
            return st.add("aligned")
        if f in ("read_uint_lit", "read_nbits", "read_bit", "read_uint", "read_bool"):
            return st.add("read")
        if f == "assert_parse_code_in_sequence" and len(node.args) > 1 and subscript_key(node.args[1], "state") == "_level_sequence_matcher":
            return st.add("level_match")
        return st

    mf = MustFlow(fn, on, node_types=(ast.Call, ast.Assign)).run()
    ex = mf.normal_exit_state()
    res.check(ex is not None and "offset_stored" in ex.must, "C01.f", "parse_info:last-offset-stored", where, "state['_last_parse_info_offset'] is not updated (from the offset taken after byte_align, before any read) on every normal exit", by="must-pass-through")
    # level matcher consulted whenever present
    lvl_ok = False
    for n in ast.walk(fn):
        if isinstance(n, ast.If) and isinstance(n.test, ast.Compare) and isinstance(n.test.ops[0], ast.In) and const_str(n.test.left) == "_level_sequence_matcher":
            for c in ast.walk(n):
                if isinstance(c, ast.Call) and dotted(c.func) == "assert_parse_code_in_sequence" and len(c.args) > 2 and subscript_key(c.args[0], "state") == "parse_code" and subscript_key(c.args[1], "state") == "_level_sequence_matcher" and dotted(c.args[2]) == "LevelInvalidSequence":
                    lvl_ok = not n.orelse
    # the guard must sit at the top level of parse_info (not under another condition)
    top = [s for s in fn.body if isinstance(s, ast.If) and isinstance(s.test, ast.Compare) and const_str(s.test.left) == "_level_sequence_matcher"]
    res.check(lvl_ok and bool(top), "C01.f", "parse_info:level-matcher-consulted", where, "the level matcher is not fed every parse code once it exists", by="top-level `if '_level_sequence_matcher' in state: assert_parse_code_in_sequence(...)`")
    # level matcher created once per sequence, under a `not in state` guard, from the level's table cell
    pm, pp = repo.func("decoder.sequence_header:parse_parameters")
    ok = False
    for n in ast.walk(pp):
        if isinstance(n, ast.If) and isinstance(n.test, ast.Compare) and isinstance(n.test.ops[0], ast.NotIn) and const_str(n.test.left) == "_level_sequence_matcher":
            for s in n.body:
                if isinstance(s, ast.Assign) and subscript_key(s.targets[0], "state") == "_level_sequence_matcher" and isinstance(s.value, ast.Call) and dotted(s.value.func) == "Matcher":
                    arg = s.value.args[0]
                    if isinstance(arg, ast.Attribute) and arg.attr == "sequence_restriction_regex" and isinstance(arg.value, ast.Subscript) and dotted(arg.value.value) == "LEVEL_SEQUENCE_RESTRICTIONS" and subscript_key(arg.value.slice, "state") == "level":
                        ok = True
    res.check(ok, "C01.f", "parse_parameters:level-matcher-from-table", "%s:parse_parameters" % pm.rel, "the level matcher is not built (once, under a `not in state` guard) from LEVEL_SEQUENCE_RESTRICTIONS[state['level']].sequence_restriction_regex", by="guarded construction from the level's own table cell")
    # end-of-sequence check on the level matcher
    sm, seq = repo.func("decoder.stream:parse_sequence")
    ok = any(
        isinstance(n, ast.If) and isinstance(n.test, ast.Compare) and isinstance(n.test.ops[0], ast.In) and const_str(n.test.left) == "_level_sequence_matcher" and n in seq.body and any(isinstance(c, ast.Call) and dotted(c.func) == "assert_parse_code_sequence_ended" and subscript_key(c.args[0], "state") == "_level_sequence_matcher" for c in ast.walk(n))
        for n in seq.body
    )
    res.check(ok, "C01.f", "parse_sequence:level-matcher-ended", "%s:parse_sequence" % sm.rel, "the level matcher is not asked whether the sequence may end", by="top-level guarded assert_parse_code_sequence_ended")
    # picture numbers
    am, apn = repo.func("decoder.assertions:assert_picture_number_incremented_as_expected")

    def on2(node, st):
        if isinstance(node, ast.Assign):
            for t in node.targets:
                k = subscript_key(t, "state")
                if k == "_last_picture_number" and subscript_key(node.value, "state") == "picture_number":
                    return st.add("last_stored")
                if k == "_last_picture_number_offset":
                    return st.add("last_off_stored")
        elif isinstance(node, ast.AugAssign):
            if subscript_key(node.target, "state") == "_num_pictures_in_sequence" and isinstance(node.op, ast.Add) and isinstance(node.value, ast.Constant) and node.value.value == 1:
                if "counted" in st.may:
                    return st.add("counted", "double")
                return st.add("counted")
        return st

    mf = MustFlow(apn, on2, node_types=(ast.Assign, ast.AugAssign)).run()
    ex = mf.normal_exit_state()
    res.check(ex is not None and {"last_stored", "last_off_stored", "counted"} <= ex.must and "double" not in ex.may, "C01.f", "picture-number:bookkeeping", "%s:%s" % (am.rel, apn.name), "every normal exit must record the picture number and its offset and count the picture exactly once", by="must-pass-through, once")
    # mask: (last + 1) & 0xFFFFFFFF
    ok = any(isinstance(n, ast.BinOp) and isinstance(n.op, ast.BitAnd) and isinstance(n.right, ast.Constant) and n.right.value == 0xFFFFFFFF and isinstance(n.left, ast.BinOp) and isinstance(n.left.op, ast.Add) and subscript_key(n.left.left, "state") == "_last_picture_number" and isinstance(n.left.right, ast.Constant) and n.left.right.value == 1 for n in ast.walk(apn))
    res.check(ok, "C01.f", "picture-number:wrap", "%s:%s" % (am.rel, apn.name), "expected picture number is not (state['_last_picture_number'] + 1) & 0xFFFFFFFF", by="(last + 1) & 0xFFFFFFFF")
    # picture_header calls the assertion on every path; fragment_header exactly on the zero-slice arm
    phm, ph = repo.func("decoder.picture_syntax:picture_header")

    def on3(node, st):
        if dotted(node.func) == "assert_picture_number_incremented_as_expected":
            return st.add("pn")
        return st

    ex = MustFlow(ph, on3).run().normal_exit_state()
    res.check(ex is not None and "pn" in ex.must, "C01.f", "picture_header:number-checked", "%s:picture_header" % phm.rel, "picture_header does not check the picture number on every path", by="must-pass-through")
    fm, fh = repo.func("decoder.fragment_syntax:fragment_header")
    zero_arm = other = 0
    for n in ast.walk(fh):
        if isinstance(n, ast.If) and isinstance(n.test, ast.Compare) and subscript_key(n.test.left, "state") == "fragment_slice_count" and isinstance(n.test.ops[0], ast.Eq) and isinstance(n.test.comparators[0], ast.Constant) and n.test.comparators[0].value == 0:
            for c in ast.walk(ast.Module(body=n.body, type_ignores=[])):
                if isinstance(c, ast.Call) and dotted(c.func) == "assert_picture_number_incremented_as_expected":
                    zero_arm += 1
            for c in ast.walk(ast.Module(body=n.orelse, type_ignores=[])):
                if isinstance(c, ast.Call) and dotted(c.func) == "assert_picture_number_incremented_as_expected":
                    other += 1
    total = sum(1 for c in ast.walk(fh) if isinstance(c, ast.Call) and dotted(c.func) == "assert_picture_number_incremented_as_expected")
    res.check(zero_arm == 1 and other == 0 and total == 1, "C01.f", "fragment_header:number-checked-on-first-fragment", "%s:fragment_header" % fm.rel, "the picture-number check must run exactly on the fragment_slice_count == 0 arm (found %d there, %d elsewhere)" % (zero_arm, total - zero_arm), by="once, on the zero-slice arm")
    # fragment counters
    dm, fd = repo.func("decoder.fragment_syntax:fragment_data")
    dec = [n for n in ast.walk(fd) if isinstance(n, ast.AugAssign) and subscript_key(n.target, "state") == "_fragment_slices_remaining" and isinstance(n.op, ast.Sub) and isinstance(n.value, ast.Constant) and n.value.value == 1]
    inc = [n for n in ast.walk(fd) if isinstance(n, ast.AugAssign) and subscript_key(n.target, "state") == "fragment_slices_received" and isinstance(n.op, ast.Add)]
    same_block = bool(dec) and bool(inc) and getattr(dec[0], "_parent", None) is getattr(inc[0], "_parent", None) and isinstance(dec[0]._parent, ast.For)
    res.check(len(dec) == 1 and same_block, "C01.f", "fragment_data:remaining-decremented-per-slice", "%s:fragment_data" % dm.rel, "state['_fragment_slices_remaining'] is not decremented once per received slice (next to the fragment_slices_received increment)", by="-= 1 in the per-slice loop body")
    im, ifs = repo.func("decoder.fragment_syntax:initialize_fragment_state")
    ok = any(isinstance(n, ast.Assign) and subscript_key(n.targets[0], "state") == "_fragment_slices_remaining" and isinstance(n.value, ast.BinOp) and isinstance(n.value.op, ast.Mult) and {subscript_key(n.value.left, "state"), subscript_key(n.value.right, "state")} == {"slices_x", "slices_y"} for n in ifs.body)
    res.check(ok, "C01.f", "initialize_fragment_state:remaining-initialised", "%s:initialize_fragment_state" % im.rel, "_fragment_slices_remaining is not set to slices_x * slices_y for a new fragmented picture", by="slices_x * slices_y")
    # parse_sequence: interleave check dominates picture_parse; incomplete check on every normal exit
    problems = []

    def on4(node, st):
        for name, tag in (("PictureInterleavedWithFragmentedPicture", "interleave_checked"), ("SequenceContainsIncompleteFragmentedPicture", "incomplete_checked")):
            t = cond_raises(repo, sm, node, name)
            if t is not None and "_fragment_slices_remaining" in norm(t):
                return st.add(tag)
        if isinstance(node, ast.Call) and dotted(node.func) == "picture_parse":
            if "interleave_checked" not in st.must:
                problems.append("picture_parse not dominated by the interleaving check")
        return st

    mf = MustFlow(seq, on4, node_types=(ast.Call, ast.If)).run()
    ex = mf.normal_exit_state()
    res.check(not problems, "C01.f", "parse_sequence:interleave-check-dominates-picture", "%s:parse_sequence" % sm.rel, "; ".join(problems), by="dominance")
    res.check(ex is not None and "incomplete_checked" in ex.must, "C01.f", "parse_sequence:incomplete-fragment-check-at-end", "%s:parse_sequence" % sm.rel, "a sequence can end normally without the incomplete-fragmented-picture check", by="must-pass-through")
    # odd-field and version-minimality checks on every normal exit
    def on5(node, st):
        if isinstance(node, ast.Call) and dotted(node.func) == "assert_major_version_is_minimal":
            return st.add("minimal")
        t = cond_raises(repo, sm, node, "OddNumberOfFieldsInSequence")
        if t is not None:
            return st.add("odd_fields")
        return st

    ex = MustFlow(seq, on5, node_types=(ast.Call, ast.If)).run().normal_exit_state()
    res.check(ex is not None and {"minimal", "odd_fields"} <= ex.must, "C01.f", "parse_sequence:end-of-sequence-checks", "%s:parse_sequence" % sm.rel, "odd-field-count and major_version minimality checks must run on every normal exit", by="must-pass-through")


def _mentions(e, fn, depth=0, seen=None):
    """state keys / state predicates an expression depends on, following locals
    to their definitions (and the control dependence of those definitions)."""
    seen = seen if seen is not None else set()
    out = set()
    for n in ast.walk(e):
        k = subscript_key(n, "state") if isinstance(n, ast.Subscript) else None
        if k:
            out.add(k)
        if isinstance(n, ast.Compare) and len(n.ops) == 1 and isinstance(n.ops[0], (ast.In, ast.NotIn)) and dotted(n.comparators[0]) == "state" and const_str(n.left):
            out.add(const_str(n.left))
        if isinstance(n, ast.Call) and dotted(n.func) == "state.get" and n.args and const_str(n.args[0]):
            out.add(const_str(n.args[0]))
        if isinstance(n, ast.Call) and isinstance(n.func, ast.Name) and any(dotted(a) == "state" for a in n.args):
            out.add(n.func.id + "()")
        if isinstance(n, ast.Name) and isinstance(n.ctx, ast.Load) and n.id not in seen and depth < 4 and n.id != "state":
            seen.add(n.id)
            for a in ast.walk(fn):
                if isinstance(a, ast.Assign) and any(isinstance(t, ast.Name) and t.id == n.id for t in a.targets):
                    out |= _mentions(a.value, fn, depth + 1, seen)
                    out |= _guard_signature(a, fn, depth + 1, seen)
    return out


def _guard_signature(node, fn, depth=0, seen=None):
    """control dependence of `node` inside fn: enclosing if-tests (either arm)
    and the tests of earlier statements in enclosing blocks that leave the
    function/loop normally (return / continue / break) -- raising exits reject
    the stream anyway and do not count."""
    out = set()
    c = node
    p = getattr(node, "_parent", None)
    while p is not None:
        if isinstance(p, ast.If) and (any(c is x for x in p.body) or any(c is x for x in p.orelse)):
            out |= _mentions(p.test, fn, depth, seen)
        for field in ("body", "orelse", "finalbody"):
            blk = getattr(p, field, None)
            if isinstance(blk, list) and any(c is x for x in blk):
                for prev in blk[: [i for i, x in enumerate(blk) if x is c][0]]:
                    if isinstance(prev, ast.If):
                        exits = [x for x in ast.walk(prev) if isinstance(x, (ast.Return, ast.Continue, ast.Break))]
                        if exits:
                            out |= _mentions(prev.test, fn, depth, seen)
        if p is fn:
            break
        c = p
        p = getattr(p, "_parent", None)
    return out


def rule_g(repo, res, sf):
    sites = raise_sites(repo, sf)
    for cls in STRUCTURE_EXCEPTIONS:
        allowed = ALLOWED_GUARD_DEPS.get(cls)
        where = "vc2_conformance/decoder"
        if allowed is None:
            res.bad("C01.g", "deps:%s" % cls, where, "no applicability table entry for %s" % cls)
            continue
        lst = sites.get(cls, [])
        if not lst:
            continue  # C01.d reports the missing site
        for m, fn, node, kind in lst:
            chk = node
            if isinstance(node, ast.Raise):
                p = getattr(node, "_parent", None)
                chk = p if isinstance(p, ast.If) else node
            sig = _guard_signature(chk, fn)
            extra = sorted(sig - allowed)
            if isinstance(chk, ast.If) and cls in OWN_CONDITION_READS:
                own = _mentions(chk.test, fn, 0, None)
                okown = any(own == w for w in OWN_CONDITION_READS[cls])
                res.check(okown, "C01.g", "condition:%s@%s:%s" % (cls, fn.name, ",".join(sorted(own))[:60]), "%s:%s" % (m.rel, fn.name), "the condition of the %s check reads %s; the rule compares %s -- %s" % (cls, sorted(own), " or ".join(str(sorted(w)) for w in OWN_CONDITION_READS[cls]), "it now also depends on %s, so histories where that is false escape the rule" % sorted(own - set().union(*OWN_CONDITION_READS[cls])) if own - set().union(*OWN_CONDITION_READS[cls]) else "an operand of the rule is no longer consulted"), by="condition reads exactly %s" % sorted(own))
            res.check(not extra, "C01.g", "deps:%s@%s" % (cls, fn.name), "%s:%s" % (m.rel, fn.name), "whether the %s check is evaluated now also depends on %s (allowed: %s): histories where that condition fails are no longer checked" % (cls, extra, sorted(allowed)), by="depends only on %s" % (sorted(sig) or "nothing"))


def rule_i(repo, res):
    from .c20 import inline_locals

    m, fn = repo.func("decoder.fragment_syntax:fragment_header")
    where = "%s:fragment_header" % m.rel
    st = fn.args.args[0].arg
    raises = [r for r in ast.walk(fn) if isinstance(r, ast.Raise) and isinstance(r.exc, ast.Call) and dotted(r.exc.func) == "FragmentSlicesNotContiguous"]
    res.check(len(raises) == 1, "C01.i", "contiguity:single-raise-site", where, "exactly one raise of FragmentSlicesNotContiguous expected (found %d)" % len(raises), by="one raise site")
    if len(raises) != 1:
        return
    p = getattr(raises[0], "_parent", None)
    ok = False
    found = "raise is not the body of an if"
    if isinstance(p, ast.If) and raises[0] in p.body and not p.orelse:
        t = inline_locals(fn, p.test)
        found = short(t, 160)
        X, Y, R, SX = ("%s['fragment_x_offset']" % st, "%s['fragment_y_offset']" % st, "%s['fragment_slices_received']" % st, "%s['slices_x']" % st)
        ex, ey = "%s %% %s" % (R, SX), "%s // %s" % (R, SX)

        def n(src):
            return norm(ast.parse(src).body[0].value)

        if isinstance(t, ast.BoolOp) and isinstance(t.op, ast.Or) and len(t.values) == 2:
            got = set(norm(v) for v in t.values)
            ok = got in ({n("%s != %s" % (X, ex)), n("%s != %s" % (Y, ey))}, {n("%s != %s" % (ex, X)), n("%s != %s" % (ey, Y))})
        elif isinstance(t, ast.Compare) and len(t.ops) == 1 and isinstance(t.ops[0], ast.NotEq):
            ok = norm(t) in (n("(%s, %s) != (%s, %s)" % (X, Y, ex, ey)), n("(%s, %s) != divmod(%s, %s)" % (Y, X, R, SX)), n("(%s, %s) != (%s, %s)" % (Y, X, ey, ex)))
    res.check(ok, "C01.i", "contiguity:coordinatewise", where, "the contiguity test must compare fragment_x_offset with received %% slices_x and fragment_y_offset with received // slices_x separately (found `%s`): equality of the raster index alone accepts offsets outside the slice grid that alias a valid index" % found, by="x != received %% slices_x or y != received // slices_x")


def _guards_chain(node, top):
    out = []
    c, p = node, getattr(node, "_parent", None)
    while p is not None and p is not top:
        if isinstance(p, ast.If):
            if any(c is x for x in p.body):
                out.append((p.test, True))
            elif any(c is x for x in p.orelse):
                out.append((p.test, False))
        c, p = p, getattr(p, "_parent", None)
    return out


def rule_j(repo, res):
    import csv
    import io

    vm = repo.mod("version_constraints")
    minimum = None
    for s_ in vm.tree.body:
        if isinstance(s_, ast.Assign) and dotted(s_.targets[0]) == "MINIMUM_MAJOR_VERSION" and isinstance(s_.value, ast.Constant):
            minimum = s_.value.value
    if not isinstance(minimum, int):
        raise AnalysisError("version_constraints.MINIMUM_MAJOR_VERSION not found")

    def returns_of(fn):
        out = set()
        for r in ast.walk(fn):
            if isinstance(r, ast.Return):
                if isinstance(r.value, ast.Constant) and isinstance(r.value.value, int):
                    out.add(r.value.value)
                elif dotted(r.value) == "MINIMUM_MAJOR_VERSION":
                    out.add(minimum)
                else:
                    raise AnalysisError("%s returns a non-literal version: %s" % (fn.name, short(r.value, 40)))
        return out

    indep = set()
    n_impl = 0
    for fname, fn in vm.funcs.items():
        if fname.endswith("_version_implication") and fname != "profile_version_implication":
            indep |= returns_of(fn)
            n_impl += 1
    pf = vm.funcs.get("profile_version_implication")
    if pf is None or n_impl < 6:
        raise AnalysisError("version implication functions not found (%d)" % n_impl)
    # profile -> implication: `if profile == Profiles.X: return N` arms, else the default
    prof_impl = {}
    default = None
    for n in ast.walk(pf):
        if isinstance(n, ast.If) and isinstance(n.test, ast.Compare) and isinstance(n.test.ops[0], ast.Eq) and (dotted(n.test.comparators[0]) or "").startswith("Profiles."):
            rs = [r for r in n.body if isinstance(r, ast.Return)]
            if rs and isinstance(rs[0].value, ast.Constant):
                prof_impl[dotted(n.test.comparators[0]).split(".")[1]] = rs[0].value.value
            for r in n.orelse:
                if isinstance(r, ast.Return):
                    default = minimum if dotted(r.value) == "MINIMUM_MAJOR_VERSION" else getattr(r.value, "value", None)
    if default is None:
        raise AnalysisError("profile_version_implication: default arm not recognised")
    profiles = repo.ext.enums.get("Profiles")
    if not profiles:
        raise AnalysisError("vc2_data_tables.Profiles not found")
    by_value = dict((v, k) for k, v in profiles.items())
    # the level table
    path = os.path.join(repo.pkgroot, "level_constraints.csv")
    rows = {}
    with open(path, encoding="utf-8") as f:
        for row in csv.reader(f):
            if row and row[0] in ("level", "profile", "major_version"):
                cells = []
                for c in row[1:]:
                    c = c.strip()
                    cells.append(cells[-1] if c == '"' and cells else c)
                rows[row[0]] = cells
    if set(rows) != {"level", "profile", "major_version"}:
        raise AnalysisError("level_constraints.csv: level/profile/major_version rows not found")

    def ints(cell):
        """None for 'any'; else the set of ints of a cell of values and ranges"""
        if cell.lower() == "any":
            return None
        out = set()
        for part in cell.split(","):
            part = part.strip()
            if not part:
                continue
            if "-" in part:
                a, b = part.split("-", 1)
                out.update(range(int(a), int(b) + 1))
            else:
                out.add(int(part))
        return out

    ok_levels, all_levels = set(), []
    for lv, pr, mv in zip(rows["level"], rows["profile"], rows["major_version"]):
        for level in sorted(ints(lv) or []):
            if level not in all_levels:
                all_levels.append(level)
            pset = ints(pr)
            pnames = list(profiles) if pset is None else [by_value[p] for p in pset if p in by_value]
            achievable = set(max(prof_impl.get(pn, default), r) for pn in pnames for r in indep)
            allowed = ints(mv)
            if allowed is None or achievable & allowed:
                ok_levels.add(level)
    for level in all_levels:
        res.check(level in ok_levels, "C01.j", "level:%d" % level, "vc2_conformance/level_constraints.csv", "no column of level %d allows a major_version that the minimality rule can produce for the column's profile (profile implications %s, other implications %s): every stream declaring level %d is rejected, with ValueNotAllowedInLevel or with MajorVersionTooHigh" % (level, dict(prof_impl, **{"<other>": default}), sorted(indep), level), by="some column allows an achievable version")
