"""C01 (placeholder while under construction)."""
from .. import regex, levels


def level_patterns_admit_sequence_header(repo):
    bad = []
    pats = levels.level_patterns(repo)
    for lvl, pat in pats.items():
        try:
            d = regex.language(pat, alphabet=sorted(regex.symbols_of(regex.parse(pat)) | {"sequence_header"}) + [regex.OTHER])
        except ValueError as e:
            bad.append("level %d: pattern does not parse (%s)" % (lvl, e))
            continue
        if "sequence_header" not in regex.first_set(d):
            bad.append("level %d pattern cannot start with sequence_header" % lvl)
    if bad:
        return False, "; ".join(bad)
    return True, "all %d level patterns admit sequence_header as first symbol" % len(pats)
