"""C15 Every generated sequence header encodes exactly the requested video
format (structural part): the encoder's table-driven option generators agree
with the vc2_data_tables namedtuples, the decoder's preset_* functions, the
bitstream fixeddicts and the validator's level keys."""
import ast
from collections import OrderedDict

from ..core import AnalysisError, const_str, dotted, norm, short, subscript_key
from ..report import Result
from .. import tables, enc_tables
from ..serdes_model import SerdesModel

PRESET_FN = {"PRESET_FRAME_RATES": "preset_frame_rate", "PRESET_PIXEL_ASPECT_RATIOS": "preset_pixel_aspect_ratio", "PRESET_SIGNAL_RANGES": "preset_signal_range"}


def check(repo, tier="quick"):
    res = Result("C15")
    res.explanation = (
        "Table agreement for the ten encoder option tables (partial(iter_custom_options_dicts, ...)) and the colour-spec generator: "
        "preset tuple order vs vc2_data_tables namedtuples vs the decoder's preset_* assignments; key names vs fixeddict entries; "
        "dict type vs the serdes function reading the flag; level keys vs the validator's assert_level_constraint calls for the same "
        "field; composition order of iter_source_parameter_options vs SourceParameters; construction of the yielded dictionaries."
    )
    res.rule("C15.f", "bug patterns with zero expected instances in this property's modules: swapped same-named arguments, lower-bound guard followed by a decrement of the guarded value, presence of a dictionary entry decided by truthiness")
    res.rule("C15.a", "position i of a preset-backed table's `parameters` is the VideoParameters key the decoder's preset function assigns from field i of the vc2_data_tables namedtuple")
    res.rule("C15.b", "table keys: dt_key/flag/index are entries of dict_type, vp_key of VideoParameters; dict_type is the context type that reads the flag; level keys equal the validator's keys for that syntax function")
    res.rule("C15.c", "iter_source_parameter_options composes the eight generators in SourceParameters' entry order; colour spec nests primaries/matrix/transfer exactly under index 0")
    res.rule("C15.e", "accepted under the configured level: each candidate base format is combined only with level-table columns filtered for that base format; defaults and header carry the same candidate")
    res.rule("C15.g", "the hand-written colour-specification generator: flag clear only if all three of primaries, matrix and transfer function of the base format equal the wanted ones; a preset (other than 0) only if its three fields, in the namedtuple's order, equal the wanted ones; the explicit form is relative to preset 0's three values and nests the three sub-generators under their own keys")
    res.rule("C15.h", "the validator accepts what the encoder may emit: each `assert_in_enum(value, E, exception)` of the validator's sequence-header functions names the enumeration with which the bitstream description declares the very field the checked value is read into (fixeddict Entry enum=...), which is the enumeration the encoder's preset indices are drawn from")
    res.rule("C15.i", "the generated headers carry major_version = AUTO: the value the validator sees is the one automatic filling computes, per sequence, from the header's own presets (every rule of C07 re-evaluated)")
    res.rule("C15.d", "yielded dictionaries: flag-clear only if the base format already matches; preset only if the preset tuple equals the wanted values; custom values copied from the wanted video parameters; headers built from set_source_defaults of the same base format")

    ot = enc_tables.option_tables(repo)
    res.info["option_tables"] = list(ot)
    rule_a(repo, res, ot)
    rule_b(repo, res, ot)
    rule_c(repo, res, ot)
    rule_d(repo, res, ot)
    rule_colorspec(repo, res)
    rule_enum_agreement(repo, res)
    # the headers leave major_version to automatic filling: every rule of C07 re-evaluated
    from . import c07 as _c07
    from ..report import Ob as _Ob

    for _o in _c07.check(repo, "quick").obs:
        res._add(_Ob("C15.i", "%s/%s" % (_o.rule, _o.key), _o.where, _o.status, _o.detail, _o.by, _o.path))
    res.floor("C15.i", 100)
    # ... and each sequence's header is judged on its own: what survives reset_state (C10.b, C10.c re-evaluated)
    from . import c10 as _c10
    from ..report import Result as _Res

    _sub = _Res("C10")
    _ret = _c10.rule_b(repo, _sub)
    _c10.rule_c(repo, _sub, _ret)
    for _o in _sub.obs:
        res._add(_Ob("C15.i", "%s/%s" % (_o.rule, _o.key), _o.where, _o.status, _o.detail, _o.by, _o.path))
    from .c16 import level_filter_rule

    level_filter_rule(repo, res, "C15.e")
    from .. import lints as _lints

    _lints.rule(repo, res, "C15.f", ['encoder.sequence_header', 'pseudocode.video_parameters'])
    res.floor("C15.f", 3)
    res.floor("C15.e", 1)
    res.floor("C15.a", 4)
    res.floor("C15.b", 40)
    res.floor("C15.c", 3)
    res.floor("C15.d", 5)
    res.floor("C15.g", 6)
    res.floor("C15.h", 8)
    res.assumptions = ["decoded-equals-requested is behaviour; the check decides table agreement, which is necessary for it", "vc2_data_tables namedtuple field order is read from its source"]
    res.trusted = ["vc2_data_tables source", "serdes model of bitstream/vc2.py"]
    return res


def rule_a(repo, res, ot):
    ext = repo.ext
    where = "vc2_conformance/encoder/sequence_header.py"
    for name, t in ot.items():
        if not t.presets:
            continue
        fn = PRESET_FN.get(t.presets)
        if fn is None:
            res.bad("C15.a", "%s:preset-table" % name, where, "unknown preset table %s" % t.presets)
            continue
        table, fmap = enc_tables.preset_field_map(repo, fn)
        tup = ext.lookups.get(t.presets, {}).get("tuple")
        fields = ext.namedtuples.get(tup)
        if table != t.presets or not fields:
            res.bad("C15.a", "%s:preset-table" % name, where, "decoder %s reads %s; encoder table uses %s (namedtuple %s)" % (fn, table, t.presets, tup))
            continue
        want = [fmap.get(f) for f in fields]
        got = [vp for vp, dt in t.parameters]
        res.check(want == got, "C15.a", "%s:parameter-order" % name, where, "%s fields %s are assigned by %s to %s, but the encoder table lists %s: a preset would be matched against the wrong values" % (tup, fields, fn, want, got), by="%s = %s" % (fields, got))
    # colour spec: tuple unpacking order vs namedtuple order vs decoder assignments
    m, fn = repo.func(enc_tables.SH + ":iter_color_spec_options")
    table, fmap = enc_tables.preset_field_map(repo, "preset_color_spec")
    fields = ext.namedtuples.get(ext.lookups.get("PRESET_COLOR_SPECS", {}).get("tuple"), [])
    ok = False
    det = "loop over PRESET_COLOR_SPECS.items() not found"
    for n in ast.walk(fn):
        if isinstance(n, ast.For) and norm(n.iter) == "PRESET_COLOR_SPECS.items()" and isinstance(n.target, ast.Tuple) and isinstance(n.target.elts[1], ast.Tuple):
            names = [dotted(e) for e in n.target.elts[1].elts]
            cmp_ = {}
            for c in ast.walk(n):
                if isinstance(c, ast.Compare) and len(c.ops) == 1 and isinstance(c.ops[0], ast.Eq):
                    for a_, b_ in ((c.left, c.comparators[0]), (c.comparators[0], c.left)):
                        if subscript_key(a_, "video_parameters") and dotted(b_) in names:
                            cmp_[dotted(b_)] = subscript_key(a_, "video_parameters")
            want = [fmap.get(f) for f in fields]
            got = [cmp_.get(x) for x in names]
            ok = want == got and len(want) == 3 and None not in want
            det = "namedtuple fields %s -> decoder keys %s; encoder compares tuple positions with %s" % (fields, want, got)
    res.check(ok, "C15.a", "iter_color_spec_options:tuple-order", "%s:iter_color_spec_options" % m.rel, det, by=det)


def rule_b(repo, res, ot):
    fds = {fd.var: fd for fd in tables.fixeddicts(repo)}
    vp = fds.get("VideoParameters")
    sm = SerdesModel(repo)
    co = sm.context_ops()
    dk = enc_tables.decoder_level_keys(repo, modules=("decoder.sequence_header",))
    csv_keys = set(enc_tables.level_csv_keys(repo))
    where = "vc2_conformance/encoder/sequence_header.py"
    ctype_fn = {sf.ctype: n for n, sf in sm.funcs.items() if sf.ctype}
    for name, t in ot.items():
        fd = fds.get(t.dict_type)
        if fd is None:
            res.bad("C15.b", "%s:dict-type" % name, where, "dict_type %s is not a fixeddict" % t.dict_type)
            continue
        res.check(t.flag_key in fd.entries, "C15.b", "%s:flag-entry" % name, where, "flag_key %r is not an entry of %s" % (t.flag_key, t.dict_type), by="entry")
        if t.presets:
            res.check("index" in fd.entries, "C15.b", "%s:index-entry" % name, where, "%s has no 'index' entry" % t.dict_type, by="entry")
        for vpk, dtk in t.parameters:
            res.check(dtk in fd.entries, "C15.b", "%s:dt:%s" % (name, dtk), where, "%r is not an entry of %s" % (dtk, t.dict_type), by="entry of %s" % t.dict_type)
            res.check(vp is not None and vpk in vp.entries, "C15.b", "%s:vp:%s" % (name, vpk), where, "%r is not an entry of VideoParameters" % vpk, by="entry of VideoParameters")
        # dict_type is the context type whose program reads the flag as a bool
        ops = co.get(t.dict_type, [])
        reads_flag = any(o.op == "bool" and t.flag_key in o.targets for o in ops)
        res.check(reads_flag, "C15.b", "%s:context-reads-flag" % name, where, "the description program of %s does not read %r as a flag" % (t.dict_type, t.flag_key), by="serdes.bool(%r) in %s" % (t.flag_key, ctype_fn.get(t.dict_type)))
        # every dt_key is read by that program, with the vp_key receiving it
        sfn = ctype_fn.get(t.dict_type)
        if sfn:
            f = sm.funcs[sfn].fn
            for vpk, dtk in t.parameters:
                ok = False
                for n in ast.walk(f):
                    if isinstance(n, ast.Assign) and subscript_key(n.targets[0], "video_parameters") == vpk and isinstance(n.value, ast.Call) and dotted(n.value.func) == "serdes.uint" and const_str(n.value.args[0]) == dtk:
                        ok = True
                    # index-style fields: index = serdes.uint("index"); preset_X(video_parameters, index) assigns vp key
                    if isinstance(n, ast.Assign) and dotted(n.targets[0]) == "index" and isinstance(n.value, ast.Call) and const_str(n.value.args[0]) == dtk == "index":
                        ok = True
                res.check(ok, "C15.b", "%s:program-assigns:%s" % (name, vpk), where, "the description program %s does not read %r into video_parameters[%r]" % (sfn, dtk, vpk), by="video_parameters[%r] = serdes.uint(%r)" % (vpk, dtk))
        # level keys = the validator's keys in the syntax function of the same name
        want = [k for k, v, n in dk.get(sfn, [])]
        mine = [t.flag_key] + ([t.index_key] if t.index_key else []) + [vpk for vpk, dtk in t.parameters]
        res.check(set(want) == set(mine) and bool(want), "C15.b", "%s:level-keys" % name, where, "validator %s() constrains %s; the encoder table consults %s" % (sfn, want, mine), by="same %d level keys as decoder.sequence_header.%s" % (len(want), sfn))
        for k in mine:
            res.check(k in csv_keys, "C15.b", "%s:level-key-exists:%s" % (name, k), where, "%r is not a row of level_constraints.csv (lookup would raise KeyError)" % k, by="row of the level table")


def rule_c(repo, res, ot):
    m, fn = repo.func(enc_tables.SH + ":iter_source_parameter_options")
    where = "%s:iter_source_parameter_options" % m.rel
    fds = {fd.var: fd for fd in tables.fixeddicts(repo)}
    sp = fds.get("SourceParameters")
    entries = list(sp.entries) if sp else []
    gens = None
    targets = None
    kw = None
    for n in ast.walk(fn):
        if isinstance(n, ast.For) and isinstance(n.target, ast.Tuple) and "zip_longest_repeating_final_value" in norm(n.iter):
            targets = [dotted(e) for e in n.target.elts]
            for g in ast.walk(n.iter):
                if isinstance(g, (ast.List, ast.Tuple)) and g.elts and all(isinstance(e, ast.Name) for e in g.elts):
                    gens = [e.id for e in g.elts]
        if isinstance(n, ast.Call) and dotted(n.func) == "SourceParameters":
            kw = [(k.arg, dotted(k.value)) for k in n.keywords]
    ok = gens is not None and targets == entries and kw == [(e, e) for e in entries]
    # each generator builds the dict type of the entry it feeds
    sm = SerdesModel(repo)
    nested = {}
    for o in sm.context_ops().get("SourceParameters", []):
        for t in o.targets:
            nested[t] = o.nested
    types_ok = True
    det = []
    if gens:
        for e, g in zip(entries, gens):
            t = ot.get(g)
            dt = t.dict_type if t else ("ColorSpec" if g == "iter_color_spec_options" else None)
            if dt != nested.get(e):
                types_ok = False
                det.append("%s <- %s builds %s, entry holds %s" % (e, g, dt, nested.get(e)))
    res.check(ok and types_ok and len(entries) == 8, "C15.c", "source-parameters:composition", where, "generators %s feed loop targets %s / SourceParameters(%s); entries are %s; %s" % (gens, targets, kw, entries, det), by="8 generators in entry order, each building its entry's type")
    # top_field_first cannot be overridden
    ok = any(isinstance(n, ast.If) and "top_field_first" in norm(n.test) and isinstance(n.test, ast.Compare) and isinstance(n.test.ops[0], ast.NotEq) and any(isinstance(b, ast.Return) for b in n.body) for n in fn.body)
    res.check(ok, "C15.c", "source-parameters:top-field-first", where, "a base format with a different top_field_first cannot express the request and must yield nothing", by="early return on mismatch")
    cm, cfn = repo.func(enc_tables.SH + ":iter_color_spec_options")
    ok = False
    for n in ast.walk(cfn):
        if isinstance(n, ast.Call) and dotted(n.func) == "ColorSpec":
            kws = {k.arg: k.value for k in n.keywords}
            if {"color_primaries", "color_matrix", "transfer_function"} <= set(kws):
                ok = isinstance(kws.get("index"), ast.Constant) and kws["index"].value == 0 and isinstance(kws.get("custom_color_spec_flag"), ast.Constant) and kws["custom_color_spec_flag"].value is True
    others = [n for n in ast.walk(cfn) if isinstance(n, ast.Call) and dotted(n.func) == "ColorSpec" and not ({"color_primaries"} <= set(k.arg for k in n.keywords))]
    ok2 = all(not any(k.arg in ("color_primaries", "color_matrix", "transfer_function") for k in n.keywords) for n in others)
    res.check(ok and ok2, "C15.c", "color-spec:nesting-under-index-0", "%s:iter_color_spec_options" % cm.rel, "primaries/matrix/transfer sub-dictionaries must be emitted exactly with index=0 (color_spec reads them only then)", by="nested only under index 0")


def rule_d(repo, res, ot):
    m, fn = repo.func(enc_tables.SH + ":iter_custom_options_dicts")
    where = "%s:iter_custom_options_dicts" % m.rel
    yields = [n for n in ast.walk(fn) if isinstance(n, ast.Yield)]

    def guards(node):
        out = []
        c = node
        p = getattr(node, "_parent", None)
        while p is not None and p is not fn:
            if isinstance(p, ast.If) and any(c is x for x in p.body):
                out.append(norm(p.test))
            c = p
            p = getattr(p, "_parent", None)
        return " and ".join(out)

    kinds = {}
    for y in yields:
        v = y.value
        g = guards(y)
        if isinstance(v, ast.Call) and dotted(v.func) == "dict_type" and isinstance(v.args[0], ast.Dict):
            d = {norm(k): val for k, val in zip(v.args[0].keys, v.args[0].values)}
            if isinstance(d.get("flag_key"), ast.Constant) and d["flag_key"].value is False:
                kinds["clear"] = (y, g)
            elif "'index'" in d:
                kinds["preset"] = (y, g, d)
        elif isinstance(v, ast.Name):
            kinds["custom"] = (y, g)
    ok = "clear" in kinds and "base_video_parameters[vp_key] == video_parameters[vp_key]" in kinds["clear"][1] and "all(" in kinds["clear"][1]
    res.check(ok, "C15.d", "yield:flag-clear-needs-base-match", where, "the flag may be left clear only if every parameter of the base format equals the wanted value", by="all(base[k] == wanted[k])")
    ok = "preset" in kinds and "values == tuple((video_parameters[vp_key] for vp_key, _ in parameters))" in kinds["preset"][1] and dotted(kinds["preset"][2].get("'index'")) == "index"
    res.check(ok, "C15.d", "yield:preset-needs-equal-tuple", where, "a preset index may be emitted only if the preset's tuple equals the wanted values in `parameters` order, and the emitted index must be that preset's", by="values == tuple(wanted[k] for k in parameters)")
    ok = False
    if "custom" in kinds:
        var = dotted(kinds["custom"][0].value)
        copies = [n for n in ast.walk(fn) if isinstance(n, ast.Assign) and isinstance(n.targets[0], ast.Subscript) and dotted(n.targets[0].value) == var and norm(n.targets[0].slice) == "dt_key" and norm(n.value) == "video_parameters[vp_key]"]
        idx0 = [n for n in ast.walk(fn) if isinstance(n, ast.Assign) and isinstance(n.targets[0], ast.Subscript) and dotted(n.targets[0].value) == var and const_str(n.targets[0].slice) == "index" and isinstance(n.value, ast.Constant) and n.value.value == 0]
        ok = len(copies) == 1 and len(idx0) == 1
    res.check(ok, "C15.d", "yield:custom-copies-wanted-values", where, "the explicit encoding must set index 0 (when presets exist) and copy video_parameters[vp_key] into each dt_key", by="out[dt_key] = video_parameters[vp_key]; out['index'] = 0")
    # iter_sequence_headers
    im, ifn = repo.func(enc_tables.SH + ":iter_sequence_headers")
    w = "%s:iter_sequence_headers" % im.rel
    loopvar = None
    for n in ast.walk(ifn):
        if isinstance(n, ast.For) and dotted(n.iter) == "base_video_formats":
            loopvar = dotted(n.target)
    ok = False
    for n in ast.walk(ifn):
        if isinstance(n, ast.Call) and dotted(n.func) == "SequenceHeader":
            kw = {k.arg: norm(k.value) for k in n.keywords}
            ok = kw.get("base_video_format") == loopvar and kw.get("picture_coding_mode") in ("picture_coding_mode", "codec_features['picture_coding_mode']") and kw.get("video_parameters") == "source_parameters" and "parse_parameters" in kw
    base_ok = any(isinstance(n, ast.Assign) and dotted(n.targets[0]) == "base_video_parameters" and norm(n.value) == "set_source_defaults(%s)" % loopvar for n in ast.walk(ifn))
    uses = any(isinstance(n, ast.Call) and dotted(n.func) == "iter_source_parameter_options" and [dotted(a) for a in n.args[:2]] == ["base_video_parameters", "video_parameters"] for n in ast.walk(ifn))
    res.check(ok and base_ok and uses, "C15.d", "sequence-header:same-base-format", w, "the header must carry the base format whose set_source_defaults() the options were computed against, and the configured picture coding mode", by="base_video_format=%s, options relative to set_source_defaults(%s)" % (loopvar, loopvar))
    pm, pfn = repo.func(enc_tables.SH + ":make_parse_parameters")
    kw = {}
    for n in ast.walk(pfn):
        if isinstance(n, ast.Call) and dotted(n.func) == "ParseParameters":
            kw = {k.arg: norm(k.value) for k in n.keywords}
    res.check(kw.get("profile") == "codec_features['profile']" and kw.get("level") == "codec_features['level']", "C15.d", "parse-parameters:profile-level", "%s:make_parse_parameters" % pm.rel, "ParseParameters must carry the configured profile and level (found %s)" % kw, by="profile, level from codec_features")


def rule_colorspec(repo, res):
    from ..core import pfind, pmatch, pall

    m, fn = repo.func(enc_tables.SH + ":iter_color_spec_options")
    where = "%s:iter_color_spec_options" % m.rel
    fields = repo.ext.namedtuples.get("ColorSpecificiation")
    if not fields or len(fields) != 3:
        raise AnalysisError("vc2_data_tables.ColorSpecificiation fields not found")
    base, want, lc = [a.arg for a in fn.args.args[:3]]
    yields = [y for y in ast.walk(fn) if isinstance(y, ast.Yield) and isinstance(y.value, ast.Call) and dotted(y.value.func) == "ColorSpec"]
    kw = lambda y: dict((k.arg, k.value) for k in y.value.keywords)

    def guard_terms(node):
        out = []
        c, p = node, getattr(node, "_parent", None)
        while p is not None and p is not fn:
            if isinstance(p, ast.If) and any(c is x for x in p.body):
                t = p.test
                out.extend(t.values if isinstance(t, ast.BoolOp) and isinstance(t.op, ast.And) else [t])
            c, p = p, getattr(p, "_parent", None)
        return out

    clear = [y for y in yields if isinstance(kw(y).get("custom_color_spec_flag"), ast.Constant) and kw(y)["custom_color_spec_flag"].value is False]
    ok = False
    found = None
    if len(clear) == 1 and set(kw(clear[0])) == {"custom_color_spec_flag"}:
        for t in guard_terms(clear[0]):
            if isinstance(t, ast.Call) and dotted(t.func) == "all" and len(t.args) == 1 and isinstance(t.args[0], ast.GeneratorExp):
                g = t.args[0]
                if len(g.generators) == 1 and isinstance(g.generators[0].iter, (ast.List, ast.Tuple)) and not g.generators[0].ifs:
                    kv = dotted(g.generators[0].target)
                    found = [const_str(e) for e in g.generators[0].iter.elts]
                    ok = set(found) == set(fields) and norm(g.elt) in ("%s[%s] == %s[%s]" % (base, kv, want, kv), "%s[%s] == %s[%s]" % (want, kv, base, kv))
    res.check(ok, "C15.g", "colour-spec:flag-clear-needs-all-three", where, "custom_color_spec_flag may be left clear only under all(base[k] == wanted[k]) over exactly %s (found %s): otherwise the decoder keeps the base format's value for the omitted one" % (fields, found), by="all three of %s compared" % fields)
    lvl = [norm(t) for y in clear for t in guard_terms(y)]
    res.check("False in %s['custom_color_spec_flag']" % lc in lvl, "C15.g", "colour-spec:flag-clear-allowed-by-level", where, "the clear flag must be offered only if the level allows it", by="False in level['custom_color_spec_flag']")
    # preset
    pres = [y for y in yields if dotted(kw(y).get("custom_color_spec_flag")) is None and isinstance(kw(y).get("custom_color_spec_flag"), ast.Constant) and kw(y)["custom_color_spec_flag"].value is True and set(kw(y)) == {"custom_color_spec_flag", "index"}]
    ok = False
    if len(pres) == 1:
        loop = None
        p = getattr(pres[0], "_parent", None)
        while p is not None and p is not fn:
            if isinstance(p, ast.For):
                loop = p
                break
            p = getattr(p, "_parent", None)
        if loop is not None and norm(loop.iter) == "PRESET_COLOR_SPECS.items()" and isinstance(loop.target, ast.Tuple) and len(loop.target.elts) == 2 and isinstance(loop.target.elts[1], ast.Tuple) and len(loop.target.elts[1].elts) == 3:
            idx = dotted(loop.target.elts[0])
            names = [dotted(e) for e in loop.target.elts[1].elts]
            terms = set(norm(t) for t in guard_terms(pres[0]))
            need = set(["%s != 0" % idx, "True in %s['custom_color_spec_flag']" % lc, "%s in %s['color_spec_index']" % (idx, lc)])
            eqs = all(("%s[%r] == %s" % (want, f, n)) in terms or ("%s == %s[%r]" % (n, want, f)) in terms for f, n in zip(fields, names))
            ok = need <= terms and eqs and dotted(kw(pres[0])["index"]) == idx
    res.check(ok, "C15.g", "colour-spec:preset-needs-equal-fields", where, "a colour-spec preset may be emitted only for index != 0 whose three fields, unpacked in the order %s, equal the wanted values, and only if the level allows the flag and the index" % fields, by="wanted[f] == field f of the preset, for all three, in namedtuple order")
    # explicit form relative to preset 0
    n, e = pfind("X_c = %s.copy()" % base, fn)
    ok = False
    cb = None
    if n is not None:
        cb = e["X_c"]
        n2, e2 = pfind("X_p = PRESET_COLOR_SPECS[0]", fn)
        if n2 is not None:
            ok = all(pfind("%s[%r] = %s.%s" % (cb, f, e2["X_p"], f), fn)[0] is not None for f in fields)
    res.check(ok, "C15.g", "colour-spec:explicit-form-relative-to-preset-0", where, "with index 0 the decoder first loads preset 0: the sub-options must be computed against a copy of the base parameters with all three of %s overwritten by PRESET_COLOR_SPECS[0]'s" % fields, by="custom_base_vp[f] = PRESET_COLOR_SPECS[0].f for all three")
    full = [y for y in yields if set(kw(y)) == {"custom_color_spec_flag", "index", "color_primaries", "color_matrix", "transfer_function"}]
    ok = False
    if len(full) == 1 and cb:
        k = kw(full[0])
        loop = None
        p = getattr(full[0], "_parent", None)
        while p is not None and p is not fn:
            if isinstance(p, ast.For):
                loop = p
                break
            p = getattr(p, "_parent", None)
        if loop is not None and isinstance(loop.iter, ast.Call) and dotted(loop.iter.func) == "zip_longest_repeating_final_value" and isinstance(loop.target, ast.Tuple) and len(loop.target.elts) == 3 and len(loop.iter.args) == 3:
            tn = [dotted(x) for x in loop.target.elts]
            gens = [dotted(a.func) if isinstance(a, ast.Call) else None for a in loop.iter.args]
            args_ok = all(isinstance(a, ast.Call) and [dotted(x) for x in a.args] == [cb, want, lc] for a in loop.iter.args)
            ok = (
                gens == ["iter_color_primaries_options", "iter_color_matrix_options", "iter_transfer_function_options"]
                and args_ok
                and [dotted(k["color_primaries"]), dotted(k["color_matrix"]), dotted(k["transfer_function"])] == tn
                and isinstance(k["index"], ast.Constant) and k["index"].value == 0
                and isinstance(k["custom_color_spec_flag"], ast.Constant) and k["custom_color_spec_flag"].value is True
            )
            terms = set(norm(t) for t in guard_terms(full[0]))
            ok = ok and {"True in %s['custom_color_spec_flag']" % lc, "0 in %s['color_spec_index']" % lc} <= terms
    res.check(ok, "C15.g", "colour-spec:explicit-form-nests-own-generators", where, "the explicit form must carry index 0 and the results of iter_color_primaries_options / iter_color_matrix_options / iter_transfer_function_options (each called with the preset-0 base, the wanted parameters and the level column) under color_primaries / color_matrix / transfer_function respectively, and only if the level allows the flag and index 0", by="three sub-generators, own keys, preset-0 base")
    res.check(len(yields) == 3, "C15.g", "colour-spec:three-forms-only", where, "iter_color_spec_options must yield exactly the three reviewed forms (found %d ColorSpec yields)" % len(yields), by="clear / preset / explicit")


def rule_enum_agreement(repo, res):
    """validator's assert_in_enum enumerations vs the enumeration the bitstream description declares for the same field"""
    dm = repo.mod("decoder.sequence_header")
    bm = repo.mod("bitstream.vc2")
    decl = {}
    for fd in tables.fixeddicts(repo):
        if fd.var:
            decl[fd.var] = fd
    n = 0
    for fname, fn in sorted(dm.funcs.items()):
        calls = [c for c in ast.walk(fn) if isinstance(c, ast.Call) and dotted(c.func) == "assert_in_enum" and len(c.args) == 3]
        if not calls:
            continue
        bfn = bm.funcs.get(fname)
        if bfn is None:
            raise AnalysisError("bitstream.vc2 has no counterpart of the validator's %s" % fname)
        ctx = None
        for d in bfn.decorator_list:
            if isinstance(d, ast.Call) and dotted(d.func) == "context_type" and d.args:
                ctx = dotted(d.args[0])
        if ctx not in decl:
            raise AnalysisError("context type of bitstream.vc2:%s not found" % fname)
        # variable (as written) -> field name it is read into, in the description program
        read_into = {}
        for a in ast.walk(bfn):
            if isinstance(a, ast.Assign) and len(a.targets) == 1 and isinstance(a.value, ast.Call) and isinstance(a.value.func, ast.Attribute) and dotted(a.value.func.value) == "serdes" and a.value.args and const_str(a.value.args[0]):
                read_into.setdefault(norm(a.targets[0]), set()).add(const_str(a.value.args[0]))
        for c in calls:
            n += 1
            enum, exc = dotted(c.args[1]), dotted(c.args[2])
            fields = read_into.get(norm(c.args[0]), set())
            if len(fields) != 1:
                raise AnalysisError("cannot tell which field %s of %s is read into (%s)" % (norm(c.args[0]), fname, sorted(fields)))
            field = next(iter(fields))
            entry = decl[ctx].entries.get(field)
            if entry is None:
                raise AnalysisError("%s does not declare %r" % (ctx, field))
            res.check(entry.enum == enum, "C15.h", "%s:%s" % (fname, field), "%s:%s" % (dm.rel, fname), "the validator checks %s.%s against the enumeration %s (raising %s) but the bitstream description declares that field with enum=%s, the enumeration the encoder's indices are drawn from: values the encoder may emit are rejected, or unknown values accepted" % (ctx, field, enum, exc, entry.enum), by="%s.%s is declared with enum=%s" % (ctx, field, entry.enum))
    if n == 0:
        raise AnalysisError("no assert_in_enum call found in decoder.sequence_header")
